#!/venv/bin/python
"""Apply a patch to a scratch copy of the package (NOT to /repo) and print what the check of the given property
(or of every property with `all`) reports on the copy that it does not report on /repo.

usage: try_seed.py <patch.diff> <Cxx|all> [more props]"""
import shutil
import subprocess
import sys

sys.path.insert(0, "/verif")
from sa import selftest  # noqa: E402

ALL = [f"C{i:02d}" for i in range(1, 21) if i != 14]


def main():
    patch = sys.argv[1]
    props = ALL if sys.argv[2] == "all" else sys.argv[2:]
    tmp = selftest._copy_pkg("/repo")
    try:
        r = subprocess.run(["patch", "-p1", "-s", "-d", tmp, "-i", patch], capture_output=True, text=True)
        if r.returncode != 0:
            print("patch failed:", (r.stdout + r.stderr)[:300])
            return 2
        for prop in props:
            try:
                base = selftest._violations(prop, "/repo")
                v = selftest._violations(prop, tmp)
                new = sorted(k for k in v if k not in base)
                print(f"{prop}: {len(new)} new report(s)")
                for k in new[:8]:
                    print("    " + " | ".join(k)[:300])
            except Exception as e:  # noqa
                print(f"{prop}: {type(e).__name__} {str(e)[:300]}")
    finally:
        shutil.rmtree(tmp, ignore_errors=True)
    return 0


if __name__ == "__main__":
    sys.exit(main())
