#!/usr/bin/env python3
"""Regenerate MANIFEST.json from the table below (keeps it schema-valid)."""
import json
import os

HERE = os.path.dirname(os.path.dirname(os.path.abspath(__file__)))
PY = "/venv/bin/python"

CLAIMS = {
    # id: (technique, text, note, design_ref)
    "C03": (
        "interprocedural effect analysis (abstract interpretation over the AST) + structural dominance of save/restore pairs",
        "Decides the purity clause: every write to state reachable from self on every path of query/query_by_utility "
        "(13 stream strategies, 7 concrete budget managers, callees inlined) is either an idempotent re-derivation or is "
        "bracketed by a dominating copy-save and a post-dominating restore (RNG: get_state/set_state). All paths, all inputs; "
        "numerical equality of repeated results is not decided.",
        "Trusts the alias/in-place tables for numpy/sklearn calls; exception paths between save and restore are not modelled.",
        "DESIGN.md section 3 C03",
    ),
}

NOT_APPLICABLE = {
    "C14": "quantifies over multi-cycle oracle histories; no clause beyond the single-query conditions decided under C01 is visible in the shape of the code (DESIGN.md section 3 C14)",
}

PENDING = "static rule designed in DESIGN.md section 3 but its checker is not built/armed yet in this commit; not claimed until it is"

ALL = [f"C{i:02d}" for i in range(1, 21)]


def main():
    checks = []
    for pid in ALL:
        if pid not in CLAIMS:
            continue
        tech, text, note, ref = CLAIMS[pid]
        checks.append({
            "property_id": pid,
            "quick_cmd": f"{PY} sa/run.py {pid} --tier quick",
            "thorough_cmd": f"{PY} sa/run.py {pid} --tier thorough",
            "evidence_file": f"/verif/evidence/{pid}.json",
            "replay_cmd_template": f"{PY} sa/run.py {pid} --tier quick  # violations listed in {{path}}",
            "engine": "sa",
            "level_claimed": {"category": "other", "text": text, "design_ref": ref},
            "level_note": note,
            "technique": "static analysis: " + tech,
        })
    na = []
    for pid in ALL:
        if pid in CLAIMS:
            continue
        na.append({"property_id": pid, "reason": NOT_APPLICABLE.get(pid, PENDING)})
    man = {
        "version": 1,
        "setup_cmd": "true",
        "hooks": {
            "guard": "SKACTIVEML_VERIF",
            "enable": "no hooks are needed: the checks only parse /repo's working tree",
            "baseline_off_cmd": "cd /repo && /venv/bin/python -m pytest -ra -q -p no:cacheprovider --timeout=900 --continue-on-collection-errors",
            "source_commits": [],
            "add_only": True,
        },
        "engines": [{
            "name": "sa",
            "path": "/verif/sa",
            "serves_properties": sorted(CLAIMS),
            "kind_free_text": "repository-specific static analyser (stdlib ast): project index + MRO, interprocedural abstract interpreter (alias/effect/RNG provenance), structural dominance, per-property rules; nothing of skactiveml is imported or executed",
        }],
        "checks": checks,
        "not_applicable": na,
        "notes": "All checks read $VERIF_REPO (default /repo) at run time. Exit 0 pass / 1 VIOLATION / 2 ANALYSIS-ERROR. Known findings: /verif/known_findings.jsonl.",
    }
    with open(os.path.join(HERE, "MANIFEST.json"), "w") as fh:
        json.dump(man, fh, indent=1)
    print("claimed:", sorted(CLAIMS), "not_applicable:", len(na))


if __name__ == "__main__":
    main()
