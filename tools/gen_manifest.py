#!/usr/bin/env python3
"""Regenerate MANIFEST.json from the table below (keeps it schema-valid)."""
import json
import os

HERE = os.path.dirname(os.path.dirname(os.path.abspath(__file__)))
PY = "/venv/bin/python"

CLAIMS = {
    # id: (technique, text, note, design_ref)
    "C03": (
        "interprocedural effect analysis (abstract interpretation over the AST) + structural dominance of save/restore pairs",
        "Decides the purity clause: every write to state reachable from self on every path of query/query_by_utility "
        "(13 stream strategies, 7 concrete budget managers, callees inlined) is either an idempotent re-derivation or is "
        "bracketed by a dominating copy-save and a post-dominating restore (RNG: get_state/set_state). All paths, all inputs; "
        "numerical equality of repeated results is not decided.",
        "Trusts the alias/in-place tables for numpy/sklearn calls; exception paths between save and restore are not modelled.",
        "DESIGN.md section 3 C03",
    ),
    "C05": (
        "interprocedural alias/ownership analysis: who may write constructor parameters, caller arrays and caller models",
        "Decides the ownership clauses for all 32 pool query entities with callees inlined: no reachable store to / in-place "
        "mutation of a constructor parameter (or an object aliased to it), no in-place writer applied to a value that may alias "
        "an argument array (through validation helpers, views, slices), fit/partial_fit/set_params only on fresh clones. "
        "All paths, all configurations; byte-wise equality and picklability in general are not decided.",
        "Aliasing is under-approximated (unknown external calls return fresh objects); numpy/sklearn calls write their inputs only if listed in the in-place tables.",
        "DESIGN.md section 3 C05",
    ),
    "C06": (
        "RNG provenance analysis (taint over an interprocedural abstract interpretation with constant propagation) + syntactic scan for global draws",
        "Decides the provenance clause: every random draw reachable from any public method of any estimator class or public helper "
        "derives from self.random_state(_)/a random_state argument/a literal seed and never from numpy's global generator "
        "(random_state=None or omitted on the call path, seedless external estimators), and pool queries do not consume a caller-supplied RandomState. "
        "Bit-wise equality of outputs and determinism of third-party numerical code are not decided.",
        "Table of external estimators that draw in fit; random_state=None chosen by the user is outside the premise.",
        "DESIGN.md section 3 C06",
    ),
    "C13": (
        "interprocedural alias/ownership analysis over every public method of every estimator class (class-wide heap)",
        "Decides the parameters-are-never-rewritten clause: in every public method except __init__/set_params of all estimator classes, "
        "no store to or in-place mutation of a constructor parameter, directly, through an alias created in another method, or in a callee. "
        "Equality of a refitted object with a fresh clone as numbers is not decided.",
        "Aliasing is under-approximated; constructor parameters = attributes stored by any __init__ along the MRO.",
        "DESIGN.md section 3 C13",
    ),
}

NOT_APPLICABLE = {
    "C14": "quantifies over multi-cycle oracle histories; no clause beyond the single-query conditions decided under C01 is visible in the shape of the code (DESIGN.md section 3 C14)",
}

PENDING = "static rule designed in DESIGN.md section 3 but its checker is not built/armed yet in this commit; not claimed until it is"

ALL = [f"C{i:02d}" for i in range(1, 21)]


def main():
    checks = []
    for pid in ALL:
        if pid not in CLAIMS:
            continue
        tech, text, note, ref = CLAIMS[pid]
        checks.append({
            "property_id": pid,
            "quick_cmd": f"{PY} sa/run.py {pid} --tier quick",
            "thorough_cmd": f"{PY} sa/run.py {pid} --tier thorough",
            "evidence_file": f"/verif/evidence/{pid}.json",
            "replay_cmd_template": f"{PY} sa/run.py {pid} --tier quick  # violations listed in {{path}}",
            "engine": "sa",
            "level_claimed": {"category": "other", "text": text, "design_ref": ref},
            "level_note": note,
            "technique": "static analysis: " + tech,
        })
    na = []
    for pid in ALL:
        if pid in CLAIMS:
            continue
        na.append({"property_id": pid, "reason": NOT_APPLICABLE.get(pid, PENDING)})
    man = {
        "version": 1,
        "setup_cmd": "true",
        "hooks": {
            "guard": "SKACTIVEML_VERIF",
            "enable": "no hooks are needed: the checks only parse /repo's working tree",
            "baseline_off_cmd": "cd /repo && /venv/bin/python -m pytest -ra -q -p no:cacheprovider --timeout=900 --continue-on-collection-errors",
            "source_commits": [],
            "add_only": True,
        },
        "engines": [{
            "name": "sa",
            "path": "/verif/sa",
            "serves_properties": sorted(CLAIMS),
            "kind_free_text": "repository-specific static analyser (stdlib ast): project index + MRO, interprocedural abstract interpreter (alias/effect/RNG provenance), structural dominance, per-property rules; nothing of skactiveml is imported or executed",
        }],
        "checks": checks,
        "not_applicable": na,
        "notes": "All checks read $VERIF_REPO (default /repo) at run time. Exit 0 pass / 1 VIOLATION / 2 ANALYSIS-ERROR. Known findings: /verif/known_findings.jsonl.",
    }
    with open(os.path.join(HERE, "MANIFEST.json"), "w") as fh:
        json.dump(man, fh, indent=1)
    print("claimed:", sorted(CLAIMS), "not_applicable:", len(na))


if __name__ == "__main__":
    main()
