#!/usr/bin/env python3
"""Regenerate MANIFEST.json from the table below (keeps it schema-valid)."""
import json
import os

HERE = os.path.dirname(os.path.dirname(os.path.abspath(__file__)))
PY = "/venv/bin/python"

CLAIMS = {
    # id: (technique, text, note, design_ref)
    "C01": (
        "def-use/dependence analysis of selection loops, value-flow of picks, path-sensitive definite assignment, structural rules on the validator",
        "Decides necessary structural clauses for all 30 exported pool strategies and their helpers: the batch size every query uses is the clipped "
        "value returned by the validator (and the validator clips); arrays scattered through the candidate mapping are NaN-filled (only candidates carry numbers); "
        "in each of the 15 sequential selection loops the operand of the selection depends on earlier picks (loop-carried) and the masked picks are the returned picks; "
        "the exclusion is an explicit mechanism that lies on every path to the selection, is not overwritten before it, and - where a helper sees only the latest pick - is carried from the previous row by a must value-flow; positions selected over a shrunk or sub-sampled pool are translated back; reductions over NaN-marked utilities are NaN-aware, constant arrays over all samples never serve as utilities, the de-duplicated candidate indices are the ones used, the clip bound counts candidate rows (not array elements), a selector computed from a pool mask before the loop is not used stale inside it, a mask on this iteration's fresh row covers all earlier picks and survives to the selection on every path, a reset of the carried row re-marks the picks, min-max denominators are offset, and the returned index value is a 1-d ndarray on every path (abstract kinds); no local is read unbound on any feasible (branch-correlated) path; multi-element index draws are without replacement. "
        "Not decided: that custom loops fill all slots, numerical termination, dtype of the result.",
        "Dependence is flow-insensitive within a loop body (necessary condition); 6 infeasible definite-assignment residuals are listed one symbol at a time in the checker.",
        "DESIGN.md section 3 C01",
    ),
    "C02": (
        "statement-order (structural dominance) and dependence analysis of selection loops; NaN-discipline of scatter targets",
        "Decides: in every selection loop the NaN mask of the current pick is applied only after the returned row was snapshotted (or to an array that is not returned); "
        "a mask of earlier picks on the returned row is matched by an exclusion in the operand the selection reads; utilities scattered through the mapping are NaN elsewhere; the exclusion reaches the selection on every path and zero-mass masks are only scaled before a draw; for sampling-based selections the distribution handed to choice(p=...) is the recorded row; masks of earlier picks precede the step's selection; rand_argmax breaks ties among exact maxima only; the base-class clip exists, counts rows, and works on de-duplicated indices (so no row is without a selectable winner); min-max denominators are offset (no 0/0 rows); the wrapper strategies hand on whole columns with their NaN marks and never bypass the scatter / simple_batch. "
        "The numerical arg-max relation and the sampling mass as numbers are not decided.",
        "Structured control flow only; the arg-max relation is the contract of rand_argmax (C18).",
        "DESIGN.md section 3 C02",
    ),
    "C18": (
        "sibling-implementation diff and structural rules on the three selection primitives",
        "Decides: rand_argmax/rand_argmin are identical up to nanmax<->nanmin and break ties by argmax of noise times the equality mask with the NaN-aware optimum; "
        "simple_batch clips to the number of non-NaN entries before both modes, snapshots the row before masking the winner, masks depend on earlier picks; "
        "proportional mode zeroes NaN probabilities, draws without replacement and masks earlier picks per row; every returned index comes from a selection primitive (never from sorting / arg-reducing the NaN-marked utilities); a flat argmax result over an n-d array is unravelled under a guard on the result / the value of axis. Tie fairness and optimality as numbers are not decided.",
        "numpy's nanmax/nanmin/argmax semantics are trusted.",
        "DESIGN.md section 3 C18",
    ),
    "C03": (
        "interprocedural effect analysis (abstract interpretation over the AST) + structural dominance of save/restore pairs",
        "Decides the purity clause: every write to state reachable from self on every path of query/query_by_utility "
        "(13 stream strategies, 7 concrete budget managers, callees inlined) is either an idempotent re-derivation or is "
        "bracketed by a dominating copy-save and a post-dominating restore (RNG: get_state/set_state; also tuple-packed saves). A query that fits / alters the estimator the caller passes in is reported too. Each entity is analysed in three views of the lazily created state (hasattr unknown / fresh object / everything exists), the worst verdict counts. All paths, all inputs; "
        "numerical equality of repeated results is not decided.",
        "Trusts the alias/in-place tables for numpy/sklearn calls; exception paths between save and restore are not modelled.",
        "DESIGN.md section 3 C03",
    ),
    "C04": (
        "boolean dataflow of the budget guard inside the per-instance loop + must-update path analysis + effect analysis of update",
        "Decides the four structural premises of the bound for the 6 budget-enforcing managers and the 2 baseline strategies: every grant is reachable/true only "
        "under the budget guard of its iteration (through guard variables, list-tail reads, conditional expressions; only allow_exceeding_budget may disjoin); the guard "
        "compares the running spent-estimate with budget_ in the admitting direction; the estimate is advanced from its previous value and the grant indicator on every path; "
        "update commits every seeding attribute from queried_indices/candidates, with the same per-candidate transition the simulation applies (syntactic agreement after normalisation, including the conditions under which an indicator-guarded transition runs); budget_ is re-derived on every validation; the commit runs once per observed instance (an update called inside a per-instance loop receives a one-instance slice) and its increments are counts (rows of candidates, number of queried indices - never element counts of the 2-d candidates or reductions over index values); the budget manager is built once (guard implies it does not exist yet) and with self.budget; query and update filter instances with the same tests. The numerical bound itself follows by arithmetic that is not in the code and is not decided.",
        "Strict vs non-strict comparison is not judged; BalancedIncrementalQuantileFilter is excluded (not budget-enforcing).",
        "DESIGN.md section 3 C04",
    ),
    "C07": (
        "path-sensitive definite assignment over the 3x3 argument split, boolean-by-construction typing of the availability mask, loop dependence/order rules, syntactic termination classes for while loops",
        "Decides: both base-class helpers bind their results on every feasible candidates x annotators combination and clip the batch size; every definition of the availability mask is boolean by construction; "
        "unavailable pairs are NaN before combination and every chosen pair is masked in all later steps before the next selection; every while loop of the package is in a syntactically terminating class; "
        "sample indices are translated through the mapping and the annotator column is not; every scatter/index translation through the mapping runs on exactly the candidates x annotators cases in which _transform_cand_annot returns a mapping (3-valued evaluation of the guards over all 9 cases); the clip bound counts pairs as rows x annotators and index arrays are de-duplicated; the annotator-assignment step iterates a bounded loop and caps every per-sample count by the available annotators, compares the batch size with the sum of the capped counts, and offers the wrapped strategy only samples with an available annotator; the multi-annotator classes partition labels with their sentinel. That n_annotators_per_sample is honoured numerically is not decided.",
        "R7.4 is a proof obligation over two recognised loop classes, not a proof of divergence.",
        "DESIGN.md section 3 C07",
    ),
    "C08": (
        "abstract index-space typing (XROW / CAND / MASK(m)) of arrays and positions with one-level callee summaries",
        "Decides index-space agreement where both sides are known (subscripts and (array, position) pairs passed to project helpers) and that the raw candidates parameter is used only for representation tests "
        "after _transform_candidates; a per-candidate scoring loop does not read the set of all candidates; the argument in the role of the given samples does not depend on the candidate representation; the number of candidates is never an operand of a score; reductions over NaN-marked arrays are NaN-aware; reads of the current model of the index wrapper precede every hypothetical refit, which starts from a private copy of the base model; the frequency classifiers normalise and fall back row by row; no statistic over all candidate rows scales a per-candidate matrix and counts are not taken over the candidate mapping; index and feature-row candidates are filtered alike in the multi-annotator wrapper. Restriction invariance and permutation equivariance of the numbers are not decided.",
        "Spaces are inferred only from the idioms listed in the checker; unknown never fires (few pairs are typed on today's tree).",
        "DESIGN.md section 3 C08",
    ),
    "C09": (
        "who-passes-the-sentinel rule over all label-partitioning call sites, constructions and label fillers",
        "Decides: every call of a label-partitioning/aggregating utility on something other than model predictions binds missing_label explicitly (literal -1 only on encoder output); "
        "label fillers concatenated to y are not NaN literals; project models constructed inside strategies receive missing_label; encoder output is never partitioned with the raw sentinel; predict decodes class indices on every path; NaN-aware reductions are not applied to raw label arrays; a model re-targeted to internal classes gets the matching sentinel. Equality of outputs under re-encoding is not decided.",
        "Calls on model predictions and pure validators are outside the rule.",
        "DESIGN.md section 3 C09",
    ),
    "C10": (
        "must-append path analysis, loop-carried-definition check of update guards, sibling agreement of simulation vs commit transition operators, RNG mirror via effect analysis",
        "Decides necessary structural conditions: lists handed to budget_manager_.update with the caller's indices get exactly one append per candidate on every path; "
        "per-instance guards in update read a spent-estimate redefined in the same loop; the set of normalised update operators (with indicator polarity) applied to each simulated "
        "state variable equals the set committed in update; returned indices are append-only enumerate counters / np.where(mask)[0]; update advances the generator the simulation drew from; the indicator by which the simulated estimate advances is the grant condition; guarded transitions run under the same conditions in simulation and commit; a history window committed in bulk receives the simulated sequence (no re-ordering); update never stores into / mutates an object held by a constructor parameter (deep, not shallow or no copy of a budget manager); per-instance reductions recombined with an (instances x classes) matrix keep the reduced axis. "
        "Chunking invariance as an equality of whole runs is not decided.",
        "RandomVariableUncertaintyBudgetManager is outside the chunking-invariance claim and not judged by R10.2.",
        "DESIGN.md section 3 C10",
    ),
    "C15": (
        "structural rules on predict/sample_y, MRO resolution, definite assignment of fallback attributes",
        "Decides: predict binds one predict_target_distribution result and returns its mean/std/entropy under the matching flags; every concrete probabilistic regressor resolves predict to that implementation; "
        "sample_y draws (n_samples, len(X)) and transposes, forwarding random_state; the NotFittedError fallbacks are built (as float arrays) from _label_mean/_label_std which _fit defines on all paths with defaults 0/1 from the labeled rows; the seed is never judged by truthiness; the all-zero-weights guard of the kernel regressors reads the labeled weights; no identity-less reduction (min/max/arg*) touches a per-sample array outside an emptiness guard in the regressor validators / fits; the try around the wrapped fit catches Exception; a declared **kwargs is forwarded (sample / sample_y hand on the caller's random_state).",
        "scipy.stats frozen distributions are coherent; numbers are not decided.",
        "DESIGN.md section 3 C15",
    ),
    "C16": (
        "structural complement/dispatch/symmetry rules on the label predicates and the encoder",
        "Decides: is_labeled is the inversion of is_unlabeled with both arguments forwarded; the index helpers are argwhere of the respective predicate; is_unlabeled has exactly the isnan path (under a float-NaN sentinel test) and the cast-equality path, "
        "both dominated by the sentinel checks; every return is element-for-element shaped like y (never sized by len(y)); the common dtype of labels and sentinel is built the same way at its three sites; transform/inverse_transform partition by m and ~m with swapped sentinel pairs; every check_array on labels in the encoder accepts empty / non-finite / any-dtype input; every attribute ExtLabelEncoder.fit stores it stores on every returning path. The encoder never writes into its input and looks labels up exactly; argwhere enumerations are not re-ordered. The round trip as values and numpy casting are not decided.",
        "numpy comparison/casting semantics are trusted.",
        "DESIGN.md section 3 C16",
    ),
    "C17": (
        "path-sensitive must-write analysis with value-set facts; dominance of the zeroing store; structural rules on majority_vote",
        "Decides: ext_confusion_matrix stores its output slice on every feasible path of the per-annotator loop (value set of `normalize` from the validating test); "
        "compute_vote_vectors zeroes the bincount weights at the missing-label mask and at NaN confidences (and at nothing else: infinite weights stay) by a dominating store and pairs positions and weights in C order; the missing mask itself (is_unlabeled) dispatches NaN test vs. equality on the sentinel; each normalisation mode of ext_confusion_matrix divides along its own axis on every path and the counted matrix is never transposed; labels are encoded by an exact lookup; the utilities never write into their arguments; the rows of annotator a are filtered by the mask of its own column; majority_vote fills with the sentinel, writes only under the "
        "has-a-label mask and decodes rand_argmax over the vote matrix. Equality with the counting specification as numbers is not decided.",
        "np.bincount and sklearn's confusion_matrix are trusted to count.",
        "DESIGN.md section 3 C17",
    ),
    "C05": (
        "interprocedural alias/ownership analysis: who may write constructor parameters, caller arrays and caller models",
        "Decides the ownership clauses for all 32 pool query entities with callees inlined: no reachable store to / in-place "
        "mutation of a constructor parameter (or an object aliased to it), no in-place writer applied to a value that may alias "
        "an argument array (through validation helpers, views, slices), fit/partial_fit/set_params only on fresh clones (set_params on a clone is modelled: references it stores are followed into the clone's fit); draws that consume a RandomState held by the constructor parameter count as a mutation of it; external estimators built with an explicit no-copy option work in place on what they are fitted on; no closure / lambda created in a query is stored on the strategy (picklability). "
        "All paths, all configurations; byte-wise equality and picklability in general are not decided.",
        "Aliasing is under-approximated (unknown external calls return fresh objects); numpy/sklearn calls write their inputs only if listed in the in-place tables.",
        "DESIGN.md section 3 C05",
    ),
    "C06": (
        "RNG provenance analysis (taint over an interprocedural abstract interpretation with constant propagation) + syntactic scan for global draws",
        "Decides the provenance clause: every random draw reachable from any public method of any estimator class or public helper "
        "(numpy generator methods and scipy `.rvs(random_state=...)`, also through one level of re-entrant helpers such as nested conditional expectations) derives from self.random_state(_)/a random_state argument/a literal seed and never from numpy's global generator "
        "(random_state=None or omitted on the call path, seedless external estimators), pool queries do not consume a caller-supplied RandomState (own draws or external estimators handed the raw object), and stream strategies / budget managers keep evolving state out of objects held by constructor parameters (twins); a keyword reaching a constructor through **dict on some paths only is treated as possibly defaulted; every fit re-derives random_state_; pool queries write no object held by a constructor parameter (twins). "
        "Bit-wise equality of outputs and determinism of third-party numerical code are not decided.",
        "Table of external estimators that draw in fit; random_state=None chosen by the user is outside the premise.",
        "DESIGN.md section 3 C06",
    ),
    "C11": (
        "source -> sanitiser -> sink path analysis (class index must be decoded), must-normalise path analysis of predict_proba, sibling-statement rules",
        "Decides: in every predict a class index selected over costs/probabilities is decoded (inverse_transform / classes_[.]) before it is returned on every path; every predict_proba return path passed a row normaliser "
        "(own row sum with keepdims, softmax, uniform constant, tiled counts) or delegates; the zero-row fallback exists; the cost matrix is permuted on both axes by the same argsort; estimator columns are re-mapped by searchsorted; vote counts are built from weights that are zeroed at missing labels and at NaN confidences; every ensemble member is fitted knowing all classes on every path; the wrapped estimator's probabilities are handed on only under the NaN check, `classes` reaches every partial_fit, cold-start frequencies are float. "
        "Finiteness, non-negativity and sums as numbers are not decided.",
        "The wrapped estimator's predict returns labels and its predict_proba is row-normalised.",
        "DESIGN.md section 3 C11",
    ),
    "C12": (
        "path-sensitive mask-flow analysis (which per-sample arrays are restricted to labeled rows) over the fit functions of the supervised wrappers",
        "Decides: every per-sample array reaching the wrapped estimator's fit/partial_fit, stored as training data, or passed to a call together with a masked array is subscripted by the labeled mask on every path, likewise statistics kept on self and branch conditions (raise/fallback decisions) computed from such arrays; the mask uses the configured sentinel; a statistic over ALL rows (mean, sum, max, ...) of a per-sample array taints what it scales even if that is masked afterwards; the base validators keep the dtype of the labels until the mask exists; is_unlabeled dispatches NaN test vs. equality on the sentinel (shared with C16); fit reads no fitted attribute it has not stored in the same call and never writes into X, y, sample_weight; "
        "PWC/MixtureModel obtain label statistics only through compute_vote_vectors with the encoder sentinel. Equality of the two fits as numbers is not decided.",
        "The wrapped estimator's fit depends only on the arrays it is given.",
        "DESIGN.md section 3 C12",
    ),
    "C13": (
        "interprocedural alias/ownership analysis over every public method of every estimator class (class-wide heap)",
        "Decides the parameters-are-never-rewritten clause: in every public method except __init__/set_params of all estimator classes, "
        "no store to or in-place mutation of a constructor parameter, directly, through an alias created in another method, or in a callee; every fitted attribute read in fit was stored in the same call; on the partial_fit path the fitted model is re-created only when it does not exist; sliding-window deques keep maxlen. "
        "Equality of a refitted object with a fresh clone as numbers is not decided.",
        "Aliasing is under-approximated; constructor parameters = attributes stored by any __init__ along the MRO.",
        "DESIGN.md section 3 C13",
    ),
    "C19": (
        "delegation-name agreement, co-assignment groups via must/may attribute-store path analysis, copy discipline, sibling diff",
        "Decides: predict/predict_proba/predict_freq delegate to the method of their own name on every path; the current and base training triples are stored all-or-none on every path; base state is always copied; "
        "the three predict* siblings are identical up to the delegated name with the NaN guard dominating the precomputed prediction; the kernel comes from the wrapped classifier's metric; the twin classifier is a clone (or rebuilt with every constructor parameter); None-guards test the value they pass; the unique-sample selector works on index values; the emulated refit forwards indices, labels and weights of the stored group; the package's classifiers refit history-free (no constructor parameter written, no fitted attribute read before it is stored, stores on every path - shared with C13); sample_weight accepted by fit / partial_fit is read, fit and partial_fit hand the same data to shared helpers, the vote counter copies the weights. Equality with a retrained reference is not decided.",
        "-",
        "DESIGN.md section 3 C19",
    ),
    "C20": (
        "structural/dominance rules on the three wrappers plus the shared loop and NaN-discipline rules",
        "Decides: the parallel wrapper queries with batch_size=1/return_utilities=True, concatenates row 0 of the outputs in chunk order and selects by simple_batch; the sub-sampling wrapper draws without replacement, "
        "writes -inf before the subset's utilities and translates indices on the row-removal and feature-row paths; the single-annotator wrapper forces the inner picks to the top before the ordinal rank transform, "
        "masks unavailable pairs before adding, masks chosen pairs in all later steps, and never adds the caller's raw A_perf (untransformed) to the integer ranks; the per-sample annotator count is capped by the available annotators; the wrappers partition labels with their own sentinel. Numerical equality of wrapped and unwrapped utilities is not decided.",
        "joblib.Parallel returns results in submission order.",
        "DESIGN.md section 3 C20",
    ),
}

# clauses added in round 6 (appended to the claim text of the property)
ROUND6 = {
    "C01": " Round 6: every index simple_batch returns comes from a selection primitive (no argsort shortcut), nothing blanks offered candidates after the mapping scatter, quotients by conditionally accumulated counts are zero-guarded (a genuine ZeroDivisionError of ValueOfInformationEER was repaired), full_like(prototype, nan) needs a float dtype, pick buffers / translated picks / fallback re-marks are indexed consistently; the returned indices are never a row-wise optimum of several rows taken at once (round 7).",
    "C02": " Round 6: NaN stores into a returned row inside a selection loop are indexed by the picks only (not by label-initialised arrays); a batch is never the row-wise optimum of several rows at once unless the rows come from a sequentially selecting helper; the array handed to simple_batch must-depends on the candidates; round 7: a pick-indexed update of what the operand is computed from is not switched off by a loop-invariant flag.",
    "C04": " Round 6: the strategy's manager is a private object (deep copy / new instance, also through factory methods); no increment under a constructor-flag test; no bounded-width dtype in the accounting code; ONE query_by_utility consultation per chunk (known finding: the density-based strategies consult per candidate against the committed state - reproduced, 40 labels in a chunk of 50 at budget 0.1).",
    "C06": " Round 6: a pool query reads no fitted attribute it has not computed in the same call (known finding: ProbCover's cache); round 7: the sampling method looked up by name on the caller's ensemble is given the strategy's generator (genuine defect of QueryByCommittee / BALD repaired).",
    "C07": " Round 6: the forced-maximum store for the wrapped strategy's pick is unconditional (shared with C20).",
    "C08": " Round 6: check_indices canonicalises index candidates (sorted unique); _conditional_expect evaluates every row of X at its own position; the scatter target is a float NaN array by construction on the index path; round 7: a comparison of the candidate count never selects between two computations of the result, and models refitted per candidate use statistics of the labeled rows only.",
    "C09": " Round 6: every return of ExtLabelEncoder.transform is the array filled from the exact class lookup; arrays typed by the sentinel (np.full(shape, missing_label)) are fillers only; round 7: the sentinel is never matched by `in` / set.discard / np.isin (blind for NaN only).",
    "C10": " Round 6: a query leaves no memo that update adopts (shared with C03); one budget-manager consultation per chunk (shared with C04, same known finding).",
    "C11": " Round 6: every return of fit / partial_fit of the wrapper classifiers comes after self._fit; check_cost_matrix returns the matrix it validated; SlidingWindowClassifier does not store the label attributes it forwards; round 7: predict of every concrete classifier is the cost-sensitive base implementation, reads the cost matrix, or purely delegates.",
    "C12": " Round 6: the length of the labeled mask is no operand of fit arithmetic; values computed from statistics over all rows stay tainted through calls and subscript stores on self; the caller's fit kwargs are not processed together with the unmasked X; round 7: value validations of unmasked arrays inside fit are decisions taken from unlabeled rows.",
    "C13": " Round 7: stream strategies and budget managers own their history (update stores copies of candidate rows, never views of the caller's arrays; a genuine defect of the density-based strategies was repaired); lists filled by appends hand their array elements to unpacking in the alias analysis.",
    "C15": " Round 6: fit of the wrapped regressors is history-free (shared with C13); no raise in their fit path is guarded by a predicate that is true on the empty labeled selection.",
    "C16": " Round 6: only fit writes encoder state (transform / inverse_transform leave self alone); every return of transform went through the class lookup.",
    "C17": " Round 6: majority_vote hands compute_vote_vectors the same row selection of labels and weights; the winner is taken with an exact tie mask (shared with C18).",
    "C19": " Round 6: the emulated partial_fit grows the training triple by dtype-promoting concatenation; the triple is never written element-wise; the precomputed and the plain arm of ParzenWindowClassifier.predict_freq agree on everything but K; round 7: prediction indices are never canonicalised, and partial_fit updates the model on every path to a return.",
    "C20": " Round 6: no bounded-width dtype in the wrappers; max_candidates is converted to a count under a type test only.",
}

NOT_APPLICABLE = {
    "C14": "quantifies over multi-cycle oracle histories; no clause beyond the single-query conditions decided under C01 is visible in the shape of the code (DESIGN.md section 3 C14)",
}

PENDING = "static rule designed in DESIGN.md section 3 but its checker is not built/armed yet in this commit; not claimed until it is"

ALL = [f"C{i:02d}" for i in range(1, 21)]


def main():
    checks = []
    for pid in ALL:
        if pid not in CLAIMS:
            continue
        tech, text, note, ref = CLAIMS[pid]
        text = text + ROUND6.get(pid, "")
        checks.append({
            "property_id": pid,
            "quick_cmd": f"{PY} sa/run.py {pid} --tier quick",
            "thorough_cmd": f"{PY} sa/run.py {pid} --tier thorough",
            "evidence_file": f"/verif/evidence/{pid}.json",
            "replay_cmd_template": f"{PY} sa/run.py {pid} --tier quick  # violations listed in {{path}}",
            "engine": "sa",
            "level_claimed": {"category": "other", "text": text, "design_ref": ref},
            "level_note": note,
            "technique": "static analysis: " + tech,
        })
    na = []
    for pid in ALL:
        if pid in CLAIMS:
            continue
        na.append({"property_id": pid, "reason": NOT_APPLICABLE.get(pid, PENDING)})
    man = {
        "version": 1,
        "setup_cmd": "true",
        "hooks": {
            "guard": "SKACTIVEML_VERIF",
            "enable": "no hooks are needed: the checks only parse /repo's working tree",
            "baseline_off_cmd": "cd /repo && /venv/bin/python -m pytest -ra -q -p no:cacheprovider --timeout=900 --continue-on-collection-errors",
            "source_commits": [],
            "add_only": True,
        },
        "engines": [{
            "name": "sa",
            "path": "/verif/sa",
            "serves_properties": sorted(CLAIMS),
            "kind_free_text": "repository-specific static analyser (stdlib ast): project index + MRO, interprocedural abstract interpreter (alias/effect/RNG provenance), structural dominance, per-property rules; nothing of skactiveml is imported or executed",
        }],
        "checks": checks,
        "not_applicable": na,
        "notes": "All checks read $VERIF_REPO (default /repo) at run time. Exit 0 pass / 1 VIOLATION / 2 ANALYSIS-ERROR. Known findings: /verif/known_findings.jsonl.",
    }
    with open(os.path.join(HERE, "MANIFEST.json"), "w") as fh:
        json.dump(man, fh, indent=1)
    print("claimed:", sorted(CLAIMS), "not_applicable:", len(na))


if __name__ == "__main__":
    main()
