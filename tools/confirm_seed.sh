#!/bin/bash
# usage: confirm_seed.sh <Cxx> <k>   (worktree /tmp/wt/<Cxx>, seed dir _seed/<k>)
# Confirms: patch applies; demo FAILS with it and PASSES without; stable baseline tests still pass with it.
# On success copies into /verif/seeded/<Cxx>-<k>/ with meta.json.
set -u
P=$1; K=$2
WT=/tmp/wt/$P
SD=$WT/_seed/$K
OUT=/verif/seeded/$P-$K
cd $WT || exit 2
git checkout -q -- skactiveml 2>/dev/null
git apply --check $SD/patch.diff || { echo "$P-$K: patch does not apply"; exit 1; }
# demo on clean tree
/venv/bin/python $SD/demo.py >/tmp/demo_clean_${P}_${K}.log 2>&1; RC_CLEAN=$?
git apply $SD/patch.diff
/venv/bin/python $SD/demo.py >/tmp/demo_mut_${P}_${K}.log 2>&1; RC_MUT=$?
RES=$(/verif/tools/run_baseline.sh $WT 2>&1 | head -5)
git checkout -q -- skactiveml
git clean -fdq skactiveml >/dev/null 2>&1
NOTPASS=$(echo "$RES" | sed -n 's/.*not passing: \([0-9]*\).*/\1/p')
echo "$P-$K: demo clean rc=$RC_CLEAN mutated rc=$RC_MUT baseline-not-passing=$NOTPASS"
if [ "$RC_CLEAN" = "0" ] && [ "$RC_MUT" != "0" ] && [ "$NOTPASS" = "0" ]; then
  mkdir -p $OUT
  cp $SD/patch.diff $OUT/patch.diff
  cp $SD/demo.py $OUT/demo.py
  cp $SD/notes.md $OUT/notes.md 2>/dev/null
  /venv/bin/python - "$P" "$K" "$OUT" <<'PY'
import json, sys
p, k, out = sys.argv[1:4]
notes = open(out + "/notes.md").read() if __import__("os").path.exists(out + "/notes.md") else ""
json.dump({
    "property": p,
    "seed": f"{p}-{k}",
    "needs_to_manifest": notes[:1500],
    "confirmed": {
        "demo_on_clean_tree": "exit 0 (PASS)",
        "demo_with_patch": "non-zero exit (FAIL)",
        "existing_tests_with_patch": "all 1476 stable baseline tests pass (tools/run_baseline.sh in a scratch worktree)",
    },
    "ran": ["git apply patch.diff in a scratch worktree of /repo", "/venv/bin/python demo.py (clean and patched)",
            "/venv/bin/python -m pytest -n 14 (junit compared against BASELINE.json stable_pass)"],
}, open(out + "/meta.json", "w"), indent=1)
PY
  echo "$P-$K: KEPT"
else
  echo "$P-$K: REJECTED"; echo "$RES"
fi
