#!/bin/bash
# usage: run_baseline.sh <repo dir> -> prints names of stable-baseline tests that did not pass
set -u
D=${1:-/repo}
OUT=$(mktemp /tmp/junit.XXXXXX.xml)
cd "$D" && OMP_NUM_THREADS=1 OPENBLAS_NUM_THREADS=1 MKL_NUM_THREADS=1 /venv/bin/python -m pytest -q -p no:cacheprovider -n 8 --timeout=900 --continue-on-collection-errors --junitxml=$OUT >/tmp/pytest_last.log 2>&1
/venv/bin/python - "$OUT" <<'PY'
import json,sys
import xml.etree.ElementTree as ET
b=json.load(open('/root/.vp/BASELINE.json'))
stable=set(b['stable_pass'])
root=ET.parse(sys.argv[1]).getroot()
res={}
msgs={}
for tc in root.iter('testcase'):
    name=f"{tc.get('classname')}::{tc.get('name')}"
    bad=any(ch.tag in('failure','error') for ch in tc)
    if bad:
        msgs[name]=" | ".join((ch.get('message') or '')[:300] for ch in tc if ch.tag in('failure','error'))
    skipped=any(ch.tag=='skipped' for ch in tc)
    res[name]='fail' if bad else ('skip' if skipped else 'pass')
missing=[s for s in stable if res.get(s)!='pass']
print("stable:",len(stable),"not passing:",len(missing))
for m in sorted(missing)[:40]: print("  ",m,res.get(m), msgs.get(m,""))
PY
rm -f $OUT
