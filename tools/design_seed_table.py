#!/venv/bin/python
"""Copy /verif/seeded/MATRIX.md into the marked block of DESIGN.md."""
import re
d = open("/verif/DESIGN.md").read()
t = open("/verif/seeded/MATRIX.md").read()
d = re.sub(r"<!-- SEED-TABLE-BEGIN -->.*<!-- SEED-TABLE-END -->",
           "<!-- SEED-TABLE-BEGIN -->\n" + t + "<!-- SEED-TABLE-END -->", d, flags=re.S)
open("/verif/DESIGN.md", "w").write(d)
