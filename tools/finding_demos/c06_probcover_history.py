import numpy as np, warnings
warnings.filterwarnings("ignore")
from skactiveml.pool import ProbCover
rng = np.random.RandomState(0)
X1 = rng.randn(40, 2); X2 = rng.randn(40, 2) * 5 + 3
y = np.full(40, np.nan); y[:4] = [0, 1, 0, 1]
a = ProbCover(random_state=1, missing_label=np.nan)
b = ProbCover(random_state=1, missing_label=np.nan)
a.query(X2, y, batch_size=3)
ra, ua = a.query(X1, y, batch_size=3, return_utilities=True)
rb, ub = b.query(X1, y, batch_size=3, return_utilities=True)
print("used  :", ra); print("fresh :", rb)
print("equal utilities:", np.array_equal(ua, ub, equal_nan=True))
