"""C13 R13.7 (fixed): StreamDensityBasedAL.update / CognitiveDualQueryStrategy._calculate_ldf stored row VIEWS of the
caller's candidates array in their history windows; a caller that re-used its chunk buffer rewrote the remembered samples.
Run: cd /repo && PYTHONPATH=/repo /venv/bin/python /verif/tools/finding_demos/c13_stream_window_views.py
(prints `window equal: True` for both strategies on the repaired tree, False before the repair)."""
import warnings
import numpy as np
from skactiveml.stream import StreamDensityBasedAL, CognitiveDualQueryStrategyVarUn
from skactiveml.classifier import ParzenWindowClassifier

warnings.simplefilter("ignore")
rs = np.random.RandomState(0)
X = rs.randn(40, 2)
clf = ParzenWindowClassifier(classes=[0, 1], random_state=0).fit(X[:2], [0, 1])
for cls in (StreamDensityBasedAL, CognitiveDualQueryStrategyVarUn):
    def run(reuse):
        qs = cls(budget=0.5, random_state=0)
        buf = np.empty((4, 2))
        for s in range(0, 40, 4):
            if reuse:
                buf[:] = X[s:s + 4]
                c = buf
            else:
                c = X[s:s + 4].copy()
            q = qs.query(candidates=c, clf=clf)
            qs.update(candidates=c, queried_indices=q)
        w = getattr(qs, "window_", None)
        return np.array(w) if w is not None else np.array(qs.cognition_window_)
    a, b = run(False), run(True)
    print(cls.__name__, "window equal:", a.shape == b.shape and np.allclose(a, b))
