"""Known finding C04 R4.11 / C10 R10.14: StreamDensityBasedAL.query and CognitiveDualQueryStrategy*.query consult the
budget manager once per candidate against the COMMITTED state, so every candidate of a chunk is judged with the
spent-budget estimate from before the chunk.  Run: cd /repo && PYTHONPATH=/repo /venv/bin/python /verif/tools/finding_demos/c04_density_chunked_budget.py
Expected on today's tree: chunk size 1 respects the bound, chunk size 50 grants 40 (bound 6) resp. 32 (bound 16.5)."""
import warnings
import numpy as np
from skactiveml.classifier import ParzenWindowClassifier
from skactiveml.stream import StreamDensityBasedAL, CognitiveDualQueryStrategyVarUn

warnings.simplefilter("ignore")
rs = np.random.RandomState(0)
n, b, w = 400, 0.1, 100
X = rs.randn(n, 2)
clf = ParzenWindowClassifier(classes=[0, 1], random_state=0).fit(X[:2], [0, 1])
for name, make, bound in [
    ("StreamDensityBasedAL", lambda: StreamDensityBasedAL(budget=b, random_state=0), lambda k: b * k + 1),
    ("CognitiveDualQueryStrategyVarUn",
     lambda: CognitiveDualQueryStrategyVarUn(budget=b, random_state=0, force_full_budget=True),
     lambda k: b * k + k / w + b * w + 1),
]:
    for chunk in [1, 50]:
        qs, cnt, worst = make(), 0, None
        for s in range(0, n, chunk):
            c = X[s:s + chunk]
            idx = qs.query(candidates=c, clf=clf)
            qs.update(candidates=c, queried_indices=idx)
            cnt += len(idx)
            k = s + len(c)
            if cnt > bound(k) and worst is None:
                worst = (k, cnt, bound(k))
        print(name, "chunk", chunk, "labels", cnt, "first violation (n, labels, bound):", worst)
