"""Reproducer for a violation of C06 that is already present in the clean
tree: `QueryByCommittee` / `GreedyBALD` (and `BatchBALD`) with `sample_predictions_method_name` do not
forward their generator to the sampling method, which therefore draws from
numpy's global generator. Run: cd /tmp/wt/C06f && /venv/bin/python
_seed/preexisting_repro.py  (exits 1 when the dependence is observed)."""
import os
import sys
import warnings

sys.path.insert(0, os.environ.get("SKA_ROOT", "/repo"))
warnings.filterwarnings("ignore")

import numpy as np  # noqa: E402
from skactiveml.classifier import ParzenWindowClassifier  # noqa: E402
from skactiveml.pool import GreedyBALD, QueryByCommittee  # noqa: E402

rng = np.random.RandomState(3)
X = rng.randn(40, 2)
y = np.full(40, np.nan)
y[:6] = [0, 1, 0, 1, 1, 0]


def run(cls, global_seed):
    np.random.seed(global_seed)
    qs = cls(
        sample_predictions_method_name="sample_proba",
        sample_predictions_dict={"n_samples": 5},
        random_state=0,
    )
    clf = ParzenWindowClassifier(classes=[0, 1], random_state=0)
    return qs.query(X, y, ensemble=clf, return_utilities=True)


bad = False
for cls in [QueryByCommittee, GreedyBALD]:
    (i1, u1), (i2, u2) = run(cls, 1), run(cls, 2)
    differs = not np.array_equal(u1, u2, equal_nan=True)
    print(cls.__name__, i1, i2, "utilities differ:", differs)
    bad |= differs
sys.exit(1 if bad else 0)
