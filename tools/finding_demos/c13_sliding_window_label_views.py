"""C13 R13.6: SlidingWindowClassifier kept row views of a 2-d label array (multi-annotator estimator) in its window."""
import os, sys, warnings
sys.path.insert(0, os.environ.get("SKA_ROOT", "/repo"))
warnings.simplefilter("ignore")
import numpy as np
from skactiveml.classifier import SlidingWindowClassifier
from skactiveml.classifier.multiannotator import AnnotatorLogisticRegression
rs = np.random.RandomState(0)
X = rs.randn(12, 2)
y = rs.randint(0, 2, size=(12, 3)).astype(float)
w = np.ones((12, 3))
clf = SlidingWindowClassifier(AnnotatorLogisticRegression(classes=[0, 1], n_annotators=3, random_state=0), classes=[0, 1], window_size=20)
clf.fit(X[:6], y[:6], sample_weight=w[:6])
before_y = np.array(clf.y_train_).copy()
before_w = np.array(clf.sample_weight_train_).copy()
y[:6] = 1 - y[:6]      # the caller re-uses its label buffer
w[:6] = 7.0
after_y = np.array(clf.y_train_)
after_w = np.array(clf.sample_weight_train_)
ok = np.array_equal(before_y, after_y) and np.array_equal(before_w, after_w)
print("window unchanged by the caller's later writes:", ok)
sys.exit(0 if ok else 1)
