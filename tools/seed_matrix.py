#!/venv/bin/python
"""Apply every kept seeded change (/verif/seeded/<id>/patch.diff) to /repo, run
the check of its property, undo the change, and record which rules reported
it.  Writes /verif/seeded/MATRIX.json and /verif/seeded/MATRIX.md.

/repo must be clean before and is clean after (git checkout -- .); the
evidence files are rewritten by the mutated runs, so run the clean checks
again afterwards (tools/run_all.sh)."""
import json
import os
import re
import subprocess
import sys

SEEDED = "/verif/seeded"


def sh(*a, **k):
    return subprocess.run(a, capture_output=True, text=True, **k)


def main():
    if sh("git", "-C", "/repo", "status", "--porcelain").stdout.strip():
        print("refusing: /repo working tree is not clean")
        return 2
    only = set(sys.argv[1:])
    rows = []
    for d in sorted(os.listdir(SEEDED), key=lambda s: (s.split("-")[0], int(s.split("-")[1]) if "-" in s and s.split("-")[1].isdigit() else 0)):
        pd = os.path.join(SEEDED, d, "patch.diff")
        if not os.path.exists(pd):
            continue
        if only and d not in only and d.split("-")[0] not in only:
            continue
        meta = json.load(open(os.path.join(SEEDED, d, "meta.json")))
        prop = meta["property"]
        r = sh("git", "-C", "/repo", "apply", pd)
        if r.returncode != 0:
            rows.append({"seed": d, "property": prop, "status": "patch does not apply", "rules": []})
            sh("git", "-C", "/repo", "checkout", "--", ".")
            continue
        try:
            out = sh("/venv/bin/python", "/verif/sa/run.py", prop, cwd="/verif")
        finally:
            sh("git", "-C", "/repo", "checkout", "--", ".")
        rules = sorted(set(re.findall(r"^\s*violated (\S+)", out.stdout, re.M)))
        ents = sorted(set(m.split(" :: ")[0] for m in re.findall(r"^\s*violated \S+ (.*)$", out.stdout, re.M)))[:3]
        files = sorted(set(re.findall(r"^\+\+\+ b/(\S+)", open(pd).read(), re.M)))
        first = ""
        np_ = os.path.join(SEEDED, d, "notes.md")
        if os.path.exists(np_):
            for line in open(np_):
                line = line.strip().lstrip("# ").strip()
                if line:
                    first = line[:140]
                    break
        rows.append({"seed": d, "property": prop, "files": files, "what": first,
                     "status": "reported" if out.returncode == 1 and rules else
                               ("analysis-error" if out.returncode == 2 else "not reported"),
                     "rules": rules, "entities": ents})
        print(d, rows[-1]["status"], ",".join(rules), flush=True)
    if only:
        # merge the re-run rows into the frozen table
        old = json.load(open(os.path.join(SEEDED, "MATRIX.json")))
        byseed = {r["seed"]: r for r in old}
        for r in rows:
            byseed[r["seed"]] = r
        rows = sorted(byseed.values(), key=lambda r: (r["seed"].split("-")[0], int(r["seed"].split("-")[1])))
    json.dump(rows, open(os.path.join(SEEDED, "MATRIX.json"), "w"), indent=1)
    with open(os.path.join(SEEDED, "MATRIX.md"), "w") as fh:
        fh.write("| seed | site | change | check of its property | rules |\n|---|---|---|---|---|\n")
        for r in rows:
            fh.write(f"| {r['seed']} | {', '.join(os.path.basename(f) for f in r.get('files', []))} | "
                     f"{r.get('what', '').replace('|', '/')} | {r['status']} | {', '.join(r['rules'])} |\n")
    n = sum(1 for r in rows if r["status"] == "reported")
    print(f"{n}/{len(rows)} seeded changes reported by the check of their property")
    return 0


if __name__ == "__main__":
    sys.exit(main())
