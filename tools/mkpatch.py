#!/venv/bin/python
"""mkpatch.py <outdir> <relfile> <oldtext-file> <newtext-file>: write <outdir>/patch.diff replacing old by new in /repo/<relfile>"""
import difflib
import os
import sys


def make(outdir, rel, old, new, root="/repo"):
    src = open(os.path.join(root, rel)).read()
    assert src.count(old) == 1, (rel, src.count(old))
    dst = src.replace(old, new)
    os.makedirs(outdir, exist_ok=True)
    d = difflib.unified_diff(src.splitlines(True), dst.splitlines(True), "a/" + rel, "b/" + rel)
    open(os.path.join(outdir, "patch.diff"), "w").write("".join(d))


if __name__ == "__main__":
    o, r, a, b = sys.argv[1:5]
    make(o, r, open(a).read(), open(b).read())
