#!/bin/bash
# run every claimed check (quick or thorough) on /repo; print one line per property
TIER=${1:-quick}
cd /verif
rc=0
for i in 01 02 03 04 05 06 07 08 09 10 11 12 13 15 16 17 18 19 20; do
  out=$(/venv/bin/python sa/run.py C$i --tier $TIER 2>&1); r=$?
  echo "$out" | grep -v "^KNOWN-FINDING" | tail -n 1 | cut -c1-220
  if [ $r -ne 0 ]; then rc=$r; echo "  -> exit $r"; echo "$out" | grep "violated\|ANALYSIS" | head -5; fi
done
exit $rc
