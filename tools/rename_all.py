import ast, os, sys, shutil, tempfile
sys.path.insert(0,'/verif')
from sa import selftest
from sa.index import AnalysisError

def rename_all(src):
    tree = ast.parse(src)
    def top_funcs(node):
        for ch in ast.iter_child_nodes(node):
            if isinstance(ch,(ast.FunctionDef,ast.AsyncFunctionDef)):
                yield ch
            elif isinstance(ch,(ast.ClassDef,)):
                yield from top_funcs(ch)
            elif isinstance(ch,(ast.If,ast.Try,ast.With)):
                yield from top_funcs(ch)
    for fn in top_funcs(tree):
        params=set()
        for sub in ast.walk(fn):
            if isinstance(sub,(ast.FunctionDef,ast.AsyncFunctionDef,ast.Lambda)):
                a=sub.args
                params|={x.arg for x in a.posonlyargs+a.args+a.kwonlyargs}
                if a.vararg: params.add(a.vararg.arg)
                if a.kwarg: params.add(a.kwarg.arg)
        nested={n.name for n in ast.walk(fn) if isinstance(n,(ast.FunctionDef,ast.AsyncFunctionDef,ast.ClassDef)) and n is not fn}
        glob=set()
        for n in ast.walk(fn):
            if isinstance(n,(ast.Global,ast.Nonlocal)): glob|=set(n.names)
        locs=[]
        for n in ast.walk(fn):
            if isinstance(n,ast.Name) and isinstance(n.ctx,ast.Store) and n.id not in locs: locs.append(n.id)
        locs=[l for l in locs if l not in params and l not in nested and l not in glob and l!='_']
        m={l:f"q{i}" for i,l in enumerate(locs)}
        for n in ast.walk(fn):
            if isinstance(n,ast.Name) and n.id in m: n.id=m[n.id]
    return ast.unparse(tree)

tmp=selftest._copy_pkg('/repo')
for dp,dn,fns in os.walk(tmp):
    for f in fns:
        if f.endswith('.py'):
            pth=os.path.join(dp,f); _s=open(pth).read(); open(pth,'w').write(rename_all(_s))
PROPS=[f"C{i:02d}" for i in range(1,21) if i!=14]
for prop in PROPS:
    base=selftest._violations(prop,'/repo')
    try:
        v=selftest._violations(prop,tmp)
        new=sorted(k for k in v if k not in base)
        print(prop, len(new)); [print("    "+(" | ".join(k))[:400]) for k in new]
    except AnalysisError as e:
        print(prop,'ANALYSIS-ERROR',str(e)[:300])
    except Exception as e:
        print(prop,'EXC',repr(e)[:300])
shutil.rmtree(tmp)
