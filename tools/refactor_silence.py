#!/venv/bin/python
"""False-alarm test: apply behaviour-preserving patches (one per directory
<dir>/<k>/patch.diff) to scratch copies of the package and run EVERY check on
each; any obligation that is violated on the copy but not on /repo, or any
analysis error, is a false alarm of the machinery.

usage: refactor_silence.py <dir-with-numbered-subdirs> [...]"""
import os
import shutil
import subprocess
import sys
from concurrent.futures import ProcessPoolExecutor

sys.path.insert(0, "/verif")
from sa import selftest  # noqa: E402
from sa.index import AnalysisError  # noqa: E402

PROPS = [f"C{i:02d}" for i in range(1, 21) if i != 14]


def job(args):
    patch, base = args
    tmp = selftest._copy_pkg("/repo")
    try:
        r = subprocess.run(["patch", "-p1", "-s", "-d", tmp, "-i", patch], capture_output=True, text=True)
        if r.returncode != 0:
            return (patch, "patch failed: " + (r.stdout + r.stderr)[:200], {})
        out = {}
        for prop in PROPS:
            try:
                v = selftest._violations(prop, tmp)
                new = sorted(k for k in v if k not in base[prop])
                if new:
                    out[prop] = [" | ".join(k) for k in new]
            except AnalysisError as e:
                out[prop] = ["ANALYSIS-ERROR " + str(e)[:200]]
            except Exception as e:  # noqa
                out[prop] = ["EXCEPTION " + repr(e)[:200]]
        return (patch, "ran", out)
    finally:
        shutil.rmtree(tmp, ignore_errors=True)


def main():
    patches = []
    for d in sys.argv[1:]:
        for k in sorted(os.listdir(d)):
            p = os.path.join(d, k, "patch.diff")
            if os.path.exists(p):
                patches.append(p)
    base = {prop: selftest._violations(prop, "/repo") for prop in PROPS}
    bad = 0
    with ProcessPoolExecutor(max_workers=12) as ex:
        for patch, status, out in ex.map(job, [(p, base) for p in patches]):
            if status != "ran":
                print(f"{patch}: {status}")
                continue
            if not out:
                print(f"{patch}: silent")
            else:
                bad += 1
                print(f"{patch}: REPORTS")
                for prop, lst in out.items():
                    for x in lst[:6]:
                        print(f"    {prop}: {x[:260]}")
    print(f"{len(patches)} patches, {bad} with reports")
    return 1 if bad else 0


if __name__ == "__main__":
    sys.exit(main())
