#!/bin/bash
# usage: reconfirm_seed.sh <Cxx-K> [patchfile]
# Re-confirms /verif/seeded/<Cxx-K> against the CURRENT /repo HEAD in a scratch worktree (after a fix: commit
# changed the code around it): demo passes on the clean tree, fails with the patch, baseline suite passes.
# A different (rebased) patch file may be given; it replaces patch.diff when the seed is kept.
set -u
ID=$1
SD=/verif/seeded/$ID
PATCH=${2:-$SD/patch.diff}
W=/tmp/wt/_reconfirm_$ID
git -C /repo worktree remove --force $W >/dev/null 2>&1
git -C /repo worktree add -q --detach $W HEAD || exit 2
cd $W
mkdir -p _seed/1 && cp $SD/demo.py _seed/1/demo.py
/venv/bin/python _seed/1/demo.py >/tmp/demo_clean_$ID.log 2>&1; RC_CLEAN=$?
if ! git apply $PATCH 2>/dev/null; then echo "$ID: patch does not apply to HEAD"; cd /; git -C /repo worktree remove --force $W; exit 1; fi
git diff -- skactiveml > /tmp/rebased_$ID.diff
/venv/bin/python _seed/1/demo.py >/tmp/demo_mut_$ID.log 2>&1; RC_MUT=$?
RES=$(/verif/tools/run_baseline.sh $W 2>&1 | head -6)
NOTPASS=$(echo "$RES" | sed -n 's/.*not passing: \([0-9]*\).*/\1/p')
echo "$ID: demo clean rc=$RC_CLEAN mutated rc=$RC_MUT baseline-not-passing=$NOTPASS"
if [ "$RC_CLEAN" = "0" ] && [ "$RC_MUT" != "0" ] && [ "$NOTPASS" = "0" ]; then
  cp /tmp/rebased_$ID.diff $SD/patch.diff
  HEADC=$(git -C /repo rev-parse --short HEAD)
  /venv/bin/python - "$SD" "$HEADC" "$ID" <<'PY'
import json, sys
sd, head, sid = sys.argv[1:4]
m = json.load(open(sd + "/meta.json"))
m["applies_to"] = f"/repo HEAD {head} (git -C /repo apply /verif/seeded/{sid}/patch.diff)"
m.setdefault("reconfirmed_at", []).append(head)
json.dump(m, open(sd + "/meta.json", "w"), indent=1)
PY
  echo "$ID: KEPT"
else
  echo "$ID: REJECTED"; echo "$RES"; tail -n 5 /tmp/demo_clean_$ID.log; tail -n 5 /tmp/demo_mut_$ID.log
fi
cd /; git -C /repo worktree remove --force $W
