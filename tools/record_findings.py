#!/usr/bin/env python3
"""Maintainer tool (never run by a check): append the violations currently
listed in evidence/<id>.violations.json to known_findings.jsonl after manual
triage.  usage: record_findings.py C05 "<what>" [substring filter]"""
import json, sys, os
HERE = os.path.dirname(os.path.dirname(os.path.abspath(__file__)))
pid = sys.argv[1]
what = sys.argv[2]
flt = sys.argv[3] if len(sys.argv) > 3 else ""
v = json.load(open(os.path.join(HERE, "evidence", f"{pid}.violations.json")))
known = [json.loads(l) for l in open(os.path.join(HERE, "known_findings.jsonl")) if l.strip()]
keys = {(k["property"], k["rule"], k["entity"], k["construct"]) for k in known}
n = 0
with open(os.path.join(HERE, "known_findings.jsonl"), "a") as fh:
    for o in v:
        if flt and flt not in (o["entity"] + " " + o["construct"] + " " + o["rule"]):
            continue
        k = (pid, o["rule"], o["entity"], o["construct"])
        if k in keys:
            continue
        fh.write(json.dumps({"property": pid, "rule": o["rule"], "entity": o["entity"],
                             "construct": o["construct"], "status": "open", "what": what}) + "\n")
        n += 1
print("recorded", n)
