#!/bin/bash
# usage: confirm_at_head.sh <Cxx> <k> [patchfile]
# Re-confirms seed /tmp/wt/<Cxx>/_seed/<k> against the CURRENT /repo HEAD in a scratch worktree
# (/tmp/wt/_confirm_<Cxx>_<k>), rebasing the patch with a 3-way apply if needed, and stores it under /verif/seeded/.
set -u
P=$1; K=$2
SD=/tmp/wt/$P/_seed/$K
PATCH=${3:-$SD/patch.diff}
W=/tmp/wt/_confirm_${P}_${K}
PR=${P%[bcdefg]}; KK=$K
case "$P" in
  *b) KK=$((K+3));;   # round-2 worktrees /tmp/wt/<Cxx>b -> seeds 4..6 of <Cxx>
  *c) KK=$((K+6));;   # round-3 worktrees /tmp/wt/<Cxx>c -> seeds 7..9
  *d) KK=$((K+9));;   # round-4 worktrees /tmp/wt/<Cxx>d -> seeds 10..12
  *e) KK=$((K+12));;  # round-5 worktrees /tmp/wt/<Cxx>e -> seeds 13..15
  *f) KK=$((K+15));;  # round-6 worktrees /tmp/wt/<Cxx>f -> seeds 16..18
  *g) KK=$((K+18));;  # round-7 worktrees /tmp/wt/<Cxx>g -> seeds 19..20
esac
OUT=/verif/seeded/$PR-$KK
git -C /repo worktree remove --force $W >/dev/null 2>&1
git -C /repo worktree add -q --detach $W HEAD || exit 2
cd $W
mkdir -p _seed/$K && cp $SD/demo.py _seed/$K/demo.py
/venv/bin/python _seed/$K/demo.py >/tmp/demo_clean_${P}_${K}.log 2>&1; RC_CLEAN=$?
if ! git apply $PATCH 2>/dev/null; then
  if ! git apply --3way $PATCH >/dev/null 2>&1; then echo "$P-$K: patch does not apply to HEAD (manual rebase needed)"; cd /; git -C /repo worktree remove --force $W; exit 1; fi
  git reset -q
fi
git diff -- skactiveml > /tmp/rebased_${P}_${K}.diff
/venv/bin/python _seed/$K/demo.py >/tmp/demo_mut_${P}_${K}.log 2>&1; RC_MUT=$?
RES=$(/verif/tools/run_baseline.sh $W 2>&1 | head -6)
NOTPASS=$(echo "$RES" | sed -n 's/.*not passing: \([0-9]*\).*/\1/p')
echo "$P-$K: demo clean rc=$RC_CLEAN mutated rc=$RC_MUT baseline-not-passing=$NOTPASS"
if [ "$RC_CLEAN" = "0" ] && [ "$RC_MUT" != "0" ] && [ "$NOTPASS" = "0" ]; then
  rm -rf $OUT; mkdir -p $OUT
  cp /tmp/rebased_${P}_${K}.diff $OUT/patch.diff
  cp $SD/demo.py $OUT/demo.py
  cp $SD/notes.md $OUT/notes.md 2>/dev/null
  HEADC=$(git -C /repo rev-parse --short HEAD)
  /venv/bin/python - "$PR" "$KK" "$OUT" "$HEADC" <<'PY'
import json, sys, os
p, k, out, head = sys.argv[1:5]
notes = open(out + "/notes.md").read() if os.path.exists(out + "/notes.md") else ""
json.dump({
    "property": p,
    "seed": f"{p}-{k}",
    "applies_to": f"/repo HEAD {head} (git -C /repo apply /verif/seeded/{p}-{k}/patch.diff)",
    "needs_to_manifest": notes[:1800],
    "confirmed": {
        "demo_on_clean_tree": "exit 0 (PASS)",
        "demo_with_patch": "non-zero exit (FAIL)",
        "existing_tests_with_patch": "all 1476 stable baseline tests pass",
    },
    "ran": [f"scratch worktree of /repo at {head}", "git apply patch.diff (3-way rebased onto HEAD when the fix: commits touched the context)",
            "cd <worktree> && /venv/bin/python _seed/<k>/demo.py (clean and patched)",
            "/venv/bin/python -m pytest -n 14 --junitxml compared against /root/.vp/BASELINE.json stable_pass"],
}, open(out + "/meta.json", "w"), indent=1)
PY
  echo "$P-$K: KEPT"
else
  echo "$P-$K: REJECTED"; echo "$RES"; tail -n 5 /tmp/demo_clean_${P}_${K}.log
fi
cd /; git -C /repo worktree remove --force $W
