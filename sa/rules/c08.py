"""C08 - utilities do not depend on how candidates are addressed (index spaces)."""
import ast

from ..common import norm_stmt, site_id
from ..deps import names_in, base_name, index_names, dep_edges, closure, forward_closure
from ..index import AnalysisError
from ..paths import local_names
from . import c01

# abstract index spaces
XROW = ("XROW",)
CAND = ("CAND",)


def MASK(m):
    return ("MASK", m)


def fmt(s):
    return s[0] if len(s) == 1 else f"{s[0]}({s[1]})"


class Spaces:
    """Flow-insensitive typing of one function: length space of arrays and
    value space of index variables.  A name gets a space only if ALL its
    definitions agree; otherwise it is UNKNOWN (never fires)."""

    def __init__(self, p, f):
        self.p = p
        self.f = f
        self.fnode = f.node
        self.roles()
        self.length = {}
        self.value = {}
        self._infer()

    def roles(self):
        fn = self.fnode
        self.X = set()
        self.Xc = set()
        self.mapping = set()
        self.masks = {}
        for n in ast.walk(fn):
            if isinstance(n, ast.Assign) and isinstance(n.value, ast.Call):
                cn = c01.callname(n.value)
                t = n.targets[0]
                if cn == "_validate_data" and isinstance(t, ast.Tuple) and t.elts and isinstance(t.elts[0], ast.Name):
                    self.X.add(t.elts[0].id)
                    if len(t.elts) > 1 and isinstance(t.elts[1], ast.Name):
                        self.X.add(t.elts[1].id)  # y has XROW length too
                if cn == "_transform_candidates" and isinstance(t, ast.Tuple) and len(t.elts) == 2:
                    if isinstance(t.elts[0], ast.Name):
                        self.Xc.add(t.elts[0].id)
                    if isinstance(t.elts[1], ast.Name):
                        self.mapping.add(t.elts[1].id)
                if cn in ("is_labeled", "is_unlabeled") and isinstance(t, ast.Name):
                    a0 = n.value.args[0] if n.value.args else None
                    for k in n.value.keywords:
                        if k.arg == "y":
                            a0 = k.value
                    if isinstance(a0, ast.Name) and a0.id in self.X:
                        self.masks[t.id] = t.id
            if isinstance(n, ast.Assign) and isinstance(n.value, ast.UnaryOp) and isinstance(n.value.op, ast.Invert) \
                    and isinstance(n.value.operand, ast.Name) and isinstance(n.targets[0], ast.Name):
                if n.value.operand.id in self.masks:
                    self.masks[n.targets[0].id] = n.targets[0].id

    def len_space_of_expr(self, e):
        """space of len(e) / e.shape[0] argument"""
        if isinstance(e, ast.Name):
            if e.id in self.X:
                return XROW
            if e.id in self.Xc or e.id in self.mapping:
                return CAND
            return self.length.get(e.id)
        if isinstance(e, ast.Subscript):
            sl = e.slice
            if isinstance(sl, ast.Name) and sl.id in self.masks:
                return MASK(sl.id)
            if isinstance(sl, ast.Name) and sl.id in self.mapping:
                return CAND
            if isinstance(e.value, ast.Subscript):
                # K[m][:, m]
                inner = e.value.slice
                if isinstance(inner, ast.Name) and inner.id in self.masks:
                    return MASK(inner.id)
        return None

    def size_space(self, e):
        """space denoted by a size expression: len(X), X.shape[0], sum(mask)"""
        if isinstance(e, ast.Call) and c01.callname(e) == "len" and e.args:
            return self.len_space_of_expr(e.args[0])
        if isinstance(e, ast.Subscript) and isinstance(e.value, ast.Attribute) and e.value.attr == "shape" \
                and isinstance(e.slice, ast.Constant) and e.slice.value == 0:
            return self.len_space_of_expr(e.value.value)
        if isinstance(e, ast.Call) and c01.callname(e) == "sum" and e.args and isinstance(e.args[0], ast.Name) \
                and e.args[0].id in self.masks:
            return MASK(e.args[0].id)
        if isinstance(e, ast.Name):
            return self.value.get(("size", e.id))
        return None

    def _infer(self):
        fn = self.fnode
        cand_len = {}
        cand_val = {}

        def add(d, k, v):
            d.setdefault(k, set()).add(v)
        for n in ast.walk(fn):
            if isinstance(n, ast.For):
                it = n.iter
                if isinstance(it, ast.Call) and isinstance(it.func, ast.Name) and it.func.id == "enumerate" and it.args \
                        and isinstance(n.target, ast.Tuple) and len(n.target.elts) == 2:
                    src = it.args[0]
                    cnt, el = n.target.elts
                    if isinstance(src, ast.Name) and isinstance(cnt, ast.Name):
                        if src.id in self.mapping:
                            add(cand_val, cnt.id, CAND)
                            if isinstance(el, ast.Name):
                                add(cand_val, el.id, XROW)
                        elif src.id in self.Xc:
                            add(cand_val, cnt.id, CAND)
                        elif src.id in self.X:
                            add(cand_val, cnt.id, XROW)
                elif isinstance(it, ast.Call) and isinstance(it.func, ast.Name) and it.func.id == "range" \
                        and len(it.args) == 1 and isinstance(n.target, ast.Name):
                    sp = self.size_space(it.args[0])
                    if sp:
                        add(cand_val, n.target.id, sp)
                elif isinstance(it, ast.Name) and it.id in self.mapping and isinstance(n.target, ast.Name):
                    add(cand_val, n.target.id, XROW)
            if isinstance(n, ast.Assign) and len(n.targets) == 1 and isinstance(n.targets[0], ast.Name):
                v = n.value
                t = n.targets[0].id
                if isinstance(v, ast.Call):
                    cn = c01.callname(v)
                    if cn in ("full", "zeros", "ones", "empty") and (v.args or v.keywords):
                        shape = v.args[0] if v.args else None
                        for k in v.keywords:
                            if k.arg == "shape":
                                shape = k.value
                        if isinstance(shape, (ast.Tuple, ast.List)) and shape.elts:
                            shape = shape.elts[-1]
                        sp = self.size_space(shape) if shape is not None else None
                        if sp:
                            add(cand_len, t, sp)
                    elif cn in ("predict", "predict_proba", "predict_freq") and v.args and isinstance(v.args[0], ast.Name):
                        sp = self.len_space_of_expr(v.args[0])
                        if sp:
                            add(cand_len, t, sp)
                    elif cn in ("arange",) and len(v.args) == 1:
                        sp = self.size_space(v.args[0])
                        if sp:
                            add(cand_val, t, sp)
                            add(cand_len, t, sp)
                    elif cn in ("unlabeled_indices", "labeled_indices"):
                        add(cand_val, t, XROW)
                sp = self.len_space_of_expr(v) if isinstance(v, ast.Subscript) else None
                if sp and sp[0] == "MASK":
                    add(cand_len, t, sp)
                if isinstance(v, ast.Subscript) and isinstance(v.value, ast.Name) and v.value.id in self.mapping:
                    add(cand_val, t, XROW)
        # a name is typed only if every binding of it is a typed definition
        stores = {}
        for n in ast.walk(fn):
            if isinstance(n, ast.Name) and isinstance(n.ctx, ast.Store):
                stores[n.id] = stores.get(n.id, 0) + 1
            elif isinstance(n, ast.AugAssign) and isinstance(n.target, ast.Name):
                stores[n.target.id] = stores.get(n.target.id, 0) + 1
        ntyped = {}
        for d in (cand_len, cand_val):
            for k in d:
                ntyped[k] = max(ntyped.get(k, 0), 1)
        self.length = {k: next(iter(v)) for k, v in cand_len.items() if len(v) == 1 and stores.get(k, 0) <= 1}
        self.value = {k: next(iter(v)) for k, v in cand_val.items() if len(v) == 1 and stores.get(k, 0) <= 1}
        # names with other (untyped) definitions are unknown
        alldefs = {}
        for n in ast.walk(fn):
            if isinstance(n, ast.Name) and isinstance(n.ctx, ast.Store):
                alldefs[n.id] = alldefs.get(n.id, 0) + 1
        typed_defs = {}
        for d in (cand_len, cand_val):
            for k in d:
                typed_defs[k] = typed_defs.get(k, 0) + 1


def derived_from_mask_position(fnode, name, masks):
    """Does the (transitive) definition of `name` read a label mask in a
    position-dependent way?"""
    defs = {}
    for n in ast.walk(fnode):
        if isinstance(n, ast.Assign):
            for t in n.targets:
                if isinstance(t, ast.Name):
                    defs.setdefault(t.id, []).append(n.value)
    seen = set()
    work = [name]
    while work:
        v = work.pop()
        if v in seen:
            continue
        seen.add(v)
        for e in defs.get(v, []):
            for x in ast.walk(e):
                if isinstance(x, ast.Subscript) and isinstance(x.value, ast.Name) and x.value.id in masks \
                        and isinstance(x.slice, ast.Slice):
                    return True
                if isinstance(x, ast.Call) and c01.callname(x) in ("cumsum", "flatnonzero", "nonzero", "where",
                                                                    "argwhere", "searchsorted", "count_nonzero") \
                        and (names_in(x) & masks) and c01.callname(x) != "count_nonzero":
                    return True
            work.extend(names_in(e))
    return False


def callee_mask_return(p, f, call):
    """If `call` resolves to a project function whose returned array is built
    from K[param][:, param] (boolean-mask submatrix of a parameter), return the
    index of that parameter."""
    r = p.resolve_expr(f.module, call.func) if isinstance(call.func, (ast.Name, ast.Attribute)) else None
    if r is None or r[0] != "func":
        return None
    g = r[1]
    params = g.params()
    rets = [n for n in ast.walk(g.node) if isinstance(n, ast.Return) and n.value is not None]
    if not rets:
        return None
    rn = [x.id for x in ast.walk(rets[0].value) if isinstance(x, ast.Name) and x.id not in ("np", "numpy")]
    if not rn:
        return None
    rname = rn[0]
    for n in ast.walk(g.node):
        if isinstance(n, ast.Assign) and any(isinstance(t, ast.Name) and t.id == rname for t in n.targets):
            for s in ast.walk(n.value):
                if isinstance(s, ast.Subscript) and isinstance(s.value, ast.Subscript):
                    a, b = s.value.slice, s.slice
                    if isinstance(a, ast.Name) and a.id in params:
                        bn = b.elts[-1] if isinstance(b, ast.Tuple) and b.elts else b
                        if isinstance(bn, ast.Name) and bn.id == a.id:
                            return params.index(a.id)
    return None


def callee_indexing(p, f, call):
    """[(array param index, position param index)] pairs: the callee uses the
    position parameter to index/delete from the array parameter."""
    r = p.resolve_expr(f.module, call.func) if isinstance(call.func, (ast.Name, ast.Attribute)) else None
    if r is None or r[0] != "func":
        return []
    g = r[1]
    params = g.params()
    out = set()
    for n in ast.walk(g.node):
        if isinstance(n, ast.Subscript) and isinstance(n.value, ast.Name) and n.value.id in params:
            for x in names_in(n.slice):
                if x in params and x != n.value.id:
                    out.add((params.index(n.value.id), params.index(x)))
        if isinstance(n, ast.Call) and c01.callname(n) == "delete" and len(n.args) >= 2:
            a0 = n.args[0]
            while isinstance(a0, (ast.Call, ast.Subscript)):
                a0 = a0.args[0] if isinstance(a0, ast.Call) and a0.args else (a0.value if isinstance(a0, ast.Subscript) else None)
                if a0 is None:
                    break
            if isinstance(a0, ast.Name) and a0.id in params:
                for x in names_in(n.args[1]):
                    if x in params:
                        out.add((params.index(a0.id), params.index(x)))
    return sorted(out)


def run(p, report, tier):
    report.rule("R8.1", "index-space agreement in pool strategies: a position used to subscript, delete from or "
                "scatter into an array lives in that array's index space (XROW rows of X, CAND positions in the "
                "candidate list, MASK(m) positions inside a boolean-mask sub-array); only pairs where both spaces are "
                "known are judged", floor=3)
    report.rule("R8.3", "positions selected over a pool that was shrunk by np.delete reach the returned indices only "
                "through a translating subscript T[positions] (SUB -> CAND), never directly", floor=2)
    report.rule("R8.5", "in a loop that scores one candidate per iteration the collection of all candidates is not "
                "read (only handed to project callees that do not read it): a candidate's score does not depend on "
                "which other candidates are offered", floor=1)
    report.rule("R8.2", "after _transform_candidates the raw `candidates` parameter is read only to choose between "
                "equivalent index sets (None / ndim tests, length), never as an operand of a numerical computation", floor=25)
    report.rule("R8.6", "an argument that describes the GIVEN samples to a helper (parameter `sample_indices`: the rows of "
                "X the distances are measured to) does not depend on the candidate representation (candidates, X_cand, "
                "mapping or anything computed from them, e.g. X with the candidate rows appended)", floor=2)
    report.rule("R8.7", "the NUMBER of candidates (len / shape[0] of candidates, X_cand, mapping) is used only as a size "
                "(array constructors, ranges), in validation comparisons and messages, or handed on - never as an "
                "operand of arithmetic or of min/max that feeds a score: restricting the candidates must not change "
                "the utilities of the remaining ones", floor=30)
    funcs = c01.pool_functions(p)
    n_pairs = 0
    for f in funcs:
        sp = Spaces(p, f)
        if not (sp.X or sp.Xc or sp.mapping or "mapping" in f.all_param_names()):
            continue
        ent = f.qual
        # direct subscripts
        for n in ast.walk(f.node):
            if isinstance(n, ast.Subscript) and isinstance(n.value, ast.Name):
                ls = sp.len_space_of_expr(n.value) or sp.length.get(n.value.id)
                if ls is None:
                    continue
                sl = n.slice
                idx = sl.elts[-1] if isinstance(sl, ast.Tuple) and sl.elts else sl
                if isinstance(idx, ast.Name) and idx.id in sp.value:
                    vs = sp.value[idx.id]
                    n_pairs += 1
                    ok = vs == ls
                    report.add("R8.1", ent, f"`{norm_stmt(n, 60)}`", f"{f.file}:{n.lineno}", ok,
                               detail=f"array space {fmt(ls)}, index space {fmt(vs)}" + ("" if ok else
                               ": the position is taken from a different index space than the array it addresses"))
        # project calls pairing an array with a position
        local_mask_arrays = {}
        for n in ast.walk(f.node):
            if isinstance(n, ast.Assign) and isinstance(n.value, ast.Call) and len(n.targets) == 1 \
                    and isinstance(n.targets[0], ast.Name):
                pi = callee_mask_return(p, f, n.value)
                if pi is not None and pi < len(n.value.args) and isinstance(n.value.args[pi], ast.Name) \
                        and n.value.args[pi].id in sp.masks:
                    local_mask_arrays[n.targets[0].id] = MASK(n.value.args[pi].id)
        for n in ast.walk(f.node):
            if not isinstance(n, ast.Call):
                continue
            for (ai, pi) in callee_indexing(p, f, n):
                if ai < len(n.args) and pi < len(n.args) and isinstance(n.args[ai], ast.Name) and isinstance(n.args[pi], ast.Name):
                    a, i = n.args[ai].id, n.args[pi].id
                    ls = local_mask_arrays.get(a) or sp.length.get(a) or sp.len_space_of_expr(n.args[ai])
                    vs = sp.value.get(i)
                    if ls is not None and ls[0] == "MASK" and vs is None:
                        # a position inside a boolean-mask sub-array has to be
                        # computed by counting mask entries up to a row:
                        # mask[:s] / cumsum / flatnonzero / searchsorted on a label mask
                        ok = derived_from_mask_position(f.node, i, set(sp.masks))
                        n_pairs += 1
                        report.add("R8.1", ent, f"`{site_id(n, 60)}` position derived from the mask", f"{f.file}:{n.lineno}", ok,
                                   detail=f"`{a}` lives in {fmt(ls)}; the position is obtained by counting mask entries up to the row" if ok else
                                   f"`{a}` lives in {fmt(ls)} but the position `{i}` is not computed from a position-dependent read of a "
                                   "label mask (mask[:row], cumsum, flatnonzero, searchsorted): it is only right for special row layouts")
                        continue
                    if ls is None or vs is None:
                        continue
                    n_pairs += 1
                    ok = ls == vs
                    report.add("R8.1", ent, f"`{site_id(n, 60)}`", f"{f.file}:{n.lineno}", ok,
                               detail=f"`{a}` lives in {fmt(ls)}, position `{i}` in {fmt(vs)}" + ("" if ok else
                               ": the callee indexes/deletes row and column at a position of another index space "
                               "(identical only when the candidates are exactly the masked samples in order)"))
    report.analysed["index_space_pairs"] = n_pairs
    # ---------------- R8.2
    for ci, f in c01.pool_query_entities(p):
        tc = [n for n in ast.walk(f.node) if isinstance(n, ast.Call) and c01.callname(n) == "_transform_candidates"]
        if not tc:
            continue
        line = min(n.lineno for n in tc)
        bad = []
        for n in ast.walk(f.node):
            if isinstance(n, ast.Name) and n.id == "candidates" and isinstance(n.ctx, ast.Load) and n.lineno > line:
                # allowed contexts: `candidates is None`, candidates.ndim, len(candidates), passing on to project helpers
                par = _parent(f.node, n)
                okc = False
                if isinstance(par, ast.Compare) and any(isinstance(c, ast.Constant) and c.value is None for c in par.comparators):
                    okc = True
                if isinstance(par, ast.Attribute) and par.attr in ("ndim", "shape"):
                    okc = True
                if isinstance(par, ast.Call) and c01.callname(par) in ("len",):
                    okc = True
                if isinstance(par, ast.Call) and par is not None and c01.callname(par) in (
                        "_transform_candidates", "_validate_data", "query", "_concatenate_samples"):
                    okc = True
                if isinstance(par, ast.keyword):
                    okc = True
                if not okc:
                    bad.append(n)
        report.add("R8.2", f"{ci.name}.query", "raw `candidates` not used in computations after _transform_candidates",
                   f"{f.file}:{line}", not bad,
                   detail="only representation tests" if not bad else
                   "raw candidates read at line(s) " + ", ".join(str(b.lineno) for b in bad))
    n83 = check_shrinking_pool(p, report, funcs, "R8.3")
    # ---------------- R8.5 per-candidate scores do not read the candidate set
    n85 = 0
    for f in funcs:
        ff = c01.FnFacts(f)
        roles = candidate_set_roles(p, f, ff)
        if not roles:
            continue
        for L in ast.walk(f.node):
            if not isinstance(L, ast.For):
                continue
            it = L.iter
            if not (isinstance(it, ast.Call) and isinstance(it.func, ast.Name) and it.func.id == "enumerate" and it.args
                    and isinstance(it.args[0], ast.Name) and isinstance(L.target, ast.Tuple)
                    and isinstance(L.target.elts[0], ast.Name)):
                continue
            S, cnt = it.args[0].id, L.target.elts[0].id
            if S not in roles:
                continue
            stores = [n for n in ast.walk(L) if isinstance(n, ast.Assign)
                      and any(isinstance(t, ast.Subscript) and cnt in index_names(t) for t in n.targets)]
            if not stores:
                continue
            n85 += 1
            bad = []
            pm = {}
            for n in ast.walk(L):
                for ch in ast.iter_child_nodes(n):
                    pm[ch] = n
            for n in ast.walk(L):
                if isinstance(n, ast.Name) and n.id == S and isinstance(n.ctx, ast.Load) and n is not it.args[0]:
                    par = pm.get(n)
                    ok = False
                    if isinstance(par, (ast.Call, ast.keyword)):
                        call = par if isinstance(par, ast.Call) else pm.get(par)
                        ok = isinstance(call, ast.Call) and callee_param_unread(p, f, call, n)
                    if isinstance(par, ast.Call) and c01.callname(par) == "len":
                        ok = True
                    if not ok:
                        bad.append(n)
            report.add("R8.5", f.qual, f"per-candidate loop `{norm_stmt(L, 50)}` does not read the candidate set",
                       f"{f.file}:{L.lineno}", not bad,
                       detail="each score depends on its own candidate only" if not bad else
                       "the set of candidates is read at line(s) " + ", ".join(str(b.lineno) for b in bad) +
                       " while scoring a single candidate: restricting the candidates changes the scores of the remaining ones")
    report.rule("R8.8", "a reduction over an array that carries NaN at the non-candidates (also when received as a "
                "parameter) is NaN-aware, so index candidates that are a strict subset behave like the same samples "
                "given as feature rows (shared with C01 R1.3)", floor=5)
    c01.check_nan_reductions(p, c01.Report_proxy(report, {"R1.3": "R8.8"}), funcs, "R1.3")
    report.rule("R8.9", "typestate of the index-based classifier wrapper inside a query: every read of the CURRENT model "
                "(predict*/classes_ directly, or a helper that only reads) happens before the first hypothetical "
                "refit (partial_fit without set_base_clf, directly or in a helper that refits first) and never inside "
                "a loop that contains one: otherwise it sees the model of the last simulated candidate", floor=2)
    check_wrapper_typestate(p, report, funcs)
    # ---- shared primitives / wrappers that decide the selection in every candidates mode
    report.rule("R8.10", "the selection is the same in every candidates mode whenever the best candidate is unique: "
                "rand_argmax masks with exact equality (shared with C18 R18.1), and the sub-sampling wrapper sizes its "
                "subset from the population it draws from in each mode (shared with C20 R20.2)", floor=6)
    from . import c18, c20
    c18.check_argmax_primitives(p, report, "R8.10")
    c20.check_subset_population(p, report, "R8.10")
    report.rule("R8.11", "a pool query never mutates a cached fitted attribute (self.<a>_) in place: a later call - with "
                "the candidates addressed differently - would start from the altered cache", floor=30)
    from ..absint import Interp
    from ..effects import writes
    from . import c05
    for ci, fq in c05.pool_entities(p):
        it = Interp(p)
        it.run_entity(ci, fq)
        hits = {}
        for w in writes(it.events, roots=("self",)):
            root, path = w.loc
            if w.kind == "mutate" and path and path[0].endswith("_") and path[0] != "random_state_" \
                    and not str(w.how).startswith("draw:"):
                hits.setdefault(path[0], w)
        ent8 = f"{ci.name}.{fq.name}"
        if not hits:
            report.add("R8.11", ent8, "no cached attribute mutated in place", f"{fq.file}:{fq.node.lineno}", True)
        for a, w in sorted(hits.items()):
            report.add("R8.11", ent8, f"self.{a} mutated in place ({w.how}) via `{norm_stmt(w.ev.node, 60)}`", w.ev.loc, False,
                       detail="the cached attribute is altered by the query: the next query (e.g. with the full pool after "
                              "a restricted one) computes other utilities", path=w.ev.path())
    n87 = check_candidate_count_uses(p, report, funcs)
    report.analysed["candidate_count_uses"] = n87
    n86 = check_reference_set_roles(p, report, funcs)
    report.analysed["reference_set_arguments"] = n86
    report.analysed["per_candidate_loops"] = n85
    report.analysed["shrinking_pool_selections"] = n83
    # ---------------- premises shared with C11 / C19
    report.rule("R8.12", "the score of a candidate is a function of that candidate: the frequency-based classifiers "
                "normalise and fall back to the uniform distribution ROW by ROW (shared with C11 R11.2), and a "
                "hypothetical refit for one candidate starts from a private copy of the base model, so nothing of it "
                "reaches the next candidate (shared with C19 R19.3)", floor=8)
    from ..common import Report
    from . import c11 as _c11, c19 as _c19
    for mod_, pid, rid, pick in ((_c11, "C11", "R11.2", lambda o: "ClassFrequencyEstimator" in o.entity),
                                 (_c19, "C19", "R19.3", lambda o: True)):
        sub = Report(pid)
        mod_.run(p, sub, "quick")
        for o in sub.obligations:
            if o.rule == rid and pick(o):
                report.add("R8.12", o.entity, o.construct, o.loc, o.ok, detail=o.detail)
    report.rule("R8.14", "the wrapper treats index candidates and feature-row candidates alike: on both paths the wrapped "
                "strategy is offered exactly the samples with an available annotator (shared with C07 R7.9)", floor=2)
    from . import c07 as _c07
    _c07.check_inner_candidates_available(p, report, "R8.14")
    report.rule("R8.13", "what enters the score of a candidate is computed from that candidate's own row or from the whole "
                "pool, never from the SET of candidates: a reduction over all rows of a per-candidate matrix (no axis) is "
                "not recombined with such a matrix, per-row reductions keep the reduced axis, and count statistics "
                "(np.unique(..., return_counts=True), np.bincount) are not taken over a selection by the candidate mapping",
                floor=2)
    from ..shapes import Kinds
    for f in funcs:
        bad, good = Kinds(f.node).mismatches()
        for n in good:
            report.add("R8.13", f.qual, f"`{norm_stmt(n, 60)}` combines per-candidate quantities row by row", f"{f.file}:{n.lineno}", True,
                       detail="reduced axis kept")
        for n in bad:
            report.add("R8.13", f.qual, f"`{norm_stmt(n, 60)}` combines per-candidate quantities row by row", f"{f.file}:{n.lineno}", False,
                       detail="a statistic over ALL candidate rows (or a vector over them aligned with the class axis) scales each "
                              "candidate's row: the utility of a sample changes when other candidates are removed")
        mp = c01.mapping_roles(f.node, set())
        for c in ast.walk(f.node):
            if not isinstance(c, ast.Call):
                continue
            cn = (c01.callname(c) or "").split(".")[-1]
            if not ((cn == "unique" and any(k.arg == "return_counts" for k in c.keywords)) or cn in ("bincount", "Counter")):
                continue
            a0 = c.args[0] if c.args else None
            over_cand = a0 is not None and any(isinstance(x, ast.Subscript) and (names_in(x.slice) & (mp | {"candidates"}))
                                               for x in ast.walk(a0))
            if mp or over_cand:
                report.add("R8.13", f.qual, f"counts `{norm_stmt(c, 60)}` are taken over the pool", f"{f.file}:{c.lineno}", not over_cand,
                           detail="not restricted to the candidates" if not over_cand else
                           "the counts are taken over the candidates only: a cluster / cell is large or small depending on "
                           "which other samples are offered, and with it the score of every candidate")
    report.rule("R8.17", "the index path and the feature-row path compute in the same number type: the full-length array that "
                "the candidates' utilities are scattered into is a float NaN array by construction (np.full(n, np.nan)); one "
                "that inherits the dtype of a weight / label array truncates the utilities on the index path only "
                "(shared with C01 R1.3)", floor=25)
    _facts17 = {id(f.node): c01.FnFacts(f) for f in funcs}
    _proxy17 = c01.Report_proxy(report, {"R1.3": "R8.17"})
    for f in funcs:
        c01.check_nan_discipline(p, _proxy17, f, _facts17[id(f.node)])
    report.rule("R8.18", "a model refitted for a hypothetical label depends on the LABELED rows only: the index path relabels the "
                "candidate inside X (n rows), the feature-row path appends it (n + 1 rows), so any statistic over all rows of "
                "fit's input (a bandwidth from np.var(X)) differs between the two ways of addressing the same candidate "
                "(shared with C12 R12.1 on the regressors' fit functions)", floor=2)
    from . import c12 as _c12
    _sub12 = type(report)("C12")
    _c12.run(p, _sub12, "quick")
    for o in _sub12.obligations:
        if o.rule == "R12.1" and "Regressor" in o.entity:
            report.add("R8.18", o.entity, o.construct, o.loc, o.ok, detail=o.detail)
    report.rule("R8.15", "candidates given as indices are brought into ONE canonical order before any strategy sees them: on "
                "its de-duplicating path check_indices binds the indices to np.unique(...) itself (sorted), so X_cand has the "
                "row order that `candidates=None` produces - strategies whose clustering / tie-breaking follows the row order "
                "(Clue, DropQuery) otherwise score the same candidate set differently", floor=1)
    check_indices_canonical(p, report)
    report.rule("R8.16", "a per-candidate expectation is evaluated for EVERY row of the candidate matrix, in its order: the "
                "helper `_conditional_expect` hands its callback the row position idx of X itself - it never evaluates a "
                "de-duplicated / re-ordered copy of X, whose positions the strategies translate through `mapping[idx]` into "
                "other samples", floor=1)
    check_conditional_expect_rows(p, report)
    report.assumptions += ["restriction invariance and permutation equivariance of the numbers are not decided",
                           "index spaces are inferred only from the idioms listed in the checker; unknown never fires"]


def candidate_set_roles(p, f, ff):
    """Names holding the whole candidate collection: results of
    _transform_candidates, the `candidates` parameter, and results of project
    calls whose returned element derives from the callee's `candidates`."""
    roles = set()
    if "candidates" in f.all_param_names():
        roles.add("candidates")
    for n in ast.walk(f.node):
        if isinstance(n, ast.Assign) and isinstance(n.value, ast.Call):
            cn = c01.callname(n.value)
            t = n.targets[0]
            if cn == "_transform_candidates" and isinstance(t, ast.Tuple):
                roles |= {e.id for e in t.elts if isinstance(e, ast.Name)}
            elif isinstance(t, ast.Tuple):
                g = None
                fn = n.value.func
                if isinstance(fn, ast.Attribute) and isinstance(fn.value, ast.Name) and fn.value.id == "self" and f.cls is not None:
                    g = p.find_method(f.cls, fn.attr)
                if g is not None and "candidates" in g.all_param_names():
                    glocs = c01.local_names(g.node) | set(g.all_param_names())
                    gv, _ = c01.value_edges(g.node, glocs)
                    for rn in ast.walk(g.node):
                        if isinstance(rn, ast.Return) and isinstance(rn.value, ast.Tuple) and len(rn.value.elts) == len(t.elts):
                            for e_t, e_r in zip(t.elts, rn.value.elts):
                                if isinstance(e_t, ast.Name) and isinstance(e_r, ast.Name) and \
                                        "candidates" in closure({e_r.id}, gv):
                                    roles.add(e_t.id)
    return forward_closure(roles, ff.vedges) | roles if roles else roles


def callee_param_unread(p, f, call, argnode):
    """The project callee does not read the parameter that receives argnode
    (it is unused or only handed on to callees that do not read it)."""
    g = None
    fn = call.func
    if isinstance(fn, ast.Attribute) and isinstance(fn.value, ast.Name) and fn.value.id == "self" and f.cls is not None:
        cands = [c for c in p.classes.values() if p.is_subclass(c, f.cls.name) and p.find_method(c, fn.attr) is not None]
        gs = {id(p.find_method(c, fn.attr).node): p.find_method(c, fn.attr) for c in cands}
        return bool(gs) and all(_param_unread(p, g_, call, argnode, True) for g_ in gs.values())
    r = p.resolve_expr(f.module, fn) if isinstance(fn, (ast.Name, ast.Attribute)) else None
    if r is not None and r[0] == "func":
        return _param_unread(p, r[1], call, argnode, r[1].cls is not None)
    return False


def _param_unread(p, g, call, argnode, is_method, depth=0):
    params = g.params()
    if is_method and params:
        params = params[1:]
    pname = None
    for i, a in enumerate(call.args):
        if a is argnode and i < len(params):
            pname = params[i]
    for k in call.keywords:
        if k.value is argnode:
            pname = k.arg
    if pname is None:
        return False
    for n in ast.walk(g.node):
        if isinstance(n, ast.Name) and n.id == pname and isinstance(n.ctx, ast.Load):
            return False
    return True


def check_shrinking_pool(p, report, funcs, rule_id):
    """positions selected over a pool shrunk by np.delete must be translated"""
    from ..astutil import FuncTree, dominates
    n83 = 0
    for f in funcs:
        fnode = f.node
        shrinks = []
        for n in ast.walk(fnode):
            if isinstance(n, ast.Assign) and isinstance(n.value, ast.Call) and c01.callname(n.value) == "delete" \
                    and n.value.args and len(n.targets) == 1 and isinstance(n.targets[0], ast.Name):
                shrinks.append((n, n.targets[0].id))
        if not shrinks:
            continue
        ff = c01.FnFacts(f)
        tree = FuncTree(fnode)
        edges = dep_edges(fnode.body)
        for k in list(edges):
            edges[k] = {x for x in edges[k] if x in ff.locs}
        # value edges WITHOUT index flows (T[r] does not pass r's value on)
        direct = {}
        for n in ast.walk(fnode):
            if isinstance(n, ast.Assign):
                srcs = direct_sources(n.value, ff.locs)
                for t in n.targets:
                    for e in (t.elts if isinstance(t, (ast.Tuple, ast.List)) else [t]):
                        b = base_name(e)
                        if b:
                            direct.setdefault(b, set()).update(srcs)
        ret_seeds = set()
        for _, e in ff.rets:
            ret_seeds |= direct_sources(e, ff.locs)
        ret_direct = closure(ret_seeds, direct)
        shrunk_names = {nm for _, nm in shrinks}
        for n in ast.walk(fnode):
            if not isinstance(n, ast.Assign) or not isinstance(n.value, (ast.Call, ast.Subscript)):
                continue
            call = n.value
            while isinstance(call, ast.Subscript):
                call = call.value
            if not isinstance(call, ast.Call):
                continue
            is_sel = c01.is_selection_call(call)
            if not is_sel:
                r = p.resolve_expr(f.module, call.func) if isinstance(call.func, (ast.Name, ast.Attribute)) else None
                if not (r is not None and r[0] == "func" and c01.returned_index_exprs(r[1].node)
                        and any(isinstance(x, ast.Call) and c01.is_selection_call(x) for x in ast.walk(r[1].node))):
                    continue
            argn = set()
            for a in list(call.args) + [k.value for k in call.keywords]:
                argn |= names_in(a)
            back = closure(argn & ff.locs, edges)
            used = shrunk_names & back
            if not used:
                continue
            # the selection happens after (or in the same loop as) the shrink
            after = False
            for (sst, nm) in shrinks:
                if nm in used and (dominates(tree, sst, n) or (tree.enclosing_loops(sst) and
                                   set(map(id, tree.enclosing_loops(sst))) & set(map(id, tree.enclosing_loops(n))))):
                    after = True
            if not after:
                continue
            res = set()
            t0 = n.targets[0]
            if isinstance(t0, (ast.Tuple, ast.List)):
                if isinstance(t0.elts[0], ast.Name):
                    res.add(t0.elts[0].id)   # index result is the first element
            elif isinstance(t0, ast.Name):
                res.add(t0.id)
            if not res:
                continue
            n83 += 1
            leak = res & ret_direct
            report.add(rule_id, f.qual, f"positions `{sorted(res)[0]}` selected over the shrunk pool {sorted(used)}",
                       f"{f.file}:{n.lineno}", not leak,
                       detail="reach the returned indices only through a translating subscript T[positions]" if not leak else
                       "positions relative to the shrunk pool flow untranslated into the returned indices")
    return n83


def direct_sources(e, locs):
    """like c01.value_sources but a subscript passes on only the value of
    its base, not of its index (T[r] translates r)."""
    out = set()
    if e is None:
        return out
    if isinstance(e, ast.Name):
        if e.id in locs:
            out.add(e.id)
    elif isinstance(e, ast.Subscript):
        out |= direct_sources(e.value, locs)
    elif isinstance(e, (ast.Tuple, ast.List)):
        for x in e.elts:
            out |= direct_sources(x, locs)
    elif isinstance(e, ast.Call):
        if c01.callname(e) in c01.CONVERSIONS:
            args = e.args[:1] if c01.callname(e) in ("delete", "reshape", "astype") else e.args
            for a in args:
                out |= direct_sources(a, locs)
            if isinstance(e.func, ast.Attribute):
                out |= direct_sources(e.func.value, locs)
    elif isinstance(e, ast.IfExp):
        out |= direct_sources(e.body, locs) | direct_sources(e.orelse, locs)
    return out


def _parent(root, node):
    for n in ast.walk(root):
        for ch in ast.iter_child_nodes(n):
            if ch is node:
                return n
    return None


REFERENCE_ROLE_PARAMS = {"sample_indices"}


def check_reference_set_roles(p, report, funcs):
    n = 0
    for f in funcs:
        calls = []
        for c in ast.walk(f.node):
            if isinstance(c, ast.Call) and isinstance(c.func, (ast.Name, ast.Attribute)):
                r = p.resolve_expr(f.module, c.func)
                if r is not None and r[0] == "func" and (set(r[1].params()) & REFERENCE_ROLE_PARAMS):
                    calls.append((c, r[1]))
        if not calls:
            continue
        # candidate-derived names: results of _transform_candidates and the
        # validated `candidates`, closed forward over the dependence edges
        # (the positional tuple returned by _validate_data is matched by position)
        cand = {"candidates"}
        stmts = [st for st in ast.walk(f.node) if isinstance(st, ast.stmt)]
        edges = {}
        for st in stmts:
            if isinstance(st, ast.Assign) and isinstance(st.value, ast.Call):
                cn = c01.callname(st.value)
                t0 = st.targets[0]
                if cn == "_transform_candidates" and isinstance(t0, (ast.Tuple, ast.List)):
                    for e in t0.elts:
                        if isinstance(e, ast.Name):
                            cand.add(e.id)
                    continue
                if cn == "_validate_data" and isinstance(t0, (ast.Tuple, ast.List)):
                    for e, a in zip(t0.elts, st.value.args):
                        if isinstance(e, ast.Name):
                            edges.setdefault(e.id, set()).update(names_in(a))
                    continue
            if isinstance(st, (ast.Assign, ast.AugAssign, ast.AnnAssign)):
                for k, v in dep_edges([st]).items():
                    edges.setdefault(k, set()).update(v)
        locs = (local_names(f.node) | set(f.all_param_names())) - set(f.module.imports if hasattr(f.module, "imports") else ())
        locs -= {"np", "numpy", "self"}
        edges = {k: {x for x in v if x in locs} for k, v in edges.items() if k in locs}
        fwd = forward_closure(cand, edges) | cand
        for c, g in calls:
            params = g.params()
            bind = {}
            for i, a in enumerate(c.args):
                if i < len(params):
                    bind[params[i]] = a
            for k in c.keywords:
                if k.arg:
                    bind[k.arg] = k.value
            for pn in sorted(set(bind) & REFERENCE_ROLE_PARAMS):
                dep = names_in(bind[pn]) & fwd
                n += 1
                report.add("R8.6", f.qual, f"`{pn}` of {site_id(c, 50)} independent of the candidate representation",
                           f"{f.file}:{c.lineno}", not dep,
                           detail="depends on the given samples only" if not dep else
                           f"depends on {sorted(dep)}, which is computed from the candidates: with candidates given as "
                           "feature rows the reference set differs from the one used for the same samples given as "
                           "indices")
    return n


CAND_NAMES = {"X_cand", "candidates", "mapping"}
SIZE_CALLS = {"zeros", "ones", "full", "empty", "arange", "range", "zeros_like", "ones_like", "full_like", "empty_like",
              "reshape", "tile", "repeat", "eye", "check_scalar", "check_consistent_length", "ValueError", "TypeError",
              "format", "warn", "len", "broadcast_to", "array_split", "linspace", "isinstance"}
SCORE_CALLS = {"min", "max", "minimum", "maximum", "clip", "ceil", "floor", "round", "sqrt", "log", "log2", "exp", "power"}
# wrappers whose very purpose is to restrict / chunk the candidates
R87_EXEMPT_FILES = {"skactiveml/pool/_wrapper.py": "SubSamplingWrapper restricts the candidates by design; "
                                                   "the parallel wrapper only sizes its chunks"}


def _is_cand_count(e, count_names, cand_names=CAND_NAMES):
    if isinstance(e, ast.Call) and c01.callname(e) == "len" and e.args and base_name(e.args[0]) in cand_names \
            and isinstance(e.args[0], ast.Name):
        return True
    if isinstance(e, ast.Subscript) and isinstance(e.value, ast.Attribute) and e.value.attr == "shape" \
            and isinstance(e.value.value, ast.Name) and e.value.value.id in cand_names \
            and isinstance(e.slice, ast.Constant) and e.slice.value == 0:
        return True
    if isinstance(e, ast.Name) and isinstance(e.ctx, ast.Load) and e.id in count_names:
        return True
    return False


def check_candidate_count_uses(p, report, funcs):
    n = 0
    for f in funcs:
        if f.file in R87_EXEMPT_FILES:
            continue
        parents = {}
        for x in ast.walk(f.node):
            for ch in ast.iter_child_nodes(x):
                parents[ch] = x
        # role, not name: whatever is bound from _transform_candidates(...) describes the candidates;
        # parameters keep the conventional names (candidates, X_cand, mapping)
        cand_names = {a for a in f.all_param_names() if a in CAND_NAMES}
        for x in ast.walk(f.node):
            if isinstance(x, ast.Assign) and isinstance(x.value, ast.Call) and c01.callname(x.value) == "_transform_candidates":
                for t in x.targets:
                    for e_ in (t.elts if isinstance(t, (ast.Tuple, ast.List)) else [t]):
                        if isinstance(e_, ast.Name):
                            cand_names.add(e_.id)
        # locals that hold the count: n = len(X_cand) (single binding)
        count_names = set()
        for x in ast.walk(f.node):
            if isinstance(x, ast.Assign) and len(x.targets) == 1 and isinstance(x.targets[0], ast.Name) \
                    and _is_cand_count(x.value, set(), cand_names):
                nm = x.targets[0].id
                stores = [y for y in ast.walk(f.node) if isinstance(y, ast.Name) and y.id == nm and isinstance(y.ctx, ast.Store)]
                if len(stores) == 1:
                    count_names.add(nm)
        for x in ast.walk(f.node):
            if not _is_cand_count(x, count_names, cand_names):
                continue
            if isinstance(x, ast.Name) and isinstance(parents.get(x), ast.Assign) and x in parents[x].targets:
                continue
            verdict = None
            cur = x
            while cur in parents and not isinstance(parents[cur], ast.stmt):
                par = parents[cur]
                if isinstance(par, ast.Call):
                    cn = c01.callname(par)
                    if cur is par.func:
                        pass
                    elif cn in SIZE_CALLS:
                        verdict = ("size", cn)
                        break
                    elif cn in SCORE_CALLS:
                        verdict = ("score", cn)
                        break
                    else:
                        verdict = ("handed on", cn)
                        break
                if isinstance(par, ast.keyword) and par.arg in ("shape", "size", "n_neighbors") and False:
                    pass
                if isinstance(par, ast.Compare):
                    verdict = ("comparison", "")
                    break
                if isinstance(par, (ast.JoinedStr, ast.FormattedValue)):
                    verdict = ("message", "")
                    break
                if isinstance(par, ast.BinOp):
                    verdict = ("score", type(par.op).__name__)
                    # keep climbing: arithmetic inside a size constructor is a size
                    up = par
                    while up in parents and not isinstance(parents[up], ast.stmt):
                        up = parents[up]
                        if isinstance(up, ast.Call) and c01.callname(up) in SIZE_CALLS:
                            verdict = ("size", c01.callname(up))
                            break
                    break
                cur = par
            if verdict is None:
                verdict = ("plain", "")
            n += 1
            st = x
            while st in parents and not isinstance(st, ast.stmt):
                st = parents[st]
            if verdict[0] == "comparison" and isinstance(st, ast.If) and any(x is y for y in ast.walk(st.test)):
                # a comparison of the count that selects between two COMPUTATIONS of the result (one arm returns) is no
                # validation: the score of a candidate then depends on how many candidates are offered
                arms = [st.body, st.orelse]
                returns = any(isinstance(z, ast.Return) and z.value is not None for arm in arms for y in arm for z in ast.walk(y))
                raises = any(isinstance(z, ast.Raise) for y in st.body for z in ast.walk(y))
                if returns and not raises:
                    verdict = ("score", "a branch that returns another result")
            ok = verdict[0] != "score"
            report.add("R8.7", f.qual, f"candidate count in `{norm_stmt(st, 70)}`", f"{f.file}:{x.lineno}", ok,
                       detail=f"used as {verdict[0]} {verdict[1]}".strip() if ok else
                       f"the number of candidates is an operand of {verdict[1]}: a value that enters the scores depends on "
                       "how many candidates are offered")
    return n


def _w_uses(fnode, w):
    """[(lineno, kind, node)] uses of wrapper variable `w` in statement order:
    kind 'M' hypothetical refit, 'B' base (re)fit, 'R' read of the model"""
    out = []
    for n in ast.walk(fnode):
        if isinstance(n, ast.Call) and isinstance(n.func, ast.Attribute) and isinstance(n.func.value, ast.Name) \
                and n.func.value.id == w:
            a = n.func.attr
            if a in ("partial_fit", "fit"):
                sb = [k for k in n.keywords if k.arg == "set_base_clf"]
                base = bool(sb) and isinstance(sb[0].value, ast.Constant) and sb[0].value.value is True
                out.append((n.lineno, "B" if base else "M", n))
            elif a.startswith("predict") or a in ("score",):
                out.append((n.lineno, "R", n))
        elif isinstance(n, ast.Attribute) and isinstance(n.value, ast.Name) and n.value.id == w \
                and n.attr in ("classes_", "clf_") and isinstance(n.ctx, ast.Load):
            out.append((n.lineno, "R", n))
    return sorted(out, key=lambda t: (t[0], t[1]))


def check_wrapper_typestate(p, report, funcs):
    for f in funcs:
        ws = [n.targets[0].id for n in ast.walk(f.node) if isinstance(n, ast.Assign) and isinstance(n.value, ast.Call)
              and c01.callname(n.value) == "IndexClassifierWrapper" and len(n.targets) == 1
              and isinstance(n.targets[0], ast.Name)]
        if not ws or f.cls is None:
            continue
        w = ws[0]
        ci = p.classes.get(f.cls) if isinstance(f.cls, str) else f.cls
        fam = [c for c in p.classes.values() if ci is not None and p.is_subclass(c, ci.name)] if ci is not None else []
        parents = {}
        for x in ast.walk(f.node):
            for ch in ast.iter_child_nodes(x):
                parents[ch] = x

        def helper_kind(call):
            """kind of a call self.<m>(..., w, ...) from the first use of the bound parameter in every override"""
            if not (isinstance(call.func, ast.Attribute) and isinstance(call.func.value, ast.Name) and call.func.value.id == "self"):
                return None
            pos = [i for i, a in enumerate(call.args) if isinstance(a, ast.Name) and a.id == w]
            if not pos:
                return None
            kinds = set()
            for c in fam:
                m = c.methods.get(call.func.attr)
                if m is None:
                    continue
                params = [a for a in m.params() if a != "self"]
                if pos[0] >= len(params):
                    continue
                us = _w_uses(m.node, params[pos[0]])
                if us:
                    kinds.add(us[0][1])
            if "M" in kinds:
                return "M"
            if kinds == {"R"}:
                return "R"
            return None
        events = [(ln, k, n) for (ln, k, n) in _w_uses(f.node, w)]
        for n in ast.walk(f.node):
            if isinstance(n, ast.Call):
                k = helper_kind(n)
                if k:
                    events.append((n.lineno, k, n))
        events.sort(key=lambda t: t[0])
        ms = [e for e in events if e[1] == "M"]

        def loops_of(node):
            out = []
            x = parents.get(node)
            while x is not None:
                if isinstance(x, (ast.For, ast.While)):
                    out.append(x)
                x = parents.get(x)
            return out
        for (ln, k, n) in events:
            if k != "R":
                continue
            before = [m for m in ms if m[0] < ln]
            in_loop = [m for m in ms if any(L in loops_of(m[2]) for L in loops_of(n))]
            ok = not before and not in_loop
            st = n
            while st in parents and not isinstance(st, ast.stmt):
                st = parents[st]
            report.add("R8.9", f.qual, f"read of the current model `{norm_stmt(st, 70)}`", f"{f.file}:{ln}", ok,
                       detail="precedes every hypothetical refit" if ok else
                       f"follows / shares a loop with the hypothetical refit at line {(before or in_loop)[0][0]}: the value "
                       "depends on which candidate was simulated last (order and choice of the candidates)")


def check_indices_canonical(p, report):
    g = None
    for f in p.all_functions():
        if f.name == "check_indices" and f.file.endswith("utils/_validation.py"):
            g = f
    if g is None:
        raise AnalysisError("check_indices vanished")
    ps = [a for a in g.params()]
    if not ps:
        raise AnalysisError("check_indices has no parameters")
    ix = ps[0]
    CONV = {"check_array", "asarray", "array", "tuple", "column_or_1d", "astype", "asanyarray"}

    def canonical(v, depth=0):
        if isinstance(v, ast.Call) and (c01.callname(v) or "") in ("unique", "sort") and v.args \
                and not any(k.arg in ("return_index", "return_inverse", "return_counts") for k in v.keywords):
            return True
        if isinstance(v, ast.Name) and depth < 2 and v.id != ix:
            defs = [a.value for a in ast.walk(g.node) if isinstance(a, ast.Assign)
                    and any(isinstance(t, ast.Name) and t.id == v.id for t in a.targets)]
            return bool(defs) and all(canonical(d, depth + 1) for d in defs)
        return False

    binds = [a for a in ast.walk(g.node) if isinstance(a, ast.Assign)
             and any(isinstance(t, ast.Name) and t.id == ix for t in a.targets)]
    conv = [a for a in binds if isinstance(a.value, ast.Call) and (c01.callname(a.value) or "") in CONV]
    canon = [a for a in binds if a not in conv and canonical(a.value)]
    bad = [a for a in binds if a not in conv and a not in canon]
    report.add("R8.15", g.qual, f"every re-binding of `{ix}` is a conversion or its sorted set", f"{g.file}:{(bad[0] if bad else g.node).lineno}",
               bool(canon) and not bad, detail=f"{len(canon)} canonicalising binding(s) (np.unique), {len(conv)} conversion(s)" if canon and not bad else
               (f"`{norm_stmt(bad[0], 60)}` keeps an order chosen by the caller: the same candidate set given in another "
                f"order (a shuffled or ranked index array) reaches the strategies as a differently ordered X_cand"
                if bad else "check_indices no longer de-duplicates (np.unique) the indices"))


def check_conditional_expect_rows(p, report):
    g = None
    for f in p.all_functions():
        if f.name == "_conditional_expect" and f.file.endswith("pool/utils.py"):
            g = f
    if g is None:
        raise AnalysisError("_conditional_expect vanished")
    ps = [a for a in g.params()]
    x = ps[0]
    bad = None
    n = 0
    for c in ast.walk(g.node):
        if isinstance(c, ast.Call) and (c01.callname(c) or "") in ("unique", "sort", "argsort", "lexsort", "permutation", "shuffle") \
                and c.args and x in names_in(c.args[0]):
            bad = bad or c
        # recursion / delegation on a row subset of X
        if isinstance(c, ast.Call) and (c01.callname(c) or "") == g.name and c.args and isinstance(c.args[0], ast.Subscript) \
                and base_name(c.args[0]) == x:
            bad = bad or c
        if isinstance(c, ast.Call):
            n += 1
    # X itself is never rebound to a selection of its rows
    for a in ast.walk(g.node):
        if isinstance(a, ast.Assign) and any(isinstance(t, ast.Name) and t.id == x for t in a.targets) \
                and isinstance(a.value, ast.Subscript) and base_name(a.value) == x:
            bad = bad or a
    report.add("R8.16", g.qual, f"every row of `{x}` is evaluated at its own position", f"{g.file}:{(bad or g.node).lineno}", bad is None,
               detail=f"{n} calls inspected: no de-duplication / re-ordering / row subset of `{x}`" if bad is None else
               f"`{ast.unparse(bad)[:70]}` evaluates a de-duplicated or re-ordered copy of `{x}`: the position handed to the "
               f"callback is then a position in that copy, and `mapping[idx]` in the strategies labels another sample - index "
               f"candidates and feature-row candidates get different utilities")
