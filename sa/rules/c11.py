"""C11 - classifier outputs are probabilities and consistent decisions."""
import ast
from ..astutil import inline_temporaries as _it

from ..astutil import FuncTree, dominates
from ..common import norm_stmt, site_id
from ..deps import names_in, base_name, index_names
from ..index import ClassInfo, AnalysisError
from ..paths import MustAnalysis, DefiniteAssignment, describe
from .c03 import is_abstract
from . import c01

INDEX_SOURCES = {"rand_argmin", "rand_argmax", "argmin", "argmax", "nanargmin", "nanargmax"}


def classifier_classes(p):
    return sorted([c for c in p.classes.values() if p.is_subclass(c, "SkactivemlClassifier")], key=lambda c: c.name)


def is_index_source(e):
    """expression producing a class *index* (column position)."""
    if isinstance(e, ast.Subscript):
        return is_index_source(e.value)
    if isinstance(e, ast.Call):
        n = c01.callname(e)
        if n in INDEX_SOURCES:
            return True
        if n == "choice" and e.args:
            a0 = e.args[0]
            txt = ast.unparse(a0)
            if "arange" in txt and "classes_" in txt:
                return True
            if "len(" in txt and "classes_" in txt:
                return True
    return False


def is_decode(e):
    if isinstance(e, ast.Call) and c01.callname(e) in ("inverse_transform",):
        return True
    if isinstance(e, ast.Subscript) and "classes_" in ast.unparse(e.value):
        return True
    if isinstance(e, ast.Call) and c01.callname(e) in ("take",) and e.args and "classes_" in ast.unparse(e.args[0]):
        return True
    return False


class DecodeFlow(MustAnalysis):
    """token 'idx:<v>' is NOT used (must-analysis); instead 'dec:<v>' = v
    certainly holds class labels (decoded or produced by a label source)."""

    def __init__(self, fnode):
        super().__init__(fnode)
        self.bad = []

    def transfer(self, stmt, tokens):
        if isinstance(stmt, ast.Assign) and len(stmt.targets) == 1 and isinstance(stmt.targets[0], ast.Name):
            v = stmt.targets[0].id
            e = stmt.value
            tk = set(tokens)
            if is_index_source(e):
                tk.discard(f"dec:{v}")
                tk.add(f"idx:{v}")
                return tk
            if is_decode(e):
                tk.add(f"dec:{v}")
                tk.discard(f"idx:{v}")
                return tk
            # conversions of the variable itself keep its status
            srcs = c01.value_sources(e, {n for n in names_in(e)})
            if srcs and all((f"idx:{s}" in tokens) for s in srcs):
                tk.add(f"idx:{v}")
                tk.discard(f"dec:{v}")
                return tk
            if isinstance(e, ast.Call) and isinstance(e.func, ast.Attribute) and e.func.attr in ("astype", "ravel", "reshape", "flatten", "copy") \
                    and isinstance(e.func.value, ast.Name):
                s = e.func.value.id
                if f"idx:{s}" in tokens:
                    tk.add(f"idx:{v}")
                    tk.discard(f"dec:{v}")
                else:
                    tk.discard(f"idx:{v}")
                return tk
            if isinstance(e, ast.Call) and c01.callname(e) in ("asarray", "array") and e.args and isinstance(e.args[0], ast.Name):
                s = e.args[0].id
                if f"idx:{s}" in tokens:
                    tk.add(f"idx:{v}")
                else:
                    tk.discard(f"idx:{v}")
                return tk
            tk.discard(f"idx:{v}")
            return tk
        return None


def merge_union_idx(states):
    return states


def check_index_decoded(p, report, classes, rule):
    """A class index selected over costs / probabilities is decoded to a
    class label before predict returns it (shared with C09)."""
    seen = set()
    for ci in classes:
        f = p.find_method(ci, "predict")
        if f is None or is_abstract(f) or id(f.node) in seen:
            continue
        seen.add(id(f.node))
        ent = f.qual
        df = _IdxFlow(f.node).run()
        n_src = sum(1 for n in ast.walk(f.node) if isinstance(n, ast.Assign) and is_index_source(n.value))
        if df.bad:
            for (ret, var, facts) in df.bad:
                report.add(rule, ent, f"return of `{var}` holding a class index", f"{f.file}:{ret.lineno}", False,
                           detail="a column index selected over costs/probabilities is returned without decoding to a "
                                  f"class label on the path where: {describe(facts) or 'always'}")
        else:
            report.add(rule, ent, "class indices decoded before return", f"{f.file}:{f.node.lineno}", True,
                       detail=f"{n_src} index source(s), all decoded on every path", nontrivial=n_src > 0)


def check_wrapper_guards(p, report, rule):
    sc = p.get_class("SklearnClassifier")
    pp = sc.methods.get("predict_proba") if sc else None
    fit = sc.methods.get("_fit") if sc else None
    if pp is None or fit is None:
        raise AnalysisError("SklearnClassifier.predict_proba / _fit vanished")
    tree = FuncTree(pp.node)
    est_names = {t.id for n in ast.walk(pp.node) if isinstance(n, ast.Assign) and isinstance(n.value, ast.Call)
                 and isinstance(n.value.func, ast.Attribute) and n.value.func.attr == "predict_proba"
                 and "estimator_" in ast.unparse(n.value.func.value) for t in n.targets if isinstance(t, ast.Name)}
    # names the estimator's output is re-mapped into (P = P_ext)
    for _ in range(2):
        for n in ast.walk(pp.node):
            if isinstance(n, ast.Assign) and len(n.targets) == 1 and isinstance(n.targets[0], ast.Name) \
                    and n.targets[0].id in est_names and isinstance(n.value, ast.Name):
                est_names.add(n.value.id)
    k = 0
    for r in ast.walk(pp.node):
        if isinstance(r, ast.Return) and isinstance(r.value, ast.Name) and r.value.id in est_names:
            guarded = any(isinstance(owner, ast.If) and field == "body" and "isnan" in ast.unparse(owner.test)
                          and r.value.id in names_in(owner.test) for (s_, owner, field, idx) in tree.ancestors(r))
            k += 1
            report.add(rule, pp.qual, f"`{norm_stmt(r, 40)}` hands on the estimator's probabilities after the NaN check", f"{pp.file}:{r.lineno}",
                       guarded, detail="under `not np.any(np.isnan(P))`" if guarded else
                       "this return is not under the NaN check: if the wrapped estimator reports NaN probabilities they are "
                       "returned instead of the label-frequency fallback")
    if k == 0:
        raise AnalysisError("SklearnClassifier.predict_proba: no return of the estimator's probabilities found")
    # partial_fit: `classes` handed to the estimator on every partial_fit path
    ftree = FuncTree(fit.node)
    pf_calls = [c for c in ast.walk(fit.node) if isinstance(c, ast.Call) and isinstance(c.func, ast.Attribute)
                and c.func.attr == "partial_fit" and "estimator_" in ast.unparse(c.func.value)]
    for c in pf_calls:
        st = ftree.stmt_of(c)
        has = any(kk.arg == "classes" for kk in c.keywords)
        if not has:
            # `fit_kwargs["classes"] = ...` dominating the call in the same branch
            blk = ftree.block_of.get(st)
            cur = st
            while not has and cur is not None:
                blk = ftree.block_of.get(cur)
                if blk is None:
                    break
                owner_, field_, idx_ = blk
                for prev in getattr(owner_, field_)[:idx_]:
                    if isinstance(prev, ast.Assign) and isinstance(prev.targets[0], ast.Subscript) \
                            and isinstance(prev.targets[0].slice, ast.Constant) and prev.targets[0].slice.value == "classes":
                        has = True
                if isinstance(owner_, ast.FunctionDef):
                    break
                cur = owner_
        report.add(rule, fit.qual, f"`{norm_stmt(c, 50)}` tells the estimator all classes", f"{fit.file}:{c.lineno}", has,
                   detail="classes passed" if has else
                   "partial_fit of the wrapped estimator is called without `classes` on this path: scikit-learn raises on the first "
                   "call, the wrapper swallows it and keeps predicting from the label frequencies")
    # cold-start frequencies are float
    for ci in p.classes.values():
        if "/tests/" in ci.file or not p.is_subclass(ci, "ClassFrequencyEstimator"):
            continue
        f = ci.methods.get("predict_freq")
        if f is None:
            continue
        for r in ast.walk(f.node):
            if isinstance(r, ast.Return) and isinstance(r.value, ast.Call) and (c01.callname(r.value) or "").split(".")[-1] in ("full", "full_like"):
                fill = r.value.args[1] if len(r.value.args) > 1 else None
                dt = any(kk.arg == "dtype" for kk in r.value.keywords)
                okf = dt or (isinstance(fill, ast.Constant) and isinstance(fill.value, float))
                report.add(rule, f.qual, f"`{norm_stmt(r, 50)}` is a float array", f"{f.file}:{r.lineno}", okf,
                           detail="float fill / explicit dtype" if okf else
                           "np.full takes its dtype from the fill value: an integer fill gives an integer frequency array and the "
                           "in-place normalisation of predict_proba raises")


def check_member_classes(p, report, rule):
    from ..paths import MustAnalysis, Const
    f = p.get_method("AnnotatorEnsembleClassifier", "fit")
    if f is None:
        raise AnalysisError("AnnotatorEnsembleClassifier.fit vanished")

    class Members(MustAnalysis):
        def __init__(self, fnode):
            super().__init__(fnode)
            self.sites = {}

        def gen(self, stmt):
            if isinstance(stmt, ast.Expr) and isinstance(stmt.value, ast.Call) and isinstance(stmt.value.func, ast.Attribute) \
                    and stmt.value.func.attr == "set_params" and any(k.arg == "classes" for k in stmt.value.keywords):
                return ("cls:" + ast.unparse(stmt.value.func.value),)
            return ()

        def use(self, expr, state, stmt):
            for c in ast.walk(expr):
                if isinstance(c, ast.Call) and isinstance(c.func, ast.Attribute) and c.func.attr in ("fit", "partial_fit") \
                        and not (isinstance(c.func.value, ast.Name) and c.func.value.id == "self") \
                        and not (isinstance(c.func.value, ast.Call)):
                    r = ast.unparse(c.func.value)
                    key = r + ".classes"
                    has = ("cls:" + r) in state.tokens
                    not_none = Const(None) in state.facts.excluded.get(key, frozenset())
                    rec = self.sites.setdefault(id(c), [c, True, ""])
                    if not has and not not_none:
                        rec[1] = False
                        from ..paths import describe
                        rec[2] = describe(state.facts)
    m = Members(_it(f.node)).run()
    for c, ok, why in m.sites.values():
        report.add(rule, f.qual, f"`{norm_stmt(c, 60)}` fits a member that knows all classes", f"{f.file}:{c.lineno}", ok,
                   detail="classes handed over or already set on every path" if ok else
                   f"on the path where {why or 'always'} the member's classes may be None and no set_params(classes=...) "
                   f"was executed: the member infers its classes from the labels of one annotator")
    if not m.sites:
        raise AnalysisError("AnnotatorEnsembleClassifier.fit: no member fit found")


def run(p, report, tier):
    report.rule("R11.1", "in every predict of a project classifier a class *index* (result of rand_argmin/argmin/"
                "argmax over costs or probabilities, choice over arange(len(classes_))) passes through "
                "_le.inverse_transform or classes_[.] before it is returned, on every path", floor=2)
    report.rule("R11.2", "every predict_proba of a project classifier returns, on every path, a value that passed a "
                "row normaliser (division by its own row sum with keepdims/newaxis, softmax, a uniform constant "
                "1/len(classes_), np.tile(counts/sum)) or the wrapped estimator's own predict_proba; the zero-row "
                "fallback of ClassFrequencyEstimator.predict_proba is present", floor=5)
    report.rule("R11.3", "the cost matrix is permuted on both axes by the same argsort(classes)", floor=1)
    report.rule("R11.4", "SklearnClassifier.predict_proba writes the estimator's columns at "
                "searchsorted(classes_, estimator_.classes_[...])", floor=1)
    report.rule("R11.5", "in predict / predict_proba / predict_freq a raw constructor parameter that has a validated "
                "counterpart <p>_ (cost_matrix_, classes_, class_prior_, ...) is used only introspectively (is None, "
                "isinstance, signature, messages), never as an operand of the decision", floor=5)
    report.rule("R1.7", "definite assignment in predict / predict_proba / predict_freq of all classifiers", floor=10)
    classes = classifier_classes(p)
    if len(classes) < 7:
        raise AnalysisError(f"C11: only {len(classes)} classifier classes found")
    report.analysed["classes"] = [c.name for c in classes]
    # ---------------- R11.1
    check_index_decoded(p, report, classes, "R11.1")
    # ---------------- R11.2
    seen = set()
    for ci in classes:
        f = p.find_method(ci, "predict_proba")
        if f is None or is_abstract(f) or id(f.node) in seen:
            continue
        seen.add(id(f.node))
        if all(isinstance(s, (ast.Raise, ast.Expr)) for s in f.node.body):
            continue  # abstract-by-convention
        ent = f.qual
        nf = _NormFlow(f.node).run()
        for (ret, why, facts) in nf.bad:
            report.add("R11.2", ent, f"`{norm_stmt(ret, 60)}`", f"{f.file}:{ret.lineno}", False,
                       detail=f"{why} on the path where: {describe(facts) or 'always'}")
        if not nf.bad:
            report.add("R11.2", ent, "every return path yields a row-normalised array", f"{f.file}:{f.node.lineno}",
                       nf.n_returns > 0, detail=f"{nf.n_returns} return path(s)")
    # zero-row fallback
    cfe = p.get_method("ClassFrequencyEstimator", "predict_proba")
    fb = False
    for n in ast.walk(cfe.node):
        if isinstance(n, ast.Assign) and any(isinstance(t, ast.Subscript) and "== 0" in ast.unparse(t.slice) for t in n.targets) \
                and "len(self.classes_)" in ast.unparse(n.value):
            fb = True
    report.add("R11.2", cfe.qual, "uniform fallback for rows with zero frequency", f"{cfe.file}:{cfe.node.lineno}", fb,
               detail="rows with normalizer == 0 are set to 1/len(classes_)" if fb else "zero-row fallback missing")
    # ---------------- R11.3
    vd = p.get_class("SkactivemlClassifier").methods["_validate_data"]
    idx_names = set()
    for n in ast.walk(vd.node):
        if isinstance(n, ast.Assign) and isinstance(n.value, ast.Call) and c01.callname(n.value) == "argsort" \
                and "self.classes" in ast.unparse(n.value):
            idx_names |= {t.id for t in n.targets if isinstance(t, ast.Name)}
    rows = cols = None
    for n in ast.walk(vd.node):
        if isinstance(n, ast.Assign) and isinstance(n.value, ast.Subscript) and "cost_matrix_" in ast.unparse(n.value.value) \
                and "cost_matrix_" in ast.unparse(n.targets[0]):
            sl = n.value.slice
            if isinstance(sl, ast.Name) and sl.id in idx_names:
                rows = sl.id
            if isinstance(sl, ast.Tuple) and len(sl.elts) == 2 and isinstance(sl.elts[0], ast.Slice) \
                    and isinstance(sl.elts[1], ast.Name) and sl.elts[1].id in idx_names:
                cols = sl.elts[1].id
    ok = rows is not None and cols is not None and rows == cols
    report.add("R11.3", vd.qual, "cost_matrix_ permuted on rows and columns by argsort(classes)", f"{vd.file}:{vd.node.lineno}",
               ok, detail=f"rows by `{rows}`, columns by `{cols}`")
    # ---------------- R11.4
    sp = p.get_class("SklearnClassifier").methods["predict_proba"]
    okm = False
    why = "no column scatter found"
    from ..astutil import inline_temporaries
    spn = inline_temporaries(sp.node)
    for n in ast.walk(spn):
        if isinstance(n, ast.Assign) and isinstance(n.targets[0], ast.Subscript):
            sl = n.targets[0].slice
            if isinstance(sl, ast.Tuple) and len(sl.elts) == 2 and isinstance(sl.elts[1], ast.Name):
                col = sl.elts[1].id
                for d in ast.walk(spn):
                    if isinstance(d, ast.Assign) and any(isinstance(t, ast.Name) and t.id == col for t in d.targets):
                        txt = ast.unparse(d.value)
                        if "searchsorted" in txt and "self.classes_" in txt and "estimator_.classes_" in txt:
                            okm = True
                            why = f"columns `{col}` = {txt[:70]}"
    report.add("R11.4", sp.qual, "estimator columns re-mapped onto classes_", f"{sp.file}:{sp.node.lineno}", okm, detail=why)
    # ---------------- R11.5 validated counterparts
    seen = set()
    for ci in classes:
        stored = set()
        for k in p.mro(ci):
            if isinstance(k, ClassInfo):
                for m in k.methods.values():
                    for n in ast.walk(m.node):
                        if isinstance(n, ast.Attribute) and isinstance(n.ctx, ast.Store) and isinstance(n.value, ast.Name) \
                                and n.value.id == "self":
                            stored.add(n.attr)
        params = {a for a in p.init_stored_attrs(ci) if a + "_" in stored}
        for mname in ("predict", "predict_proba", "predict_freq"):
            f = p.find_method(ci, mname)
            if f is None or id(f.node) in seen or is_abstract(f):
                continue
            seen.add(id(f.node))
            pm = {}
            for n in ast.walk(f.node):
                for ch in ast.iter_child_nodes(n):
                    pm[ch] = n
            bad = []
            nuse = 0
            for n in ast.walk(f.node):
                if isinstance(n, ast.Attribute) and isinstance(n.value, ast.Name) and n.value.id == "self" \
                        and n.attr in params and isinstance(n.ctx, ast.Load):
                    nuse += 1
                    if not _introspective_use(n, pm):
                        bad.append(n)
            report.add("R11.5", f.qual, "raw parameters with a validated counterpart are not used as operands",
                       f"{f.file}:{f.node.lineno}", not bad,
                       detail=f"{nuse} introspective use(s) only" if not bad else
                       "; ".join(f"self.{b.attr} used at line {b.lineno} instead of self.{b.attr}_ (validated / permuted to the order of classes_)" for b in bad),
                       nontrivial=nuse > 0)
    # ---------------- definite assignment
    seen = set()
    for ci in classes:
        for m in ("predict", "predict_proba", "predict_freq", "fit", "partial_fit", "_fit"):
            f = p.find_method(ci, m)
            if f is None or id(f.node) in seen or is_abstract(f):
                continue
            seen.add(id(f.node))
            da = DefiniteAssignment(_it(f.node)).run()
            reports = dict(da.reports)
            exc = None
            for nm in list(reports):
                # keyed by file + canonical binding statements (independent of local / function names)
                if (f.file, c01.binding_key(f.node, nm)) == (
                        "skactiveml/classifier/multiannotator/_annotator_ensemble_classifier.py",
                        ("v1 /= np.sum(v1, axis=1, keepdims=True)", "v1 = np.array([v2.predict_proba(v3) for v4, v2 in self.estimators_])",
                         "v1 = np.sum(v1, axis=0)", "v1 = v2 / np.sum(v2, axis=1, keepdims=True)")):
                    exc = "voting is validated to 'soft'/'hard' in fit and check_is_fitted dominates"
                    reports.pop(nm)
            report.add("R1.7", f.qual, "all locals bound before use", f"{f.file}:{f.node.lineno}", not reports,
                       detail=("; ".join(f"{k} unbound" for k in reports)) or (("infeasible residual: " + exc) if exc else ""))
    # ---------------- R11.6 / R11.7 shared structural premises of "most probable class" and "uniform without labels"
    report.rule("R11.6", "predict returns exact optimisers only: rand_argmin / rand_argmax mask with equality to the "
                "NaN-aware optimum, not with a tolerance (shared with C18 R18.1)", floor=4)
    from . import c18, c13_fit
    c18.check_argmax_primitives(p, report, "R11.6")
    report.rule("R11.7", "every classifier's fit computes what predict_proba later reads from its arguments: no fitted "
                "attribute (weights of an earlier fit, also through getattr) is read before it is stored in the same "
                "fit - otherwise a refit without labels keeps the old model instead of the uniform one "
                "(shared with C13 R13.2)", floor=5)
    c13_fit.check_fit_recomputes(p, report, [(ci, p.find_method(ci, "fit")) for ci in classes
                                             if p.find_method(ci, "fit") is not None and not is_abstract(p.find_method(ci, "fit"))],
                                 "R11.7", skip_attrs=("n_features_in_",))
    # ---------------- R11.8 one count per declared class
    report.rule("R11.8", "label counts that back the fallback probabilities have one entry per class of classes_: built "
                "over range(len(classes_)) or by np.bincount with minlength=len(classes_)", floor=1)
    n118 = 0
    for ci in classes:
        for m in ci.methods.values():
            for st in ast.walk(m.node):
                if isinstance(st, ast.Assign) and any(isinstance(t, ast.Attribute) and t.attr == "_label_counts" for t in st.targets):
                    v = st.value
                    verdict = None
                    if isinstance(v, ast.ListComp) and len(v.generators) == 1:
                        it_ = ast.unparse(v.generators[0].iter).replace(" ", "")
                        verdict = it_.startswith("range(len(") and "classes_" in it_
                    elif isinstance(v, ast.Call) and c01.callname(v) == "bincount":
                        ml = [k.value for k in v.keywords if k.arg == "minlength"] + list(v.args[2:3])
                        verdict = bool(ml) and "classes_" in ast.unparse(ml[0])
                    if verdict is None:
                        continue
                    n118 += 1
                    report.add("R11.8", m.qual, f"`{norm_stmt(st, 70)}` has one entry per class", f"{m.file}:{st.lineno}", verdict,
                               detail="sized by len(classes_)" if verdict else
                               "the counts are only as long as the largest observed class index + 1: predict_proba of the "
                               "fallback has fewer columns than classes_ whenever the last classes were not observed")
    report.rule("R11.10", "every member of the annotator ensemble is fitted on the ensemble's class set: on each path "
                "to `member.fit(...)` on which the member's own `classes` may still be None, "
                "`member.set_params(classes=...)` has been executed (otherwise a member that has not seen every "
                "class returns fewer probability columns than classes_)", floor=2)
    check_member_classes(p, report, "R11.10")
    report.rule("R11.11", "what the wrapped estimator reports is handed on only after the NaN check: in "
                "SklearnClassifier.predict_proba every return of (a re-mapping of) `estimator_.predict_proba(...)` sits "
                "under a test that contains `isnan` of the returned value (else the label-frequency fallback is skipped "
                "and rows of NaN leave the method); a weighted and an unweighted partial_fit hand the same `classes` "
                "to the estimator; the cold-start frequencies are a float array", floor=3)
    check_wrapper_guards(p, report, "R11.11")
    report.rule("R11.9", "the vote counts every frequency-based classifier builds its probabilities on are finite and "
                "non-negative: compute_vote_vectors zeroes the weights at missing labels AND at NaN confidences before "
                "they are summed (shared with C17 R17.2)", floor=4)
    from . import c17 as _c17
    _c17.check_vote_weights(p, c01.Report_proxy(report, {"R17.2": "R11.9"}))
    # ---------------- round 6
    report.rule("R11.12", "the model always belongs to the data the classifier currently holds: every return of fit / partial_fit "
                "of the wrapper classifiers is, or is dominated by, the call of self._fit (a shortcut that returns after the "
                "window was moved but before the refit leaves the model of samples that were already evicted: no labels in the "
                "window, yet non-uniform probabilities)", floor=4)
    from ..astutil import FuncTree as _FT, dominates as _dom
    for ci in classes:
        if not ci.file.endswith("classifier/_wrapper.py") or "_fit" not in ci.methods:
            continue
        for mn in ("fit", "partial_fit"):
            f = ci.methods.get(mn)
            if f is None:
                continue
            tree = _FT(f.node)
            fits = [tree.stmt_of(c) for c in ast.walk(f.node) if isinstance(c, ast.Call) and isinstance(c.func, ast.Attribute)
                    and c.func.attr == "_fit" and isinstance(c.func.value, ast.Name) and c.func.value.id == "self"]
            for r in ast.walk(f.node):
                if not isinstance(r, ast.Return):
                    continue
                ok = any(st is r or _dom(tree, st, r) for st in fits)
                report.add("R11.12", f.qual, f"`{norm_stmt(r, 50)}` comes after the refit", f"{f.file}:{r.lineno}", ok,
                           detail="self._fit(...) on every path to this return" if ok else
                           "this return is reached without self._fit: the training window / data was (or may have been) changed, "
                           "the wrapped model was not")
    report.rule("R11.15", "every classifier decides under its cost matrix: `predict` of a concrete classifier resolves to "
                "SkactivemlClassifier.predict (arg-min of expected cost), or to an override that reads the cost matrix, or to a "
                "pure delegation (every return is super().predict(...) / estimator_.predict(...)); an override that returns its "
                "own decision (e.g. a majority vote) ignores a configured cost matrix", floor=4)
    for ci in classes:
        f = p.find_method(ci, "predict")
        if f is None or is_abstract(f):
            continue
        base_impl = f.cls is not None and f.cls.name == "SkactivemlClassifier"
        if base_impl:
            report.add("R11.15", ci.name, "predict is the cost-sensitive base implementation", f"{f.file}:{f.node.lineno}", True,
                       detail="SkactivemlClassifier.predict", nontrivial=False)
            continue
        txt = ast.unparse(f.node)
        reads_cost = "cost_matrix" in txt
        rets = [r for r in ast.walk(f.node) if isinstance(r, ast.Return) and r.value is not None]
        def _deleg(v):
            return isinstance(v, ast.Call) and isinstance(v.func, ast.Attribute) and v.func.attr == "predict" and (
                (isinstance(v.func.value, ast.Call) and isinstance(v.func.value.func, ast.Name) and v.func.value.func.id == "super")
                or "estimator_" in ast.unparse(v.func.value))
        own = [r for r in rets if not _deleg(r.value)]
        ok = reads_cost or not own
        report.add("R11.15", ci.name, f"predict override in {f.cls.name if f.cls else '?'} decides under the cost matrix",
                   f"{f.file}:{(own[0] if own and not ok else f.node).lineno}", ok,
                   detail="reads the cost matrix" if reads_cost else ("pure delegation" if ok else
                   f"`{norm_stmt(own[0], 50)}` returns a decision of its own and the override never reads the cost matrix: with a "
                   f"non-default cost_matrix the returned class does not minimise the expected cost"))
    report.rule("R11.13", "decisions minimise the expected cost under the CONFIGURED cost matrix: check_cost_matrix returns the "
                "matrix it validated - every binding of the returned array is a validation / conversion call (check_array, "
                "np.asarray ...), never arithmetic on it", floor=1)
    ccm = None
    for f in p.all_functions():
        if f.name == "check_cost_matrix" and f.file.endswith("utils/_validation.py"):
            ccm = f
    if ccm is None:
        raise AnalysisError("check_cost_matrix vanished")
    rn = {r.value.id for r in ast.walk(ccm.node) if isinstance(r, ast.Return) and isinstance(r.value, ast.Name)}
    for nm in sorted(rn):
        binds = [a for a in ast.walk(ccm.node) if isinstance(a, (ast.Assign, ast.AugAssign))
                 and any((isinstance(t, ast.Name) and t.id == nm) or (isinstance(t, ast.Subscript) and isinstance(t.value, ast.Name) and t.value.id == nm)
                         for t in (a.targets if isinstance(a, ast.Assign) else [a.target]))]
        bad = [a for a in binds if isinstance(a, ast.AugAssign) or isinstance(a.targets[0], ast.Subscript) or not (
            isinstance(a.value, ast.Call) and (c01.callname(a.value) or "") in ("check_array", "asarray", "array", "column_or_1d", "copy", "astype"))]
        report.add("R11.13", ccm.qual, f"`{nm}` is returned as validated", f"{ccm.file}:{(bad[0] if bad else ccm.node).lineno}", not bad,
                   detail=f"{len(binds)} binding(s): conversions only" if not bad else
                   f"`{norm_stmt(bad[0], 60)}` changes the values of the cost matrix inside its validator: every classifier then "
                   f"decides under another matrix than the one the user configured")
    report.rule("R11.14", "what SlidingWindowClassifier forwards to its wrapped classifier through __getattr__ it does not keep "
                "itself: no method of it stores one of the label attributes the wrapped classifier's validation defines "
                "(classes_, _le, cost_matrix_) - a stored copy shadows the forwarding, and classes_ then disagrees with the "
                "columns of predict_proba", floor=1)
    swc = p.get_class("SlidingWindowClassifier")
    base_vd = p.get_method("SkactivemlClassifier", "_validate_data")
    if swc is None or base_vd is None or "__getattr__" not in swc.methods:
        raise AnalysisError("SlidingWindowClassifier / its __getattr__ forwarding vanished")
    def _stored(fn):
        return {t.attr for a in ast.walk(fn.node) if isinstance(a, ast.Assign) for t in a.targets
                if isinstance(t, ast.Attribute) and isinstance(t.value, ast.Name) and t.value.id == "self"}
    label_attrs = {a for a in _stored(base_vd) if a in ("classes_", "_le", "cost_matrix_", "class_prior_")}
    hit = []
    for mn, f in sorted(swc.methods.items()):
        for a in sorted(_stored(f) & label_attrs):
            hit.append((f, a))
    report.add("R11.14", swc.name, "forwarded label attributes are not stored on the wrapper",
               f"{swc.file}:{(hit[0][0].node.lineno if hit else 1)}", not hit,
               detail=f"forwarded: {sorted(label_attrs)}" if not hit else
               f"{hit[0][0].qual} stores self.{hit[0][1]}: attribute lookup finds it before __getattr__ forwards to the wrapped "
               f"classifier, whose own value (the classes it was actually fitted with) is what predict_proba's columns follow")
    report.assumptions += ["finiteness, non-negativity and row sums equal to one as numbers are not decided",
                           "the wrapped estimator's predict returns class labels and its predict_proba is row-normalised"]


def _introspective_use(node, pm):
    """`self.p is None`, isinstance/hasattr/inspect.signature/has_fit_parameter
    arguments and message formatting do not compute with the value."""
    n = node
    while n in pm:
        par = pm[n]
        if isinstance(par, ast.Compare) and any(isinstance(c, ast.Constant) and c.value is None
                                                for c in [par.left] + par.comparators):
            return True
        if isinstance(par, (ast.JoinedStr, ast.FormattedValue)):
            return True
        if isinstance(par, ast.Call):
            fn = c01.callname(par)
            if fn in ("isinstance", "hasattr", "signature", "has_fit_parameter", "check_is_fitted", "format",
                      "is_classifier", "is_regressor", "getattr", "callable", "type"):
                return True
            if not (isinstance(n, ast.Attribute) and par.func is n):
                return False
        if isinstance(par, ast.stmt):
            return False
        n = par
    return False


class _IdxFlow(MustAnalysis):
    """Disjunctive per-path state: token 'idx:<v>' = v holds a class index on
    this path.  Paths with different idx-sets are kept apart by encoding the
    set in the facts (see _apply)."""

    def __init__(self, fnode):
        super().__init__(fnode)
        self.bad = []
        self._df = DecodeFlow(fnode)

    def transfer(self, stmt, tokens):
        return self._df.transfer(stmt, tokens)

    def _apply(self, stmt, states, pseudo=None):
        out = super()._apply(stmt, states, pseudo)
        # keep paths with different index-status apart: mirror idx tokens in facts
        res = []
        for s in out:
            f = s.facts.copy()
            for k in [k for k in f.b if k.startswith("$idx:")]:
                del f.b[k]
            for t in s.tokens:
                if isinstance(t, str) and t.startswith("idx:"):
                    f.b["$" + t] = True
            res.append(type(s)(f, s.tokens))
        return res

    def use(self, expr, state, stmt):
        if isinstance(stmt, ast.Return) and stmt.value is expr:
            v = expr
            if isinstance(v, ast.Name) and f"idx:{v.id}" in state.tokens:
                self.bad.append((stmt, v.id, state.facts))
            elif is_index_source(v):
                self.bad.append((stmt, ast.unparse(v)[:40], state.facts))


def _is_norm_expr(e, tokens):
    """Is e a row-normalised array expression?"""
    if isinstance(e, ast.Name):
        return f"norm:{e.id}" in tokens
    if isinstance(e, ast.Call):
        n = c01.callname(e)
        if n == "softmax":
            return True
        if n == "predict_proba":
            return True  # delegation to the wrapped estimator / super()
        if n == "tile" and e.args:
            return _is_norm_expr(e.args[0], tokens) or _is_div_by_own_sum(e.args[0], tokens, need_axis=False)
        if n in ("full", "full_like"):
            fill = e.args[1] if len(e.args) > 1 else None
            for k in e.keywords:
                if k.arg == "fill_value":
                    fill = k.value
            return fill is not None and _is_uniform(fill)
    if isinstance(e, ast.BinOp) and isinstance(e.op, ast.Div):
        if _is_div_by_own_sum(e, tokens):
            return True
        # np.ones(shape) / len(self.classes_)
        if isinstance(e.left, ast.Call) and c01.callname(e.left) == "ones" and "len(self.classes_)" in ast.unparse(e.right):
            return True
    return False


def _is_uniform(e):
    txt = ast.unparse(e).replace(" ", "")
    return txt in ("1/len(self.classes_)", "1.0/len(self.classes_)")


def _is_div_by_own_sum(e, tokens, need_axis=True):
    if not (isinstance(e, ast.BinOp) and isinstance(e.op, ast.Div)):
        return False
    num, den = e.left, e.right
    # the row sum (axis 1, kept) was bound to a name first
    if isinstance(den, ast.Name) and f"rowsum:{den.id}:{ast.unparse(num)}" in tokens:
        return True
    return _is_row_sum_of(den, num, need_axis)


def _row_axis(call, wrapped_newaxis):
    ax = None
    keep = False
    for k in call.keywords:
        if k.arg == "axis":
            ax = ast.unparse(k.value)
        if k.arg == "keepdims" and isinstance(k.value, ast.Constant) and k.value.value is True:
            keep = True
    return ax in ("1", "-1") and (keep or wrapped_newaxis)


def _is_row_sum_of(den, num, need_axis=True):
    """den == sum(num, axis=1|-1, keepdims=True)  |  num.sum(...)  |
    np.sum(num) for 1-d counts."""
    d = den
    # normalizer[:, np.newaxis]
    newaxis = False
    if isinstance(d, ast.Subscript):
        newaxis = "newaxis" in ast.unparse(d.slice) or "None" in ast.unparse(d.slice)
        d = d.value
    if isinstance(d, ast.Call):
        if need_axis and not _row_axis(d, newaxis):
            return False
        n = c01.callname(d)
        if n in ("sum", "nansum"):
            arg = d.args[0] if d.args else (d.func.value if isinstance(d.func, ast.Attribute) else None)
            if isinstance(d.func, ast.Attribute) and not d.args and not isinstance(d.func.value, ast.Name):
                arg = d.func.value
            if isinstance(d.func, ast.Attribute) and isinstance(d.func.value, ast.Name) and d.func.value.id not in ("np", "numpy"):
                arg = d.func.value
            if arg is not None and ast.unparse(arg) == ast.unparse(num):
                return True
    return False


class _NormFlow(MustAnalysis):
    def __init__(self, fnode):
        super().__init__(fnode)
        self.bad = []
        self.n_returns = 0
        self.sums = {}  # name -> expr it is the row sum of

    def transfer(self, stmt, tokens):
        tk = set(tokens)
        if isinstance(stmt, ast.Assign) and len(stmt.targets) == 1:
            t = stmt.targets[0]
            e = stmt.value
            if isinstance(t, ast.Name):
                v = t.id
                tk.add(f"def:{v}")
                tk.discard(f"norm:{v}")
                tk.discard(f"part:{v}")
                tk.discard(f"zeros:{v}")
                for x in [x for x in tk if isinstance(x, str) and x.startswith("rowsum:")
                          and (x.startswith(f"rowsum:{v}:") or x.endswith(f":{v}"))]:
                    tk.discard(x)
                if _is_norm_expr(e, tokens):
                    tk.add(f"norm:{v}")
                elif isinstance(e, ast.Call) and c01.callname(e) == "zeros":
                    tk.add(f"zeros:{v}")
                elif isinstance(e, ast.Call) and c01.callname(e) in ("sum", "nansum") and e.args:
                    self.sums[v] = ast.unparse(e.args[0])
                    if _row_axis(e, False):
                        tk.add(f"rowsum:{v}:{ast.unparse(e.args[0])}")
                elif isinstance(e, ast.Call) and c01.callname(e) in ("sum",) and isinstance(e.func, ast.Attribute):
                    self.sums[v] = ast.unparse(e.func.value)
                return tk
            if isinstance(t, ast.Subscript):
                b = base_name(t)
                # scatter of a normalised array (or the constant 1 for a single
                # column) into a zero matrix keeps rows normalised
                if b and f"zeros:{b}" in tokens:
                    vals = [e.body, e.orelse] if isinstance(e, ast.IfExp) else [e]
                    if all((isinstance(x, ast.Constant) and x.value == 1) or _is_norm_expr(x, tokens) for x in vals):
                        tk.discard(f"zeros:{b}")
                        tk.add(f"norm:{b}")
                        return tk
                # P[normalizer == 0, :] = [1/len(classes_)] * len(classes_)
                if b and f"part:{b}" in tokens and "== 0" in ast.unparse(t.slice):
                    tk.discard(f"part:{b}")
                    tk.add(f"norm:{b}")
                    return tk
        if isinstance(stmt, ast.AugAssign) and isinstance(stmt.op, ast.Div):
            t = stmt.target
            b = base_name(t)
            den = stmt.value
            d = den.value if isinstance(den, ast.Subscript) else den
            own = False
            if isinstance(d, ast.Name) and b and self.sums.get(d.id) == b:
                own = True
            if isinstance(t, ast.Name) and _is_row_sum_of(den, t):
                own = True
            if own and b:
                if isinstance(t, ast.Name):
                    tk.add(f"norm:{b}")
                else:
                    tk.add(f"part:{b}")  # only the rows with a positive sum
                return tk
        return None

    def use(self, expr, state, stmt):
        if isinstance(stmt, ast.Return) and stmt.value is expr:
            self.n_returns += 1
            if isinstance(expr, ast.Name) and f"def:{expr.id}" not in state.tokens:
                return  # unbound on this path: R1.7 decides it
            if not _is_norm_expr(expr, state.tokens):
                why = "returned value did not pass a row normaliser"
                if isinstance(expr, ast.Name) and f"part:{expr.id}" in state.tokens:
                    why = "rows with zero sum are left unnormalised (fallback missing)"
                self.bad.append((stmt, why, state.facts))
