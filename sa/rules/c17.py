"""C17 - annotation aggregation equals counting (must-write / dominance)."""
import ast
from ..astutil import inline_temporaries as _it

from ..astutil import FuncTree, dominates, inline_temporaries
from ..common import norm_stmt, site_id
from ..deps import names_in, base_name, index_names, dep_edges, closure, forward_closure
from ..index import AnalysisError
from ..paths import MustAnalysis, DefiniteAssignment, describe, local_names
from . import c01


class MustStoreRow(MustAnalysis):
    """Token 'row' = the output slice R[loopvar] was stored in this iteration."""

    def __init__(self, fnode, loop, rname, loopvar):
        super().__init__(fnode)
        self.loop = loop
        self.rname = rname
        self.loopvar = loopvar
        self.missing = []
        # names whose value is written into the row somewhere in the loop (cm)
        self.sources = set()
        for n in ast.walk(loop):
            if isinstance(n, ast.Assign) and any(isinstance(t, ast.Subscript) and base_name(t) == rname for t in n.targets):
                if any(isinstance(c, ast.Call) and c01.callname(c) == "confusion_matrix" for c in ast.walk(n.value)):
                    continue    # the counts are stored where they are computed
                v = n.value
                while isinstance(v, ast.Call) and v.args:
                    v = v.args[0]           # nan_to_num(cm, ...) -> cm
                self.sources |= {x.id for x in ast.walk(v) if isinstance(x, ast.Name)}
        self.sources -= {rname, loopvar, "np"}

    def gen(self, stmt):
        out = ()
        if isinstance(stmt, ast.Assign):
            # 'src': the matrix that is to be stored for this annotator has been computed (by counting or as
            # the zero matrix) - from then on the path owes a store of the row
            if any(isinstance(t, ast.Name) and t.id in self.sources for t in stmt.targets):
                out += ("counted",)
            for t in stmt.targets:
                if isinstance(t, ast.Subscript) and base_name(t) == self.rname:
                    idx = t.slice.elts[0] if isinstance(t.slice, ast.Tuple) and t.slice.elts else t.slice
                    if isinstance(idx, ast.Name) and idx.id == self.loopvar:
                        out += ("row",)
        return out

    def loop_iter_kill(self, loop):
        return ("row", "counted") if loop is self.loop else ()

    def on_loop_body_exit(self, loop, states_in, states_out):
        if loop is not self.loop:
            return
        # the result array is created zero-filled: an annotator without labels keeps the zero
        # matrix; whenever the counts WERE computed they have to be stored
        self.missing = [s for s in states_out if "counted" in s.tokens and "row" not in s.tokens]


def check_normalisation_axes(p, report, rule):
    """Axis sites: a `.sum(...)` over the counted matrix with a literal axis (or none), or - when the axis is a
    name - every assignment of a literal to that name.  At each site the value set of `normalize` on the paths
    reaching it (path facts) must agree with the axis: for the 2-d matrix of one annotator true -> 1, pred -> 0,
    all -> no axis; for the stacked 3-d result true -> 2, pred -> 1, all -> (1, 2)."""
    mod = p.modules["skactiveml.utils._multi_annot"]
    EXPECT = {2: {"true": "1", "pred": "0", "all": None}, 3: {"true": "2", "pred": "1", "all": "(1,2)"}}
    n = 0
    for fn in mod.functions.values():
        pname = next((a for a in fn.all_param_names() if a == "normalize"), None)
        if pname is None:
            continue
        stacked = {t.id for x in ast.walk(fn.node) if isinstance(x, ast.Assign) and isinstance(x.value, ast.Call)
                   and c01.callname(x.value) in ("zeros", "np.zeros", "empty", "np.empty") and x.value.args
                   and isinstance(x.value.args[0], ast.Tuple) and len(x.value.args[0].elts) == 3
                   for t in x.targets if isinstance(t, ast.Name)}
        sites = []     # (stmt, axis text or None, dim, shown)
        for st in ast.walk(fn.node):
            if not isinstance(st, (ast.Assign, ast.Return, ast.AugAssign, ast.Expr)):
                continue
            for c in ast.walk(st):
                if not (isinstance(c, ast.Call) and isinstance(c.func, ast.Attribute) and c.func.attr == "sum"):
                    continue
                opnd = c.func.value if not (isinstance(c.func.value, ast.Name) and c.func.value.id in ("np", "numpy")) else (
                    c.args[0] if c.args else None)
                if not isinstance(opnd, ast.Name):
                    continue
                # only divisors: the sum is divided into the same operand somewhere
                dim = 3 if opnd.id in stacked else 2
                axk = next((k.value for k in c.keywords if k.arg == "axis"), None)
                if isinstance(axk, ast.Name):
                    for d in ast.walk(fn.node):
                        if isinstance(d, ast.Assign):
                            for t in d.targets:
                                if isinstance(t, ast.Name) and t.id == axk.id:
                                    sites.append((d, ast.unparse(d.value).replace(" ", ""), dim, norm_stmt(d, 50)))
                                elif isinstance(t, ast.Tuple) and isinstance(d.value, ast.Tuple):
                                    for te, ve in zip(t.elts, d.value.elts):
                                        if isinstance(te, ast.Name) and te.id == axk.id:
                                            sites.append((d, ast.unparse(ve).replace(" ", ""), dim, norm_stmt(d, 50)))
                else:
                    sites.append((st, ast.unparse(axk).replace(" ", "") if axk is not None else None, dim, norm_stmt(c, 50)))
        # keep the sums that are used as divisors of a normalisation (directly or through a name)
        divisors = set()
        for x in ast.walk(fn.node):
            if isinstance(x, ast.BinOp) and isinstance(x.op, ast.Div):
                divisors |= {id(c) for c in ast.walk(x.right)} | {nm for nm in names_in(x.right)}
        keep = []
        for (st, ax, dim, shown) in sites:
            used = any(id(c) in divisors for c in ast.walk(st)) or any(
                isinstance(t, ast.Name) and t.id in divisors for t in (st.targets if isinstance(st, ast.Assign) else [])) or any(
                isinstance(t, ast.Tuple) for t in (st.targets if isinstance(st, ast.Assign) else []))
            if used:
                keep.append((st, ax, dim, shown))
        if not keep:
            continue
        site_ids = {id(st) for st, _, _, _ in keep}

        class Modes(MustAnalysis):
            def __init__(self, fnode):
                super().__init__(fnode)
                self.seen = {}

            def _apply(self, stmt, states, pseudo=None):
                if pseudo is None and id(stmt) in site_ids:
                    for st_ in states:
                        self.seen.setdefault(id(stmt), []).append(st_.facts)
                return super()._apply(stmt, states, pseudo)

            def stmt(self, s_, states):
                if isinstance(s_, ast.Return) and id(s_) in site_ids:
                    for st_ in states:
                        self.seen.setdefault(id(s_), []).append(st_.facts)
                return super().stmt(s_, states)
        m = Modes(fn.node).run()
        for st, ax, dim, shown in keep:
            wrong = []
            for facts in m.seen.get(id(st), []):
                allowed = facts.allowed.get(pname)
                for md in ([c.v for c in allowed] if allowed is not None else []):
                    if md in EXPECT[dim] and EXPECT[dim][md] != ax:
                        wrong.append(f"normalize={md!r} sums over axis {ax} (expected {EXPECT[dim][md]} for a {dim}-d operand)")
            n += 1
            report.add(rule, fn.qual, f"`{shown}` sums along the axis of its mode", f"{fn.file}:{st.lineno}", not wrong,
                       detail="axis agrees with every mode that reaches it" if not wrong else "; ".join(sorted(set(wrong))))
        # transposition of the counted matrix
        cms = {t.id for x in ast.walk(fn.node) if isinstance(x, ast.Assign) and isinstance(x.value, ast.Call)
               and c01.callname(x.value) == "confusion_matrix" for t in x.targets if isinstance(t, ast.Name)} | \
              ({a for a in fn.all_param_names() if a in ("cm",)})
        tr = [x for x in ast.walk(fn.node) if (isinstance(x, ast.Attribute) and x.attr == "T" and isinstance(x.value, ast.Name) and x.value.id in cms)
              or (isinstance(x, ast.Call) and c01.callname(x) in ("transpose", "np.transpose", "swapaxes") and any(
                  isinstance(a, ast.Name) and a.id in cms for a in list(x.args) + ([x.func.value] if isinstance(x.func, ast.Attribute) else [])))]
        if cms:
            n += 1
            report.add(rule, fn.qual, "the counted matrix is never transposed", f"{fn.file}:{(tr[0] if tr else fn.node).lineno}", not tr,
                       detail="orientation [true class, predicted class] kept" if not tr else
                       f"`{ast.unparse(tr[0])[:40]}` swaps true and predicted classes of the matrix that is stored")
    if n == 0:
        raise AnalysisError("ext_confusion_matrix: no normalisation site found")


ELEMENTWISE = {"transform", "asarray", "asanyarray", "array", "astype", "copy", "check_array", "column_or_1d", "float", "int"}


def _row_chain(e):
    """Strip element-wise wrappers; return (root expression text, [row selectors as text]) of `root[s1][s2]...`"""
    sels = []
    while True:
        if isinstance(e, ast.Call):
            fn = (c01.callname(e) or "").split(".")[-1]
            if fn in ELEMENTWISE:
                if isinstance(e.func, ast.Attribute) and not e.args and fn in ("astype", "copy"):
                    e = e.func.value
                    continue
                if e.args:
                    e = e.args[0]
                    continue
                if isinstance(e.func, ast.Attribute):
                    e = e.func.value
                    continue
            return None
        if isinstance(e, ast.Subscript):
            sels.append(ast.unparse(e.slice).replace(" ", ""))
            e = e.value
            continue
        if isinstance(e, (ast.Name, ast.Attribute)):
            return ast.unparse(e), list(reversed(sels))
        return None


def check_vote_rows_aligned(p, report):
    mv = None
    for f in p.all_functions():
        if f.name == "majority_vote" and f.file.endswith("utils/_aggregation.py"):
            mv = f
    if mv is None:
        raise AnalysisError("majority_vote vanished")
    node = inline_temporaries(mv.node)
    calls = [c for c in ast.walk(node) if isinstance(c, ast.Call) and c01.callname(c) == "compute_vote_vectors"]
    if not calls:
        raise AnalysisError("majority_vote no longer calls compute_vote_vectors")
    for c in calls:
        ya = c.args[0] if c.args else next((k.value for k in c.keywords if k.arg == "y"), None)
        wa = c.args[1] if len(c.args) > 1 else next((k.value for k in c.keywords if k.arg == "w"), None)
        if ya is None:
            continue
        cy = _row_chain(ya)
        cw = _row_chain(wa) if wa is not None else ("<none>", [])
        ok = cy is not None and cw is not None and (wa is None or cy[1] == cw[1])
        report.add("R17.10", mv.qual, f"`{norm_stmt(c, 60)}` gets aligned label and weight rows", f"{mv.file}:{c.lineno}", ok,
                   detail=f"rows of {cy[0]} and of {cw[0]} selected by {cy[1] or 'nothing'}" if ok else
                   f"labels are `{ast.unparse(ya)[:60]}`, weights `{ast.unparse(wa)[:60] if wa is not None else None}`: "
                   f"the two are not the same row selection of the inputs (a merge / de-duplication / re-ordering of the label "
                   f"rows gives several samples the weights of one of them, so a sample's own weights no longer decide its "
                   f"vote)")


def run(p, report, tier):
    report.rule("R17.1", "ext_confusion_matrix: on every feasible path through the per-annotator loop body on which the "
                "annotator's confusion counts are computed, the output slice conf_matrices[a] is stored (path facts "
                "include the validated value set of `normalize`); the result array is created zero-filled", floor=1)
    report.rule("R17.2", "compute_vote_vectors: the weights operand of np.bincount is zeroed at the mask of missing "
                "entries by the last store that dominates the call; the mask is computed by is_unlabeled on the "
                "encoded labels with the encoder's sentinel", floor=3)
    report.rule("R17.3", "majority_vote: the result is created filled with missing_label, written only under the mask "
                "'has at least one label' (is_labeled with the sentinel forwarded), from rand_argmax over the vote "
                "matrix decoded by inverse_transform", floor=4)
    report.rule("R1.7", "definite assignment in the aggregation utilities", floor=3)
    report.rule("R17.4", "the aggregation utilities never write into the arrays they are given (y, w, y_true, y_pred; "
                "aliases through validation helpers followed): the in-place zeroing of weights acts on a private copy",
                floor=8)
    # ---------------- R17.1
    f = p.get_func("skactiveml.utils._multi_annot", "ext_confusion_matrix")
    rets = [n for n in ast.walk(f.node) if isinstance(n, ast.Return) and isinstance(n.value, ast.Name)]
    if not rets:
        raise AnalysisError("ext_confusion_matrix: return of the result array vanished")
    rname = rets[0].value.id
    loops = [n for n in ast.walk(f.node) if isinstance(n, ast.For) and isinstance(n.target, ast.Name)
             and any(isinstance(t, ast.Subscript) and base_name(t) == rname
                     for a in ast.walk(n) if isinstance(a, ast.Assign) for t in a.targets)]
    if not loops:
        # no store into the result inside any loop at all
        report.add("R17.1", f.qual, f"`{rname}[a]` stored on every path of the per-annotator loop",
                   f"{f.file}:{f.node.lineno}", False, detail="the result array is never stored inside the loop")
    for L in loops:
        ma = MustStoreRow(f.node, L, rname, L.target.id).run()
        ok = not ma.missing
        why = "stored on every feasible path"
        if not ok:
            why = "no store on the path where: " + describe(ma.missing[0].facts)
        report.add("R17.1", f.qual, f"`{rname}[{L.target.id}]` stored on every path of `{norm_stmt(L, 50)}`",
                   f"{f.file}:{L.lineno}", ok, detail=why)
    # R17.1c: the rows of annotator a are filtered by the labeled mask of annotator a's own column
    def _col(sub):
        """column expression of `X[rows, col]` / `X[:, col]`"""
        if isinstance(sub, ast.Subscript) and isinstance(sub.slice, ast.Tuple) and len(sub.slice.elts) == 2:
            return sub.slice.elts[0], sub.slice.elts[1]
        return None, None
    for L in loops:
        for c in ast.walk(L):
            if not (isinstance(c, ast.Call) and c01.callname(c) == "confusion_matrix"):
                continue
            yp = next((k.value for k in c.keywords if k.arg == "y_pred"), c.args[1] if len(c.args) > 1 else None)
            rows, col = _col(yp)
            mcol = None
            if isinstance(rows, ast.Name):
                defs = [a for a in ast.walk(f.node) if isinstance(a, ast.Assign) and len(a.targets) == 1
                        and isinstance(a.targets[0], ast.Name) and a.targets[0].id == rows.id]
                if len(defs) == 1:
                    v = defs[0].value
                    if isinstance(v, ast.Call) and c01.callname(v) in ("is_labeled",) and v.args:
                        _, mcol = _col(v.args[0])
                    elif isinstance(v, ast.Subscript):
                        _, mcol = _col(v)
            ok = col is not None and mcol is not None and ast.unparse(col) == ast.unparse(mcol)
            report.add("R17.1", f.qual, f"rows of {site_id(c, 50)} filtered by the mask of the same annotator column",
                       f"{f.file}:{c.lineno}", ok,
                       detail=f"mask column `{ast.unparse(mcol) if mcol is not None else '?'}` == prediction column "
                              f"`{ast.unparse(col) if col is not None else '?'}`" if ok else
                       f"the mask is taken from column `{ast.unparse(mcol) if mcol is not None else '?'}` but filters the "
                       f"predictions of column `{ast.unparse(col) if col is not None else '?'}`: annotator a is counted "
                       "with the missing pattern of another column")
    # R17.1b: what is stored is the computed matrix (or a normalisation of it)
    cms = set()
    for n in ast.walk(f.node):
        if isinstance(n, ast.Assign) and isinstance(n.value, ast.Call) and c01.callname(n.value) == "confusion_matrix":
            cms |= {t.id for t in n.targets if isinstance(t, ast.Name)}
    fedges = dep_edges(f.node.body)
    for n in ast.walk(f.node):
        if isinstance(n, ast.Assign) and any(isinstance(t, ast.Subscript) and base_name(t) == rname for t in n.targets):
            back = closure(names_in(n.value), fedges)
            direct = any(isinstance(c, ast.Call) and c01.callname(c) == "confusion_matrix" for c in ast.walk(n.value))
            # a later whole-array normalisation `R = R / R.sum(...)` derives from R itself
            ok = bool(back & cms) or bool(names_in(n.value) & cms) or direct
            report.add("R17.1", f.qual, f"`{norm_stmt(n, 70)}` stores the counted matrix", f"{f.file}:{n.lineno}", ok,
                       detail="derived from sklearn's confusion_matrix of the annotator" if ok else
                       "a value that does not derive from the annotator's confusion counts is written into the result")
    # R17.5: row normalisation keeps the summed axis; weights never live in an array of the labels' dtype
    report.rule("R17.5", "a matrix divided by its own sum along axis 1 keeps that axis (keepdims=True), so every row is "
                "divided by its own total; caller-supplied weights are never stored into an array that was created with "
                "the dtype of the labels (*_like(y) without dtype)", floor=2)
    for fn in (f, p.get_func("skactiveml.utils._aggregation", "compute_vote_vectors"),
               p.get_func("skactiveml.utils._aggregation", "majority_vote")):
        for n in ast.walk(fn.node):
            if isinstance(n, ast.BinOp) and isinstance(n.op, ast.Div) and isinstance(n.right, ast.Call) \
                    and c01.callname(n.right) == "sum":
                kws = {k.arg: k.value for k in n.right.keywords}
                ax = kws.get("axis")
                if ax is None or not (isinstance(ax, ast.Constant) and ax.value in (1, -1)):
                    continue
                kd = kws.get("keepdims")
                ok = isinstance(kd, ast.Constant) and kd.value is True
                report.add("R17.5", fn.qual, f"row normalisation `{norm_stmt(n, 60)}` keeps the summed axis", f"{fn.file}:{n.lineno}", ok,
                           detail="keepdims=True" if ok else
                           "without keepdims the row sums are broadcast along the columns: entry (i, j) is divided by the "
                           "total of row j")
        like = {}
        for n in ast.walk(fn.node):
            if isinstance(n, ast.Assign) and isinstance(n.value, ast.Call) and c01.callname(n.value) in (
                    "ones_like", "zeros_like", "empty_like", "full_like") and not any(k.arg == "dtype" for k in n.value.keywords) \
                    and n.value.args and isinstance(n.value.args[0], ast.Name) and n.value.args[0].id == "y":
                for t in n.targets:
                    if isinstance(t, ast.Name):
                        like[t.id] = n
        bad = [n for n in ast.walk(fn.node) if isinstance(n, ast.Assign) and any(
            isinstance(t, ast.Subscript) and base_name(t) in like for t in n.targets) and "w" in names_in(n.value)]
        if "w" in fn.all_param_names():
            report.add("R17.5", fn.qual, "weights are not stored into an array with the labels' dtype",
                       f"{fn.file}:{(bad[0] if bad else fn.node).lineno}", not bad,
                       detail="no such store" if not bad else
                       f"`{norm_stmt(bad[0], 60)}` copies the weights into `{norm_stmt(like[base_name(bad[0].targets[0])], 40)}`: "
                       "fractional weights are truncated for integer labels")
    check_vote_weights(p, report)
    # ---------------- R17.3
    h = p.get_func("skactiveml.utils._aggregation", "majority_vote")
    htree = FuncTree(h.node)
    hret = [n for n in ast.walk(h.node) if isinstance(n, ast.Return) and isinstance(n.value, ast.Name)]
    if not hret:
        raise AnalysisError("majority_vote: return vanished")
    res = hret[0].value.id
    allocs = [n for n in ast.walk(h.node) if isinstance(n, ast.Assign)
              and any(isinstance(t, ast.Name) and t.id == res for t in n.targets)]
    ok_alloc = bool(allocs) and all(
        isinstance(a.value, ast.Call) and c01.callname(a.value) == "full" and len(a.value.args) >= 2
        and isinstance(a.value.args[1], ast.Name) and a.value.args[1].id == "missing_label" for a in allocs)
    report.add("R17.3", h.qual, f"result `{res}` created filled with the sentinel", f"{h.file}:{h.node.lineno}", ok_alloc,
               detail="np.full(..., missing_label, ...)" if ok_alloc else "result is not allocated filled with missing_label")
    lab_masks = set()
    for n in ast.walk(h.node):
        if isinstance(n, ast.Assign) and any(isinstance(c, ast.Call) and c01.callname(c) == "is_labeled"
                                             and _forwards(c, "missing_label") for c in ast.walk(n.value)):
            for t in n.targets:
                if isinstance(t, ast.Name):
                    lab_masks.add(t.id)
    stores = [n for n in ast.walk(h.node) if isinstance(n, ast.Assign)
              and any(isinstance(t, ast.Subscript) and base_name(t) == res for t in n.targets)]
    ok_st = bool(stores) and all(index_names(s.targets[0]) and index_names(s.targets[0]) <= lab_masks for s in stores)
    report.add("R17.3", h.qual, f"`{res}` written only under the has-a-label mask", f"{h.file}:{h.node.lineno}", ok_st,
               detail=f"{len(stores)} store(s), masks {sorted(lab_masks)}")
    # value chain rand_argmax(compute_vote_vectors(...), axis=1) -> inverse_transform -> store
    locs = local_names(h.node) | set(h.all_param_names())
    edges = dep_edges(h.node.body)
    sel = [n for n in ast.walk(h.node) if isinstance(n, ast.Call) and c01.callname(n) == "rand_argmax"]
    ok_chain = False
    why = "no rand_argmax over the vote matrix"
    if sel and stores:
        s0 = sel[0]
        opn = names_in(s0.args[0]) if s0.args else set()
        votes = any(isinstance(n, ast.Assign) and isinstance(n.value, ast.Call) and c01.callname(n.value) == "compute_vote_vectors"
                    and any(isinstance(t, ast.Name) and t.id in opn for t in n.targets) for n in ast.walk(h.node))
        axis1 = any(k.arg == "axis" and isinstance(k.value, ast.Constant) and k.value.value == 1 for k in s0.keywords)
        back = closure(names_in(stores[0].value), edges)
        selres = set()
        for n in ast.walk(h.node):
            if isinstance(n, ast.Assign) and any(x is s0 for x in ast.walk(n.value)):
                selres |= {t.id for t in n.targets if isinstance(t, ast.Name)}
        decoded = any(isinstance(n, ast.Call) and c01.callname(n) == "inverse_transform" and (names_in(n) & selres)
                      for n in ast.walk(h.node))
        ok_chain = votes and axis1 and bool(selres & back) and decoded
        why = f"votes={votes} axis1={axis1} flows={bool(selres & back)} decoded={decoded}"
    report.add("R17.3", h.qual, "stored value = inverse_transform(rand_argmax(vote matrix, axis=1))", f"{h.file}:{h.node.lineno}",
               ok_chain, detail=why)
    if sel and stores:
        # the winners are decoded as they were selected: no write into them in between
        touched = [n for n in ast.walk(h.node) if (isinstance(n, ast.Assign) and any(
            isinstance(t, ast.Subscript) and base_name(t) in selres for t in n.targets)) or (
            isinstance(n, ast.AugAssign) and base_name(n.target) in selres)]
        report.add("R17.3", h.qual, "selected class indices are not overwritten before decoding", f"{h.file}:{h.node.lineno}",
                   not touched, detail="no store into the selection result" if not touched else
                   f"`{norm_stmt(touched[0], 70)}` rewrites winners after the selection: samples that do have a label "
                   "can be turned into the sentinel")
    okf = any(isinstance(c, ast.Call) and c01.callname(c) == "is_labeled" and _forwards(c, "missing_label")
              for c in ast.walk(h.node))
    report.add("R17.3", h.qual, "is_labeled receives the caller's sentinel", f"{h.file}:{h.node.lineno}", okf)
    # ---------------- R17.4 arguments are not written (callees inlined)
    from ..absint import Interp
    from ..effects import writes
    g = p.get_func("skactiveml.utils._aggregation", "compute_vote_vectors")
    for fn in (f, g, h):
        it = Interp(p)
        it.run_entity(None, fn)
        hit = {}
        for w in writes(it.events, roots=(), include_params=True):
            if str(w.how).startswith("draw:"):
                continue    # consuming a caller-supplied RandomState is its contract
            hit.setdefault(w.loc[0][2:], w)
        for pn in fn.all_param_names():
            w = hit.get(pn)
            report.add("R17.4", fn.qual, f"argument `{pn}` is not written", f"{fn.file}:{(w.ev.node if w else fn.node).lineno}",
                       w is None, detail="no in-place write reaches the caller's object" if w is None else
                       f"`{norm_stmt(w.ev.node, 60)}` writes into the caller's array ({w.how}): a second call with the "
                       "same weights counts differently")
    # ---------------- definite assignment
    for fn in (f, g, h):
        da = DefiniteAssignment(_it(fn.node)).run()
        report.add("R1.7", fn.qual, "all locals bound before use", f"{fn.file}:{fn.node.lineno}", not da.reports,
                   detail="; ".join(f"{k} unbound" for k in da.reports))
    report.rule("R17.7", "each normalisation mode of ext_confusion_matrix sums along its own axis ('true': the sum over "
                "axis 1, 'pred': over axis 0, 'all': the total) on every path on which that mode is possible, and the counted "
                "matrix (rows = true class, columns = predicted class) is never transposed on its way into the result",
                floor=2)
    check_normalisation_axes(p, report, "R17.7")
    report.rule("R17.8", "votes are only counted for labels that ARE classes: the encoder all three utilities go through "
                "looks labels up exactly (shared with C16 R16.9)", floor=1)
    from . import c16 as _c16x
    _c16x.check_exact_lookup(p, report, "R17.8")
    report.rule("R17.6", "the mask of missing entries all three aggregation utilities rely on is right for every legal "
                "sentinel and dtype: is_unlabeled has exactly one NaN-test path and one equality path, dispatched on the "
                "sentinel being NaN (shared with C16 R16.2)", floor=3)
    from ..common import Report
    from . import c16 as _c16
    sub16 = Report("C16")
    _c16.run(p, sub16, "quick")
    for o in sub16.obligations:
        if o.rule == "R16.2":
            report.add("R17.6", o.entity, o.construct, o.loc, o.ok, detail=o.detail)
    # ---------------- round 6
    report.rule("R17.9", "a class with MAXIMAL vote: the winner is taken by rand_argmax, whose tie mask is an exact equality "
                "with the NaN-aware optimum (a tolerance lets a class with fewer votes win; shared with C18 R18.1)", floor=4)
    from . import c18 as _c18
    _c18.check_argmax_primitives(p, report, "R17.9")
    report.rule("R17.10", "every sample votes with its own weights: the label rows and the weight rows that majority_vote hands "
                "to compute_vote_vectors are the SAME row selection of y and w (element-wise re-encodings apart); rows are "
                "never merged, re-ordered or de-duplicated on one side", floor=1)
    check_vote_rows_aligned(p, report)
    report.assumptions += ["sklearn.metrics.confusion_matrix and np.bincount are trusted to count",
                           "equality with the counting specification as numbers is not decided"]


def check_vote_weights(p, report):
    # ---------------- R17.2
    g = p.get_func("skactiveml.utils._aggregation", "compute_vote_vectors")
    gn = inline_temporaries(g.node)     # named temporaries substituted back
    tree = FuncTree(gn)
    bc = [n for n in ast.walk(gn) if isinstance(n, ast.Call) and c01.callname(n) == "bincount"]
    if not bc:
        raise AnalysisError("compute_vote_vectors: np.bincount call vanished")
    bc = bc[0]
    bc_stmt = tree.stmt_of(bc)
    wexpr = None
    for k in bc.keywords:
        if k.arg == "weights":
            wexpr = k.value
    if wexpr is None and len(bc.args) >= 2:
        wexpr = bc.args[1]
    wnames = names_in(wexpr) - {"np"} if wexpr is not None else set()
    report.add("R17.2", g.qual, "np.bincount is weighted", f"{g.file}:{bc.lineno}", bool(wnames),
               detail=f"weights from {sorted(wnames)}")
    # mask role: names assigned from is_unlabeled(...)
    mask_names = set()
    mask_calls = {}
    for n in ast.walk(gn):
        if isinstance(n, ast.Assign) and isinstance(n.value, ast.Call) and c01.callname(n.value) == "is_unlabeled":
            for t in n.targets:
                if isinstance(t, ast.Name):
                    mask_names.add(t.id)
                    mask_calls[t.id] = n.value
    for w in sorted(wnames):
        stores = []
        for n in ast.walk(gn):
            if isinstance(n, ast.Assign) and any(isinstance(t, ast.Subscript) and base_name(t) == w for t in n.targets) \
                    and dominates(tree, n, bc_stmt):
                stores.append(n)
            elif isinstance(n, ast.Assign) and any(isinstance(t, ast.Name) and t.id == w for t in n.targets) \
                    and dominates(tree, n, bc_stmt):
                stores.append(n)
        stores.sort(key=lambda n: n.lineno)
        last_sub = [s for s in stores if isinstance(s.targets[0], ast.Subscript)]
        ok = False
        why = "no subscript store into the weights before the count"
        if last_sub:
            # the zeroing store at the missing-label mask may be followed by further zeroing stores
            # (`w[np.isnan(w)] = 0`): the last store that uses the mask counts, provided every later
            # store into the weights is a zeroing store too
            def _zero(s_):
                return isinstance(s_.value, ast.Constant) and s_.value.value == 0
            masked = [s_ for s_ in last_sub if _zero(s_) and (index_names(s_.targets[0]) & mask_names)]
            last = masked[-1] if masked else last_sub[-1]
            # no whole rebinding after it that could undo it (reshape of itself is fine)
            later = [s for s in stores if s.lineno > last.lineno and isinstance(s.targets[0], ast.Name)]
            undone = [s for s in later if w not in names_in(s.value)]
            undone += [s_ for s_ in last_sub if s_.lineno > last.lineno and not _zero(s_)]
            zero = _zero(last)
            uses_mask = bool(index_names(last.targets[0]) & mask_names)
            ok = zero and uses_mask and not undone
            why = f"last dominating store `{norm_stmt(last, 80)}`" + ("" if ok else
                  " does not zero the weights at the missing-label mask")
        report.add("R17.2", g.qual, f"weights `{w}` zeroed at missing entries before np.bincount", f"{g.file}:{bc.lineno}",
                   ok, detail=why)
        # NaN confidences (of labeled entries too) are zeroed as well: a NaN weight makes the whole count NaN
        nan_zero = [s_ for s_ in stores if isinstance(s_.targets[0], ast.Subscript) and isinstance(s_.value, ast.Constant)
                    and s_.value.value == 0 and any(isinstance(c, ast.Call) and c01.callname(c) in ("isnan", "np.isnan")
                                                    and c.args and w in names_in(c.args[0])
                                                    for c in ast.walk(s_.targets[0].slice))]
        inf_zero = [s_ for s_ in stores if isinstance(s_.targets[0], ast.Subscript) and isinstance(s_.value, ast.Constant)
                    and s_.value.value == 0 and any(isinstance(c, ast.Call) and c01.callname(c) in ("isfinite", "np.isfinite", "isinf", "np.isinf")
                                                    for c in ast.walk(s_.targets[0].slice))]
        if inf_zero:
            report.add("R17.2", g.qual, f"only missing / NaN entries of `{w}` are zeroed", f"{g.file}:{inf_zero[-1].lineno}", False,
                       detail=f"`{norm_stmt(inf_zero[-1], 70)}` also zeroes INFINITE weights: a class backed by an infinite "
                              f"confidence gets the count 0 instead of inf and loses the vote")
            nan_zero = nan_zero or inf_zero
        nan_zero += [s_ for s_ in stores if isinstance(s_.targets[0], ast.Name) and any(
            isinstance(c, ast.Call) and c01.callname(c) in ("nan_to_num", "np.nan_to_num") for c in ast.walk(s_.value))]
        report.add("R17.2", g.qual, f"NaN weights in `{w}` are zeroed before np.bincount", f"{g.file}:{bc.lineno}",
                   bool(nan_zero), detail=f"`{norm_stmt(nan_zero[-1], 70)}`" if nan_zero else
                   "no store zeroes the entries where the weights are NaN: one NaN confidence of a labeled sample makes "
                   "the vote counts (and predict_freq / predict_proba built on them) NaN")
    # pairing: positions and weights are flattened in the same, layout-independent order
    flats = []
    for opnd in ([bc.args[0]] if bc.args else []) + ([wexpr] if wexpr is not None else []):
        for n in ast.walk(opnd):
            if isinstance(n, ast.Call) and c01.callname(n) in ("ravel", "flatten", "reshape"):
                flats.append(n)
    bad = None
    for n in flats:
        for k in n.keywords:
            if k.arg == "order" and not (isinstance(k.value, ast.Constant) and k.value.value == "C"):
                bad = n
        if c01.callname(n) in ("ravel", "flatten") and n.args and not (
                isinstance(n.args[0], ast.Constant) and n.args[0].value == "C") and \
                not _is_module_call(n):
            bad = n
    report.add("R17.2", g.qual, "positions and weights of np.bincount flattened in C order", f"{g.file}:{bc.lineno}",
               bad is None, detail=f"{len(flats)} flattening call(s), all in the default (C) order" if bad is None else
               f"`{ast.unparse(bad)}` flattens in a memory-layout dependent order: a weight can be paired with the "
               "position of another entry (e.g. an F-ordered weight array), giving weight to a missing label")
    # mask provenance: is_unlabeled(<encoded y>, missing_label=-1) with y from the label encoder
    okm = False
    for m, call in mask_calls.items():
        sent = None
        for k in call.keywords:
            if k.arg == "missing_label":
                sent = k.value
        if sent is None and len(call.args) >= 2:
            sent = call.args[1]
        enc = any(isinstance(n, ast.Assign) and isinstance(n.value, ast.Call) and c01.callname(n.value) == "fit_transform"
                  and call.args and isinstance(call.args[0], ast.Name)
                  and any(isinstance(t, ast.Name) and t.id == call.args[0].id for t in n.targets)
                  for n in ast.walk(gn))
        if sent is not None and ast.unparse(sent) == "-1" and enc:
            okm = True
    report.add("R17.2", g.qual, "missing mask = is_unlabeled(encoded labels, -1)", f"{g.file}:{gn.lineno}", okm,
               detail="mask computed on the encoder's output with the encoder's sentinel" if okm else
               "mask is not computed on the encoded labels with sentinel -1")


def _is_module_call(n):
    return isinstance(n.func, ast.Attribute) and isinstance(n.func.value, ast.Name) and n.func.value.id in ("np", "numpy")


def _forwards(call, pname):
    for k in call.keywords:
        if k.arg == pname and isinstance(k.value, ast.Name) and k.value.id == pname:
            return True
    if len(call.args) >= 2 and isinstance(call.args[1], ast.Name) and call.args[1].id == pname:
        return True
    return False
