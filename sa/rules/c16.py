"""C16 - label predicates and encoder round trip (structural clauses)."""
import ast
from ..astutil import inline_temporaries as _it

from ..astutil import FuncTree, dominates, inline_temporaries, expand_delegation
from ..common import norm_stmt
from ..deps import names_in, base_name, index_names
from ..index import AnalysisError
from ..paths import DefiniteAssignment
from . import c01

MOD = "skactiveml.utils._label"


def _forwarded(call, params):
    """call passes exactly the caller's parameters `params` (in order),
    positionally or by keyword."""
    got = {}
    for i, a in enumerate(call.args):
        got[i] = a
    kw = {k.arg: k.value for k in call.keywords}
    for i, pn in enumerate(params):
        v = got.get(i, kw.get(pn))
        if not (isinstance(v, ast.Name) and v.id == pn):
            return False
    return True


def _is_invert(e):
    if isinstance(e, ast.UnaryOp) and isinstance(e.op, ast.Invert):
        return e.operand
    if isinstance(e, ast.Call) and c01.callname(e) == "logical_not" and e.args:
        return e.args[0]
    return None


def check_exact_lookup(p, report, rule):
    enc = p.get_class("ExtLabelEncoder")
    tf0 = enc.methods.get("transform") if enc else None
    if tf0 is None:
        raise AnalysisError("ExtLabelEncoder.transform vanished")
    # normal form: a transform that delegates to a shared private helper (with the lookup passed as a lambda)
    from ..index import FuncInfo
    tf = FuncInfo(tf0.name, expand_delegation(p, tf0), tf0.module, cls=tf0.cls, parent=tf0.parent)
    tf.qual = tf0.qual
    stores = [n for n in ast.walk(tf.node) if isinstance(n, ast.Assign) and isinstance(n.targets[0], ast.Subscript)
              and not (isinstance(n.value, ast.Constant)) and not (isinstance(n.value, ast.UnaryOp))]
    k = 0
    for n in stores:
        v = n.value
        defs = [v]
        if isinstance(v, ast.Name):
            defs = [d.value for d in ast.walk(tf.node) if isinstance(d, ast.Assign)
                    and any(isinstance(t, ast.Name) and t.id == v.id for t in d.targets)]
        via_le = any(isinstance(c, ast.Call) and isinstance(c.func, ast.Attribute) and c.func.attr == "transform"
                     and "_le" in ast.unparse(c.func.value) for d in defs for c in ast.walk(d))
        via_ss = any(isinstance(c, ast.Call) and c01.callname(c) in ("searchsorted", "np.searchsorted", "digitize")
                     for d in defs for c in ast.walk(d))
        if not via_le and not via_ss:
            continue
        checked = any(isinstance(c, ast.Compare) and len(c.ops) == 1 and isinstance(c.ops[0], (ast.NotEq, ast.Eq))
                      and "classes_[" in ast.unparse(c).replace(" ", "") for c in ast.walk(tf.node))
        ok = via_le or checked
        k += 1
        report.add(rule, tf.qual, f"codes `{norm_stmt(n, 60)}` come from an exact lookup", f"{tf.file}:{n.lineno}", ok,
                   detail="LabelEncoder.transform" if via_le else ("searchsorted with equality check" if checked else
                   "searchsorted gives the INSERTION position: a label that is not a class but lies between two classes is "
                   "silently encoded as the next larger class"))
    if k == 0:
        raise AnalysisError("ExtLabelEncoder.transform: store of the codes not found")
    # every value transform returns is the array that received the looked-up codes: a return that bypasses the lookup
    # (labels that merely LOOK like codes handed back as codes) is not an encoding
    coded = set()
    for n in stores:
        v = n.value
        defs = [v]
        if isinstance(v, ast.Name):
            defs = [d.value for d in ast.walk(tf.node) if isinstance(d, ast.Assign)
                    and any(isinstance(t, ast.Name) and t.id == v.id for t in d.targets)]
        if any(isinstance(c, ast.Call) and (c01.callname(c) in ("searchsorted", "digitize") or (
                isinstance(c.func, ast.Attribute) and c.func.attr == "transform")) for d in defs for c in ast.walk(d)):
            b = n.targets[0]
            while isinstance(b, ast.Subscript):
                b = b.value
            if isinstance(b, ast.Name):
                coded.add(b.id)
    for r in ast.walk(tf.node):
        if isinstance(r, ast.Return) and r.value is not None:
            v = r.value
            while isinstance(v, ast.Call) and isinstance(v.func, ast.Attribute) and v.func.attr in ("reshape", "astype", "copy") \
                    and isinstance(v.func.value, ast.Name):
                v = v.func.value
            ok = isinstance(v, ast.Name) and v.id in coded
            report.add(rule, tf.qual, f"`{norm_stmt(r, 50)}` returns the looked-up codes", f"{tf.file}:{r.lineno}", ok,
                       detail="the array filled from the lookup" if ok else
                       "this return hands back something that did not go through the class lookup: integer labels that happen "
                       "to lie in the code range (classes 1..K with class K not seen yet, sentinel -1) are taken for codes, and "
                       "every probability column is shifted by one class")


def run(p, report, tier):
    report.rule("R16.1", "is_labeled is the inversion of is_unlabeled with y and missing_label forwarded unchanged; "
                "labeled_indices / unlabeled_indices are np.argwhere of the respective predicate with both arguments "
                "forwarded", floor=3)
    report.rule("R16.2", "is_unlabeled has, apart from the empty-input early return, exactly two result paths: "
                "np.isnan(y) under a test that the sentinel is a float NaN, and an equality with the sentinel after "
                "casting otherwise; the check_missing_label calls dominate both", floor=3)
    report.rule("R16.3", "ExtLabelEncoder.transform / inverse_transform each partition by one mask m and ~m, write the "
                "wrapped encoder's result on m and the sentinel on ~m, with the sentinel pair swapped between the two "
                "methods", floor=6)
    report.rule("R1.7", "definite assignment in the label utilities", floor=5)
    report.rule("R16.4", "every return of is_unlabeled has, element for element, the shape of y: it is an elementwise "
                "function of y (comparison, isnan, array(y, dtype=bool), ~) or a constructor given y's full shape "
                "(never len(y)), so one- and two-dimensional and empty inputs keep their shape", floor=3)
    report.rule("R16.5", "sibling agreement: wherever the common dtype of labels and sentinel is computed "
                "(is_unlabeled, both branches of ExtLabelEncoder.fit) it is the dtype of an ARRAY built from labels and sentinel together "
                "(np.append / concatenate / hstack / array) - the construction that widens a string dtype to hold the sentinel", floor=3)
    n_dt = 0
    for modname in (MOD, "skactiveml.utils._label_encoder"):
        m = p.modules[modname]
        for n in ast.walk(m.tree):
            if not isinstance(n, ast.Assign):
                continue
            v = n.value
            # role: a dtype computed from labels AND sentinel together
            is_dtype_of_call = isinstance(v, ast.Attribute) and v.attr == "dtype" and isinstance(v.value, ast.Call) \
                and any("missing_label" in ast.unparse(a) for a in v.value.args)
            is_type_arith = isinstance(v, ast.Call) and c01.callname(v) in (
                "result_type", "promote_types", "find_common_type", "common_type", "min_scalar_type") \
                and "missing_label" in ast.unparse(v)
            if is_dtype_of_call or is_type_arith:
                ok = is_dtype_of_call and c01.callname(v.value) in ("append", "concatenate", "hstack", "array", "asarray")
                # ... built from ALL labels: a slice of them ([:1]) gives the width of the first label only
                if ok and any(isinstance(x, ast.Subscript) and isinstance(x.slice, ast.Slice)
                              and (x.slice.upper is not None or x.slice.lower is not None)
                              for a_ in v.value.args for x in ast.walk(a_)):
                    ok = False
                n_dt += 1
                report.add("R16.5", modname.split(".")[-1], f"common dtype `{norm_stmt(n, 80)}`", f"{m.relpath}:{n.lineno}", ok,
                           detail="np.append(labels, sentinel).dtype" if ok else
                           "computed differently from its siblings: e.g. result_type of a str scalar does not widen a "
                           "'<U1' class dtype to hold a longer sentinel, which is then truncated")
    il = p.get_func(MOD, "is_labeled")
    iu = p.get_func(MOD, "is_unlabeled")
    from ..carry import MustCarry
    yname = iu.params()[0]
    for rn, ok in MustCarry(iu.node, yname, nonnull=[yname], mode="shape").run():
        report.add("R16.4", iu.qual, f"`{norm_stmt(rn, 70)}` keeps the shape of the labels", f"{iu.file}:{rn.lineno}", ok,
                   detail="elementwise in y" if ok else
                   "the returned mask is not built element for element from y (e.g. sized by len(y)): a two-"
                   "dimensional or empty (0, m) input comes back with another shape")
    li = p.get_func(MOD, "labeled_indices")
    ui = p.get_func(MOD, "unlabeled_indices")
    params = ["y", "missing_label"]
    # structural rules look at the functions with single-use temporaries substituted back
    iln = inline_temporaries(expand_delegation(p, il))
    iun = inline_temporaries(expand_delegation(p, iu))
    # ---- R16.1
    rets = [n for n in ast.walk(iln) if isinstance(n, ast.Return)]
    ok = False
    if len(rets) == 1 and rets[0].value is not None:
        inner = _is_invert(rets[0].value)
        ok = isinstance(inner, ast.Call) and c01.callname(inner) == "is_unlabeled" and _forwarded(inner, params)
    report.add("R16.1", "is_labeled", "returns ~is_unlabeled(y, missing_label)", f"{il.file}:{iln.lineno}", ok,
               detail="complement by construction" if ok else "is_labeled is not the plain inversion of is_unlabeled "
               "with both arguments forwarded")
    for f, pred in ((li, "is_labeled"), (ui, "is_unlabeled")):
        fn_ = inline_temporaries(expand_delegation(p, f))
        calls = [n for n in ast.walk(fn_) if isinstance(n, ast.Call) and c01.callname(n) == pred]
        okc = len(calls) >= 1 and all(_forwarded(c, params) for c in calls)
        # argwhere over the predicate's result, returned
        pvars = set()
        for n in ast.walk(fn_):
            if isinstance(n, ast.Assign) and isinstance(n.value, ast.Call) and c01.callname(n.value) == pred:
                pvars |= {t.id for t in n.targets if isinstance(t, ast.Name)}
        aw = [n for n in ast.walk(fn_) if isinstance(n, ast.Call) and c01.callname(n) in ("argwhere", "flatnonzero", "nonzero", "where")
              and n.args and ((isinstance(n.args[0], ast.Name) and n.args[0].id in pvars) or
                              (isinstance(n.args[0], ast.Call) and c01.callname(n.args[0]) == pred))]
        avars = set()
        for n in ast.walk(fn_):
            if isinstance(n, ast.Assign) and any(x in aw for x in ast.walk(n.value)):
                avars |= {t.id for t in n.targets if isinstance(t, ast.Name)}
        retok = all(n.value is not None and (names_in(n.value) & avars or any(x in aw for x in ast.walk(n.value)))
                    for n in ast.walk(fn_) if isinstance(n, ast.Return))
        other = [n for n in ast.walk(fn_) if isinstance(n, ast.Call) and c01.callname(n) in ("is_labeled", "is_unlabeled")
                 and c01.callname(n) != pred]
        # the enumeration itself is the result: np.argwhere lists the True entries in row-major order with each
        # row of the result being ONE (row, column) pair; wrapping it in an order-changing call (np.sort(..., axis=0)
        # sorts the two columns independently and tears the pairs apart) is not an enumeration any more
        parents = {}
        for n in ast.walk(fn_):
            for ch in ast.iter_child_nodes(n):
                parents[ch] = n
        reord = [a for a in aw if isinstance(parents.get(a), ast.Call) and (c01.callname(parents[a]) or "").split(".")[-1] in (
            "sort", "sorted", "unique", "flip", "flipud", "fliplr", "roll", "permutation", "shuffle")]
        good = okc and bool(aw) and retok and not other and not reord
        report.add("R16.1", f.qual, f"np.argwhere({pred}(y, missing_label))", f"{f.file}:{f.node.lineno}", good,
                   detail="index enumeration of the predicate with both arguments forwarded" if good else
                   f"forwarded={okc} argwhere={bool(aw)} returned={retok} other_predicate={bool(other)} reordered={bool(reord)}")
    # ---- R16.2
    tree = FuncTree(iun)
    rets = [n for n in ast.walk(iun) if isinstance(n, ast.Return)]
    kinds = {}
    for r in rets:
        v = r.value
        kind = "other"
        if isinstance(v, ast.Call) and c01.callname(v) == "isnan" and v.args and "y" in names_in(v.args[0]):
            kind = "nan"
        elif isinstance(v, ast.Compare) and len(v.ops) == 1 and isinstance(v.ops[0], ast.Eq) and \
                any(isinstance(c, ast.Name) and c.id == "missing_label" for c in [v.left] + v.comparators):
            kind = "eq"
        else:
            # early return for empty input
            for (s, owner, field, idx) in tree.ancestors(r):
                if isinstance(owner, ast.If) and field == "body" and "len(y) == 0" in ast.unparse(owner.test).replace("  ", " "):
                    kind = "empty"
        kinds.setdefault(kind, []).append(r)
    shape_ok = len(kinds.get("nan", [])) == 1 and len(kinds.get("eq", [])) == 1 and not kinds.get("other")
    report.add("R16.2", "is_unlabeled", "exactly one isnan path and one equality path", f"{iu.file}:{iun.lineno}",
               shape_ok, detail=str({k: len(v) for k, v in kinds.items()}))
    if shape_ok:
        rn, re_ = kinds["nan"][0], kinds["eq"][0]
        # nan return guarded by a NaN-sentinel test
        guard = None
        for (s, owner, field, idx) in tree.ancestors(rn):
            if isinstance(owner, ast.If) and field == "body":
                guard = owner
                break
        gtxt = ast.unparse(guard.test) if guard is not None else ""
        inst = [c for c in ast.walk(guard.test) if isinstance(c, ast.Call) and c01.callname(c) == "isinstance"
                and len(c.args) == 2 and isinstance(c.args[0], ast.Name) and c.args[0].id == "missing_label"
                and "float" in ast.unparse(c.args[1])] if guard is not None else []
        gok = guard is not None and "isnan(missing_label)" in gtxt.replace("np.", "").replace("numpy.", "") \
            and bool(inst)
        # equality path is the complement of that test
        eq_else = guard is not None and (any(x is re_ for st in guard.orelse for x in ast.walk(st)) or
                                         (not guard.orelse and re_.lineno > guard.lineno))
        cast = ".astype(" in ast.unparse(re_.value)
        report.add("R16.2", "is_unlabeled", "NaN vs. equality dispatch", f"{iu.file}:{rn.lineno}", gok and eq_else and cast,
                   detail=f"nan-guard={gok} equality-in-complement={eq_else} cast-before-compare={cast}")
        checks = [n for n in ast.walk(iun) if isinstance(n, ast.Call) and c01.callname(n) == "check_missing_label"]
        dom = len(checks) >= 2 and all(dominates(tree, tree.stmt_of(c), rn) and dominates(tree, tree.stmt_of(c), re_)
                                       for c in checks)
        typed = any(any(k.arg == "target_type" for k in c.keywords) for c in checks)
        report.add("R16.2", "is_unlabeled", "check_missing_label (plain and typed) dominates both result paths",
                   f"{iu.file}:{iun.lineno}", dom and typed, detail=f"{len(checks)} calls, typed={typed}")
    # ---- R16.3
    enc = p.get_class("ExtLabelEncoder")
    spec = {
        "transform": dict(mask_sentinel="self.missing_label", fill="-1", inner="transform"),
        "inverse_transform": dict(mask_sentinel="-1", fill="self.missing_label", inner="inverse_transform"),
    }
    for mname, sp in spec.items():
        f = enc.methods.get(mname)
        if f is None:
            raise AnalysisError(f"ExtLabelEncoder.{mname} vanished")
        ent = f"ExtLabelEncoder.{mname}"
        # a method that only delegates to a shared private helper is looked at through the helper
        fx = inline_temporaries(expand_delegation(p, f))
        masks = {}
        for n in ast.walk(fx):
            if isinstance(n, ast.Assign) and isinstance(n.value, ast.Call) and c01.callname(n.value) == "is_labeled":
                sent = None
                for k in n.value.keywords:
                    if k.arg == "missing_label":
                        sent = k.value
                if sent is None and len(n.value.args) > 1:
                    sent = n.value.args[1]
                for t in n.targets:
                    if isinstance(t, ast.Name):
                        masks[t.id] = ast.unparse(sent) if sent is not None else None
        rets = [n for n in ast.walk(fx) if isinstance(n, ast.Return) and isinstance(n.value, ast.Name)]
        out = rets[0].value.id if rets else None
        stores = [n for n in ast.walk(fx) if isinstance(n, ast.Assign)
                  and any(isinstance(t, ast.Subscript) and base_name(t) == out for t in n.targets)]
        pos = [s for s in stores if isinstance(s.targets[0].slice, ast.Name) and s.targets[0].slice.id in masks]
        neg = [s for s in stores if _is_invert(s.targets[0].slice) is not None
               and isinstance(_is_invert(s.targets[0].slice), ast.Name) and _is_invert(s.targets[0].slice).id in masks]
        one_mask = len(masks) == 1
        report.add("R16.3", ent, "one labeled-mask with the method's sentinel", f"{f.file}:{f.node.lineno}",
                   one_mask and list(masks.values())[0] == sp["mask_sentinel"],
                   detail=f"masks={masks}, expected sentinel {sp['mask_sentinel']}")
        part = len(stores) == 2 and len(pos) == 1 and len(neg) == 1 and one_mask and \
            pos[0].targets[0].slice.id == _is_invert(neg[0].targets[0].slice).id
        report.add("R16.3", ent, "result partitioned by m and ~m", f"{f.file}:{f.node.lineno}", part,
                   detail=f"{len(stores)} stores, m-store={len(pos)}, ~m-store={len(neg)}")
        if part:
            inner_ok = any(isinstance(c, ast.Call) and isinstance(c.func, ast.Attribute) and c.func.attr == sp["inner"]
                           and "_le" in ast.unparse(c.func.value) for c in ast.walk(pos[0].value))
            fill_ok = ast.unparse(neg[0].value) == sp["fill"]
            report.add("R16.3", ent, f"m <- wrapped {sp['inner']}, ~m <- {sp['fill']}", f"{f.file}:{pos[0].lineno}",
                       inner_ok and fill_ok, detail=f"inner={inner_ok} fill=`{ast.unparse(neg[0].value)}`")
    # ---- definite assignment
    for fn in (il, iu, li, ui, enc.methods["fit"], enc.methods["transform"], enc.methods["inverse_transform"]):
        da = DefiniteAssignment(_it(fn.node)).run()
        report.add("R1.7", fn.qual, "all locals bound before use", f"{fn.file}:{fn.node.lineno}", not da.reports,
                   detail="; ".join(f"{k} unbound" for k in da.reports))
    # ---- R16.9 (round 5): exact code lookup
    report.rule("R16.9", "transform maps labels to codes by an EXACT lookup: the codes stored for the labeled entries come "
                "from the fitted LabelEncoder's transform (which raises on a label that is no class); a searchsorted "
                "lookup is only accepted together with an equality check of classes_[codes] against the labels", floor=1)
    check_exact_lookup(p, report, "R16.9")
    # ---- R16.8 (round 5): the encoder never writes into what it is given
    report.rule("R16.8", "ExtLabelEncoder.fit / transform / inverse_transform never write into the array they are given "
                "(`astype(..., copy=False)` / `np.asarray` return the caller's array itself when no conversion is needed): "
                "decoding must not turn the caller's codes into labels", floor=3)
    from ..absint import Interp
    from . import c05 as _c05
    encc = p.get_class("ExtLabelEncoder")
    for mn in ("fit", "transform", "inverse_transform", "fit_transform"):
        fm = encc.methods.get(mn) if encc else None
        if fm is None:
            continue
        it = Interp(p)
        it.run_entity(encc, fm)
        before = len(report.obligations)
        _c05.check_entity(p, report, encc, fm, it, r_param=None, r_arr="R16.8", r_est=None)
        if len(report.obligations) == before:
            report.add("R16.8", fm.qual, "argument arrays are read-only", f"{fm.file}:{fm.node.lineno}", True,
                       detail="no reachable in-place write through an alias", nontrivial=False)
    # ---- R16.6 / R16.7 (round 4)
    report.rule("R16.6", "the encoder validates label arrays without narrowing what it accepts: every check_array on the "
                "labels in fit / transform / inverse_transform passes ensure_min_samples=0 (empty arrays round-trip), "
                "dtype=None and ensure_2d=False; fit and transform also ensure_all_finite=False (NaN sentinel)", floor=3)
    report.rule("R16.7", "the encoding is a function of the current parameters: every attribute that ExtLabelEncoder.fit "
                "stores on some path is stored on every path that returns (no early return keeps the classes / sentinel "
                "of an earlier fit; shared with C13 R13.5)", floor=1)
    enc = p.get_class("ExtLabelEncoder")
    if enc is None:
        raise AnalysisError("ExtLabelEncoder vanished")
    need = {"fit": {"ensure_min_samples": "0", "dtype": "None", "ensure_2d": "False", "ensure_all_finite": "False"},
            "transform": {"ensure_min_samples": "0", "dtype": "None", "ensure_2d": "False", "ensure_all_finite": "False"},
            "inverse_transform": {"ensure_min_samples": "0", "dtype": "None", "ensure_2d": "False"}}
    for mn, req in need.items():
        f = enc.methods.get(mn)
        if f is None:
            raise AnalysisError(f"ExtLabelEncoder.{mn} vanished")
        ps = [a for a in f.params() if a != "self"]
        calls = [c for c in ast.walk(f.node) if isinstance(c, ast.Call) and c01.callname(c) == "check_array" and c.args
                 and isinstance(c.args[0], ast.Name) and ps and c.args[0].id == ps[0]]
        for c in calls:
            kws = {k.arg: ast.unparse(k.value) for k in c.keywords if k.arg}
            # keywords given through a shared dict (`**check_dict`) are resolved one level
            for k in c.keywords:
                if k.arg is None and isinstance(k.value, ast.Name):
                    for d in ast.walk(f.node):
                        if isinstance(d, ast.Assign) and any(isinstance(t, ast.Name) and t.id == k.value.id for t in d.targets) \
                                and isinstance(d.value, ast.Dict):
                            for kk, vv in zip(d.value.keys, d.value.values):
                                if isinstance(kk, ast.Constant):
                                    kws.setdefault(kk.value, ast.unparse(vv))
            miss = {k: v for k, v in req.items() if kws.get(k) != v}
            report.add("R16.6", f.qual, f"`check_array({ps[0]}, ...)` accepts every label array", f"{f.file}:{c.lineno}", not miss,
                       detail="keywords complete" if not miss else
                       "missing / different: " + ", ".join(f"{k}={v}" for k, v in sorted(miss.items())) +
                       (" - empty label arrays raise, so inverse_transform(transform(y)) fails for len(y) == 0"
                        if "ensure_min_samples" in miss else ""))
    from .c13_fit import check_store_on_every_path
    check_store_on_every_path(p, report, [(enc, enc.methods["fit"])], rule="R16.7")
    # ---------------- round 6: who may write the encoder's state
    report.rule("R16.10", "the encoding is fixed by fit: transform / inverse_transform (and everything they call on self) "
                "never store to, or re-fit, an attribute of the encoder - a decode dtype or class table re-derived from the "
                "array encoded LAST makes inverse_transform(transform(y1)) depend on calls made in between", floor=2)
    writers = {"__init__", "fit", "set_params", "__setstate__"}

    def _self_writes(f, seen):
        out = []
        for n in ast.walk(f.node):
            tg = []
            if isinstance(n, ast.Assign):
                tg = n.targets
            elif isinstance(n, (ast.AugAssign, ast.AnnAssign)):
                tg = [n.target]
            for t in tg:
                for x in (t.elts if isinstance(t, (ast.Tuple, ast.List)) else [t]):
                    b = x
                    while isinstance(b, ast.Subscript):
                        b = b.value
                    if isinstance(b, ast.Attribute) and isinstance(b.value, ast.Name) and b.value.id == "self":
                        out.append((n, f"`{norm_stmt(n, 60)}` stores self.{b.attr}"))
            if isinstance(n, ast.Call):
                fn = n.func
                if isinstance(fn, ast.Name) and fn.id == "setattr" and n.args and isinstance(n.args[0], ast.Name) and n.args[0].id == "self":
                    out.append((n, "setattr(self, ...)"))
                if isinstance(fn, ast.Attribute) and fn.attr in ("fit", "partial_fit", "set_params") \
                        and isinstance(fn.value, ast.Attribute) and isinstance(fn.value.value, ast.Name) and fn.value.value.id == "self":
                    out.append((n, f"`{ast.unparse(fn)}(...)` re-fits self.{fn.value.attr}"))
                if isinstance(fn, ast.Attribute) and isinstance(fn.value, ast.Name) and fn.value.id == "self" \
                        and fn.attr not in seen:
                    g = enc.methods.get(fn.attr)
                    if g is not None:
                        if fn.attr in writers:
                            out.append((n, f"calls self.{fn.attr}()"))
                        else:
                            out += _self_writes(g, seen | {fn.attr})
        return out

    for mn, f in sorted(enc.methods.items()):
        if mn in writers or mn.startswith("__") or mn == "fit_transform":
            continue
        w = _self_writes(f, {mn})
        report.add("R16.10", f.qual, "leaves the fitted state of the encoder alone", f"{f.file}:{(w[0][0] if w else f.node).lineno}",
                   not w, detail="no store to self, no re-fit" if not w else
                   f"{w[0][1]}: what a later inverse_transform / transform returns for an array encoded EARLIER now depends "
                   f"on this call (labels decoded into the dtype / class table of another array)")
    report.assumptions += ["numpy casting rules, the round trip and dtype behaviour as values are not decided"]
