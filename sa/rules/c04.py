"""C04 - budget managers never overspend (guard dominates grant)."""
import ast

from ..absint import Interp
from ..astutil import inline_temporaries, nest_guard_clauses, FuncTree, dominates
from ..common import norm_stmt, site_id
from ..deps import names_in, base_name, index_names, dep_edges, closure
from ..effects import writes
from ..index import AnalysisError
from ..paths import MustAnalysis, local_names, describe
from .c03 import is_abstract

BUDGET_ATTR = "self.budget_"
ESCAPE_FLAGS = {"StreamRandomSampling.query": "self.allow_exceeding_budget"}


def callname_(c):
    f = c.func
    return f.id if isinstance(f, ast.Name) else (f.attr if isinstance(f, ast.Attribute) else None)


def entities(p):
    out = []
    for ci in p.exported_classes("skactiveml.stream.budgetmanager"):
        if ci.name == "BalancedIncrementalQuantileFilter":
            continue  # not budget-enforcing in the sense of the property
        f = p.find_method(ci, "query_by_utility")
        if f is not None and not is_abstract(f):
            out.append((ci, f))
    for cname in ("StreamRandomSampling", "PeriodicSampling"):
        ci = p.get_class(cname)
        out.append((ci, p.get_method(cname, "query")))
    return out


def seeds_of(fnode):
    """running locals: `tmp = self.x_` before the loop -> {tmp: 'x_'}"""
    out = {}
    for n in ast.walk(fnode):
        if isinstance(n, ast.Assign) and len(n.targets) == 1 and isinstance(n.targets[0], ast.Name):
            v = n.value
            if isinstance(v, ast.Attribute) and isinstance(v.value, ast.Name) and v.value.id == "self" \
                    and v.attr.endswith("_"):
                out[n.targets[0].id] = v.attr
    return out


def loop_counter(L):
    """name of the per-instance counter of a loop found by instance_loop"""
    if isinstance(L.target, ast.Tuple):
        return L.target.elts[0].id
    return L.target.id


def instance_loop(fnode):
    """The per-instance loop: `for i, x in enumerate(...)` or `for i in range(len(...))`
    (the last such loop of the function)."""
    best = None
    for n in ast.walk(fnode):
        if not isinstance(n, ast.For) or not isinstance(n.iter, ast.Call) or not isinstance(n.iter.func, ast.Name):
            continue
        if n.iter.func.id == "enumerate" and isinstance(n.target, ast.Tuple) and isinstance(n.target.elts[0], ast.Name):
            best = n
        elif n.iter.func.id == "range" and len(n.iter.args) == 1 and isinstance(n.target, ast.Name) \
                and isinstance(n.iter.args[0], ast.Call) and isinstance(n.iter.args[0].func, ast.Name) \
                and n.iter.args[0].func.id == "len":
            best = n
    return best


def grants(L, counter):
    out = []
    for n in ast.walk(L):
        if isinstance(n, ast.Expr) and isinstance(n.value, ast.Call) and isinstance(n.value.func, ast.Attribute) \
                and n.value.func.attr == "append" and n.value.args and isinstance(n.value.args[0], ast.Name) \
                and n.value.args[0].id == counter:
            out.append(("append", n, base_name(n.value.func.value)))
        elif isinstance(n, ast.Assign):
            for t in n.targets:
                if isinstance(t, ast.Subscript) and isinstance(t.slice, ast.Name) and t.slice.id == counter \
                        and isinstance(t.value, ast.Name):
                    # boolean record `queried[i] = <cond>`
                    if not (isinstance(n.value, ast.Constant) and n.value.value in (False, 0)):
                        out.append(("store", n, t.value.id))
    return out


class GuardInfo:
    def __init__(self, node, running, direction_ok, why):
        self.node = node
        self.running = running
        self.direction_ok = direction_ok
        self.why = why


def single_defs(fnode):
    """name -> value expr for locals with exactly one plain assignment."""
    cnt = {}
    val = {}
    for n in ast.walk(fnode):
        if isinstance(n, ast.Name) and isinstance(n.ctx, ast.Store):
            cnt[n.id] = cnt.get(n.id, 0) + 1
        if isinstance(n, ast.Assign) and len(n.targets) == 1 and isinstance(n.targets[0], ast.Name):
            val[n.targets[0].id] = n.value
    return {k: v for k, v in val.items() if cnt.get(k) == 1}


def expand(e, defs, running, depth=0):
    """Inline single-definition locals (not the running estimates) so that a
    hoisted sub-expression is seen through."""
    if depth > 6:
        return e
    if isinstance(e, ast.Name) and e.id in defs and e.id not in running:
        return expand(defs[e.id], defs, running, depth + 1)
    if isinstance(e, ast.BinOp):
        return ast.BinOp(left=expand(e.left, defs, running, depth + 1), op=e.op,
                         right=expand(e.right, defs, running, depth + 1))
    if isinstance(e, ast.UnaryOp):
        return ast.UnaryOp(op=e.op, operand=expand(e.operand, defs, running, depth + 1))
    if isinstance(e, ast.Call):
        return ast.Call(func=e.func, args=[expand(a, defs, running, depth + 1) for a in e.args],
                        keywords=[ast.keyword(arg=k.arg, value=expand(k.value, defs, running, depth + 1)) for k in e.keywords])
    return e


def pure_arith(e):
    for n in ast.walk(e):
        if isinstance(n, (ast.Call, ast.Subscript, ast.IfExp, ast.Compare, ast.BoolOp)):
            return False
    return True


def find_guards(fnode, L, running):
    """Comparisons between the running spent-estimate and self.budget_ (seen
    through hoisted single-definition locals)."""
    defs = single_defs(fnode)
    # loop-local single defs only count when defined inside the loop or before it
    guards = []
    for n in ast.walk(L):
        if not (isinstance(n, ast.Compare) and len(n.ops) == 1):
            continue
        l, r = expand(n.left, defs, running), expand(n.comparators[0], defs, running)
        op = n.ops[0]
        ln, rn = names_in(l), names_in(r)
        lrun, rrun = ln & running, rn & running
        lb, rb = BUDGET_ATTR in ln, BUDGET_ATTR in rn
        if (lrun and rb and not rrun and not lb):
            ok = isinstance(op, (ast.Lt, ast.LtE))
            why = "spent-estimate on the left, budget on the right: needs < / <="
            if not pure_arith(r):
                ok = False
                why = f"the budget is compared through a non-arithmetic transformation `{ast.unparse(r)[:50]}`"
            guards.append(GuardInfo(n, lrun, ok, why))
        elif (rrun and lb and not lrun and not rb):
            ok = isinstance(op, (ast.Gt, ast.GtE))
            why = "budget on the left, spent-estimate on the right: needs > / >="
            if not pure_arith(l):
                ok = False
                why = f"the budget is compared through a non-arithmetic transformation `{ast.unparse(l)[:50]}`"
            guards.append(GuardInfo(n, rrun, ok, why))
        elif isinstance(r, ast.Constant) and isinstance(r.value, (int, float)) and lb and lrun:
            # remaining = allowance - spent  compared with a constant
            d = l
            if isinstance(d, ast.BinOp) and isinstance(d.op, ast.Sub) \
                    and BUDGET_ATTR in names_in(d.left) and (names_in(d.right) & running) \
                    and BUDGET_ATTR not in names_in(d.right) and pure_arith(d):
                ok = isinstance(op, (ast.Gt, ast.GtE))
                guards.append(GuardInfo(n, (names_in(d) & running), ok,
                                        "remaining = allowance - spent compared with a constant: needs > / >="))
    return guards


class GuardFlow:
    """Boolean dataflow: which variables can only be true when the guard G of
    this iteration is true; is the current path under G."""

    def __init__(self, guard_nodes, escape=None):
        self.gids = {id(g) for g in guard_nodes}
        self.escape = escape
        self.bad_grants = []
        self.ok_grants = []

    def implies(self, e, impl, lastapp):
        if e is None:
            return False
        if id(e) in self.gids:
            return True
        if isinstance(e, ast.Constant):
            return e.value in (False, 0, None)
        if isinstance(e, ast.Name):
            return e.id in impl
        if isinstance(e, ast.Subscript):
            b = base_name(e)
            if isinstance(e.slice, ast.UnaryOp) and isinstance(e.slice.op, ast.USub) \
                    and isinstance(e.slice.operand, ast.Constant) and e.slice.operand.value == 1:
                return lastapp.get(b, False)
            key = ast.unparse(e)
            return key in impl
        if isinstance(e, ast.BoolOp):
            if isinstance(e.op, ast.And):
                return any(self.implies(v, impl, lastapp) for v in e.values)
            return all(self.implies(v, impl, lastapp) or self.is_escape(v) for v in e.values)
        if isinstance(e, ast.IfExp):
            t = self.implies(e.test, impl, lastapp)
            return (t or self.implies(e.body, impl, lastapp)) and self.implies(e.orelse, impl, lastapp)
        if isinstance(e, ast.Call):
            n = e.func.attr if isinstance(e.func, ast.Attribute) else (e.func.id if isinstance(e.func, ast.Name) else "")
            if n in ("logical_and", "bool", "int"):
                return any(self.implies(a, impl, lastapp) for a in e.args)
        if isinstance(e, ast.BinOp) and isinstance(e.op, (ast.BitAnd, ast.Mult)):
            return self.implies(e.left, impl, lastapp) or self.implies(e.right, impl, lastapp)
        return False

    def is_escape(self, e):
        return self.escape is not None and ast.unparse(e) == self.escape

    def neg_implies(self, test, impl, lastapp):
        """Does `test` being FALSE imply G?  (test == `not t` with t => G)"""
        if isinstance(test, ast.UnaryOp) and isinstance(test.op, ast.Not):
            return self.implies(test.operand, impl, lastapp)
        if isinstance(test, ast.BoolOp) and isinstance(test.op, ast.Or):
            return any(self.neg_implies(v, impl, lastapp) for v in test.values)
        return False

    def block(self, stmts, impl, lastapp, under, counter):
        for s in stmts:
            impl, lastapp, under = self.stmt(s, impl, lastapp, under, counter)
        return impl, lastapp, under

    def stmt(self, s, impl, lastapp, under, counter):
        if isinstance(s, ast.If):
            ti = under or self.implies(s.test, impl, lastapp)
            ei = under or self.neg_implies(s.test, impl, lastapp)
            i1, l1, u1 = self.block(s.body, set(impl), dict(lastapp), ti, counter)
            i2, l2, u2 = self.block(s.orelse, set(impl), dict(lastapp), ei, counter)
            keys = i1 | i2
            ni = set()
            for v in keys:
                if (v in i1 or ti) and (v in i2 or ei):
                    ni.add(v)
            # variables assigned in only one branch keep old status in the other
            nl = {k: l1.get(k, False) and l2.get(k, False) for k in set(l1) | set(l2)}
            return ni, nl, under
        if isinstance(s, (ast.For, ast.While)):
            i1, l1, u1 = self.block(s.body, set(impl), dict(lastapp), under, counter)
            return impl & i1, {k: lastapp.get(k, False) and l1.get(k, False) for k in set(lastapp) | set(l1)}, under
        if isinstance(s, ast.With):
            return self.block(s.body, impl, lastapp, under, counter)
        if isinstance(s, ast.Assign):
            val_ok = under or self.implies(s.value, impl, lastapp)
            for t in s.targets:
                if isinstance(t, ast.Name):
                    (impl.add if val_ok else impl.discard)(t.id)
                elif isinstance(t, ast.Subscript):
                    key = ast.unparse(t)
                    (impl.add if val_ok else impl.discard)(key)
                    if isinstance(t.slice, ast.Name) and t.slice.id == counter and isinstance(t.value, ast.Name) \
                            and not (isinstance(s.value, ast.Constant) and s.value.value in (False, 0)):
                        (self.ok_grants if val_ok else self.bad_grants).append(s)
            return impl, lastapp, under
        if isinstance(s, ast.AugAssign):
            if isinstance(s.target, ast.Name):
                impl.discard(s.target.id)
            return impl, lastapp, under
        if isinstance(s, ast.Expr) and isinstance(s.value, ast.Call) and isinstance(s.value.func, ast.Attribute) \
                and s.value.func.attr == "append" and s.value.args:
            b = base_name(s.value.func.value)
            a0 = s.value.args[0]
            if isinstance(a0, ast.Name) and a0.id == counter:
                (self.ok_grants if under else self.bad_grants).append(s)
            else:
                lastapp[b] = under or self.implies(a0, impl, lastapp)
            return impl, lastapp, under
        return impl, lastapp, under


def _in_param_loop(ev):
    """Is the event inside a for loop (of its own function) that iterates a
    value derived from the candidates / queried_indices parameters?"""
    fnode = ev.fi.node
    edges = dep_edges(fnode.body)
    for (t, pol) in ev.guards:
        if isinstance(t, (ast.For, ast.AsyncFor)):
            back = closure(names_in(t.iter), edges)
            if back & {"candidates", "queried_indices"}:
                return True
    return False


def stale_loop_vars(fnode):
    out = []
    for L in ast.walk(fnode):
        if isinstance(L, (ast.For, ast.AsyncFor)):
            tv = {n.id for n in ast.walk(L.target) if isinstance(n, ast.Name)}
            inside = {id(x) for x in ast.walk(L)}
            for n in ast.walk(fnode):
                if isinstance(n, ast.Name) and isinstance(n.ctx, ast.Load) and n.id in tv and id(n) not in inside \
                        and n.lineno > L.end_lineno:
                    rebound = any(isinstance(m, ast.Name) and isinstance(m.ctx, ast.Store) and m.id == n.id
                                  and id(m) not in inside and L.end_lineno < m.lineno <= n.lineno for m in ast.walk(fnode))
                    if not rebound:
                        out.append((n.id, L.lineno, n.lineno))
    return out


class MustUpdate(MustAnalysis):
    """Every path through one iteration of `loop` redefines `var` from its previous value (and the
    grant indicator).  For an estimate that is only ever advanced by `var += <indicator>` a path on
    which definitely nothing was granted may skip the update (adding a false indicator is the
    identity): token "nogrant" holds at the start of an iteration and is killed by every grant."""

    def __init__(self, fnode, loop, var, indicators, grants=()):
        super().__init__(fnode)
        self.loop = loop
        self.var = var
        self.indicators = indicators
        self.missing = None
        self.grants = set(map(id, grants))
        ups = [n for n in ast.walk(loop) if (isinstance(n, ast.AugAssign) and isinstance(n.target, ast.Name)
                                              and n.target.id == var)
               or (isinstance(n, ast.Assign) and any(isinstance(t, ast.Name) and t.id == var for t in n.targets))]
        self.additive = bool(ups) and indicators is not None and bool(self.grants) and all(
            isinstance(n, ast.AugAssign) and isinstance(n.op, ast.Add) and isinstance(n.value, ast.Name)
            and n.value.id in indicators for n in ups)
        self.add_names = {n.value.id for n in ups if isinstance(n, ast.AugAssign) and isinstance(n.value, ast.Name)}

    def loop_iter_gen(self, loop):
        return ("nogrant",) if loop is self.loop else ()

    def kill_tokens(self, stmt):
        if id(stmt) in self.grants:
            return ("nogrant",)
        # a (re)definition of the indicator itself may be the grant decision
        if self.indicators and isinstance(stmt, (ast.Assign, ast.AugAssign)):
            tg = stmt.targets if isinstance(stmt, ast.Assign) else [stmt.target]
            if any(isinstance(t, ast.Name) and t.id in self.add_names for t in tg) and not (
                    isinstance(stmt, ast.Assign) and isinstance(stmt.value, ast.Constant) and stmt.value.value is False):
                return ("nogrant",)
        return ()

    def gen(self, stmt):
        if isinstance(stmt, ast.AugAssign) and isinstance(stmt.target, ast.Name) and stmt.target.id == self.var:
            if self.indicators is None or (names_in(stmt.value) & self.indicators) or \
                    any(ast.unparse(x) in self.indicators for x in ast.walk(stmt.value) if isinstance(x, ast.Subscript)):
                return ("upd",)
        if isinstance(stmt, ast.Assign) and any(isinstance(t, ast.Name) and t.id == self.var for t in stmt.targets):
            ns = names_in(stmt.value)
            if self.var in ns and (self.indicators is None or (ns & self.indicators) or any(
                    ast.unparse(x) in self.indicators for x in ast.walk(stmt.value) if isinstance(x, ast.Subscript))):
                return ("upd",)
        return ()

    def loop_iter_kill(self, loop):
        return ("upd",) if loop is self.loop else ()

    def on_loop_body_exit(self, loop, states_in, states_out):
        if loop is self.loop:
            self.missing = [s for s in states_out if "upd" not in s.tokens
                            and not (self.additive and "nogrant" in s.tokens)]


VALUE_REDUCTIONS = {"sum", "count_nonzero", "any", "all", "mean", "max", "min", "prod", "nansum", "cumsum"}


def _one_instance(e):
    """`x[i:i + 1]`, `x[[i]]`, `x[i].reshape(1, -1)`, `x[i][None]`, `[x[i]]`"""
    if isinstance(e, ast.Subscript):
        sl = e.slice
        if isinstance(sl, ast.Slice) and sl.lower is not None and sl.upper is not None and sl.step is None:
            lo = ast.unparse(sl.lower).replace(" ", "")
            up = ast.unparse(sl.upper).replace(" ", "")
            return up in (f"{lo}+1", f"1+{lo}", f"({lo})+1")
        if isinstance(sl, ast.List) and len(sl.elts) == 1:
            return True
        if isinstance(sl, ast.Constant) and sl.value is None and isinstance(e.value, ast.Subscript):
            return True
    if isinstance(e, ast.Call) and isinstance(e.func, ast.Attribute) and e.func.attr == "reshape" \
            and isinstance(e.func.value, ast.Subscript) and e.args and ast.unparse(e.args[0]) == "1":
        return True
    if isinstance(e, ast.List) and len(e.elts) == 1:
        return True
    return False


def check_commit_counts(p, report, ents):
    from .c01 import element_count_operand, callname
    seen = set()
    todo = []
    for ci, f in ents:
        u = p.find_method(ci, "update")
        if u is not None:
            todo.append((ci, u))
    while todo:
        ci, u = todo.pop()
        if id(u.node) in seen:
            continue
        seen.add(id(u.node))
        ps = [a for a in u.params() if a != "self"]
        cand = ps[0] if ps else None
        qidx = ps[1] if len(ps) > 1 else None
        tree = FuncTree(u.node)
        # (a) nested commits: an update called inside a per-instance loop gets one instance
        for c in ast.walk(u.node):
            if isinstance(c, ast.Call) and isinstance(c.func, ast.Attribute) and c.func.attr == "update":
                is_super = isinstance(c.func.value, ast.Call) and isinstance(c.func.value.func, ast.Name) \
                    and c.func.value.func.id == "super"
                callee = None
                if is_super and u.cls is not None:
                    try:
                        callee = p.find_method(ci, "update", after=u.cls)
                    except ValueError:
                        callee = None
                    if callee is not None:
                        todo.append((ci, callee))
                st = tree.stmt_of(c)
                loops = tree.enclosing_loops(st)
                if not loops:
                    report.add("R4.6", u.qual, f"`{norm_stmt(st, 60)}` applied once per call", f"{u.file}:{c.lineno}", True,
                               detail="outside any loop", nontrivial=False)
                    continue
                if not (is_super or "budget_manager" in ast.unparse(c.func.value)):
                    continue
                a0 = c.args[0] if c.args else next((k.value for k in c.keywords if k.arg == "candidates"), None)
                ok = a0 is not None and _one_instance(a0)
                report.add("R4.6", u.qual, f"`{norm_stmt(st, 60)}` inside a per-instance loop gets one instance",
                           f"{u.file}:{c.lineno}", ok,
                           detail="one-instance slice" if ok else
                           f"the callee advances its estimate once for every instance it is handed; called in a loop with "
                           f"`{ast.unparse(a0) if a0 is not None else '?'}` the estimate decays once per REMAINING instance: "
                           f"spending is under-estimated")
        # (b) increments are counts
        from ..deps import forward_closure as _fwc
        derived_ = _fwc({x for x in (cand, qidx) if x}, dep_edges(u.node.body))
        for n in ast.walk(u.node):
            tgt = None
            if isinstance(n, ast.AugAssign):
                tgt = n.target
            elif isinstance(n, ast.Assign) and len(n.targets) == 1:
                tgt = n.targets[0]
            if tgt is None or not (isinstance(tgt, ast.Attribute) and isinstance(tgt.value, ast.Name) and tgt.value.id == "self"):
                continue
            bad = None
            for sub in ast.walk(n.value):
                E = element_count_operand(sub)
                if E is not None and isinstance(E, ast.Name) and E.id == cand:
                    bad = (f"`{ast.unparse(sub)}` is the number of ELEMENTS of the 2-d `{cand}` (instances x features), not the "
                           f"number of observed instances: the observation counter runs ahead by the number of features")
                if isinstance(sub, ast.Call) and qidx is not None:
                    cn = (callname(sub) or "").split(".")[-1]
                    recv_is_q = isinstance(sub.func, ast.Attribute) and isinstance(sub.func.value, ast.Name) \
                        and sub.func.value.id == qidx
                    arg_is_q = bool(sub.args) and isinstance(sub.args[0], ast.Name) and sub.args[0].id == qidx
                    if cn in VALUE_REDUCTIONS and (recv_is_q or arg_is_q):
                        bad = (f"`{ast.unparse(sub)}` reduces over the VALUES of the index array `{qidx}`: a label granted to "
                               f"instance 0 of a chunk is not counted (or indices are summed): granted labels are under-counted")
            direct = cand in names_in(n.value) or (qidx and qidx in names_in(n.value)) or bad
            if direct:
                report.add("R4.6", u.qual, f"increment `{norm_stmt(n, 60)}` is a count", f"{u.file}:{n.lineno}", bad is None,
                           detail=bad or "row count / number of indices")
            if direct or (isinstance(n, ast.AugAssign) and names_in(n.value) & derived_):
                # (c) the count is kept in every mode: a settings switch (constructor parameter, changeable through
                #     set_params in mid-stream) must not turn the bookkeeping off, or the spend of that phase is forgotten
                init_params = set()
                if u.cls is not None:
                    ini = p.find_method(ci, "__init__")
                    init_params = set(ini.all_param_names()) - {"self"} if ini is not None else set()
                sw = None
                for (s_, owner, field, idx) in tree.ancestors(n):
                    if isinstance(owner, ast.If) and field in ("body", "orelse"):
                        for a in ast.walk(owner.test):
                            if isinstance(a, ast.Attribute) and isinstance(a.value, ast.Name) and a.value.id == "self" \
                                    and a.attr in init_params:
                                sw = (owner, a.attr)
                report.add("R4.6", u.qual, f"increment `{norm_stmt(n, 60)}` is kept in every mode", f"{u.file}:{n.lineno}",
                           sw is None, detail="not under a test of a constructor parameter" if sw is None else
                           f"only executed when `{ast.unparse(sw[0].test)[:60]}` decides so: `{sw[1]}` is a setting that can "
                           f"be changed with set_params while the stream runs; labels granted in the other mode are then "
                           f"never charged and the strict phase starts from an empty account")
        # increments through the indicator `queried` (zeros(len(candidates)); queried[queried_indices] = 1)
        for n in ast.walk(u.node):
            if isinstance(n, ast.Assign) and len(n.targets) == 1 and isinstance(n.targets[0], ast.Name) \
                    and isinstance(n.value, ast.Call) and (callname(n.value) or "").split(".")[-1] in ("zeros", "zeros_like", "full"):
                bad = None
                for sub in ast.walk(n.value):
                    E = element_count_operand(sub)
                    if E is not None and isinstance(E, ast.Name) and E.id == cand:
                        bad = f"`{ast.unparse(sub)}` is an element count of `{cand}`"
                if cand in names_in(n.value):
                    report.add("R4.6", u.qual, f"indicator `{norm_stmt(n, 60)}` has one entry per instance", f"{u.file}:{n.lineno}",
                               bad is None, detail=bad or "length is the number of candidate rows")


def _implies_not_hasattr(test, attr):
    """test => not hasattr(self, attr): the literal itself, or a conjunction containing it"""
    t = test
    if isinstance(t, ast.UnaryOp) and isinstance(t.op, ast.Not) and isinstance(t.operand, ast.Call) \
            and isinstance(t.operand.func, ast.Name) and t.operand.func.id == "hasattr" and len(t.operand.args) == 2 \
            and isinstance(t.operand.args[1], ast.Constant) and t.operand.args[1].value == attr:
        return True
    if isinstance(t, ast.BoolOp) and isinstance(t.op, ast.And):
        return any(_implies_not_hasattr(v, attr) for v in t.values)
    return False


PRIVATE_MAKERS = {"deepcopy", "copy.deepcopy", "clone", "check_budget_manager"}


def _private_value(p, f, v, params, _depth=0):
    """Is the value of expression v a fresh object nobody else holds: a deep copy / clone, or an instance built
    right here (call of a project class or of a `*_class` parameter)?"""
    if not isinstance(v, ast.Call):
        return False
    cn = callname_(v) or ""
    if cn in PRIVATE_MAKERS or cn.split(".")[-1] in ("deepcopy", "clone"):
        return True
    if isinstance(v.func, ast.Name) and v.func.id in params and v.func.id.endswith("_class"):
        return True
    r = p.resolve_expr(f.module, v.func) if isinstance(v.func, (ast.Name, ast.Attribute)) else None
    if r is not None and r[0] == "class":
        return True
    # a private factory method of the same class (`self._create_budget_manager()`): private when each of its returns is
    if _depth < 2 and isinstance(v.func, ast.Attribute) and isinstance(v.func.value, ast.Name) and v.func.value.id == "self" \
            and getattr(f, "cls", None) is not None:
        h = p.find_method(f.cls, v.func.attr)
        if h is not None:
            hp = set(h.all_param_names())
            rets = [n for n in ast.walk(h.node) if isinstance(n, ast.Return) and n.value is not None]
            def _priv_ret(rv):
                if _private_value(p, h, rv, hp, _depth + 1):
                    return True
                if isinstance(rv, ast.Name):
                    defs = [d for d in ast.walk(h.node) if isinstance(d, ast.Assign)
                            and any(isinstance(t, ast.Name) and t.id == rv.id for t in d.targets)]
                    return bool(defs) and rv.id not in hp and all(_private_value(p, h, d.value, hp, _depth + 1) for d in defs)
                return False
            return bool(rets) and all(_priv_ret(n.value) for n in rets)
    return False


def check_manager_private(p, report, rule="R4.9"):
    """The accounting state lives in the manager object: two strategies (or the strategy and its caller) sharing one
    object double-count every instance.  Obligation: check_budget_manager returns a private object on every path, and
    every `self.budget_manager_ = ...` store of a stream strategy stores such a private object."""
    g = None
    for f in p.all_functions():
        if f.name == "check_budget_manager" and f.file.endswith("utils/_validation.py"):
            g = f
    if g is None:
        raise AnalysisError("check_budget_manager not found")
    params = set(g.all_param_names())

    class Fresh(MustAnalysis):
        def __init__(self, fnode):
            super().__init__(fnode)
            self.bad = []
            self.rets = 0

        def transfer(self, node, tokens):
            t = set(tokens)
            if isinstance(node, ast.Assign):
                ok = _private_value(p, g, node.value, params) or (isinstance(node.value, ast.Name) and node.value.id in t)
                for tg in node.targets:
                    if isinstance(tg, ast.Name):
                        (t.add if ok else t.discard)(tg.id)
            return frozenset(t)

    fr = Fresh(g.node).run()
    n_ret = 0
    for (rn, states) in fr.returns:
        if rn is None or rn.value is None:
            continue
        n_ret += 1
        v = rn.value
        for st in states:
            ok = _private_value(p, g, v, params) or (isinstance(v, ast.Name) and v.id in st.tokens)
            if not ok:
                fr.bad.append((rn, describe(st.facts)))
    if n_ret == 0:
        raise AnalysisError("check_budget_manager has no value return")
    report.add(rule, g.qual, "returns a private manager object on every path", f"{g.file}:{(fr.bad[0][0] if fr.bad else g.node).lineno}",
               not fr.bad, detail=f"{n_ret} return(s): deep copy of the given manager or a new instance of the default class"
               if not fr.bad else f"on the path where {fr.bad[0][1] or 'always'} the returned object is the caller's own manager "
               f"(no deepcopy / clone / construction): every strategy given that object, and the caller, then spend from and age "
               f"the same counters, so each of them is granted more than its budget")
    for f in p.all_functions():
        if "/tests/" in f.file or not f.file.startswith("skactiveml/stream/") or "/budgetmanager/" in f.file:
            continue
        for st in ast.walk(f.node):
            if isinstance(st, ast.Assign) and any(isinstance(t, ast.Attribute) and isinstance(t.value, ast.Name)
                                                  and t.value.id == "self" and t.attr == "budget_manager_" for t in st.targets):
                ok = _private_value(p, f, st.value, set(f.all_param_names()))
                report.add(rule, f.qual, f"`{norm_stmt(st, 70)}` stores a private manager", f"{f.file}:{st.lineno}", ok,
                           detail="result of check_budget_manager / deepcopy / clone / a constructor call" if ok else
                           "the stored object is not a private copy: the accounting state would be shared with whoever "
                           "else holds it")


def check_manager_construction(p, report):
    n = 0
    for f in p.all_functions():
        if "/tests/" in f.file or not f.file.startswith("skactiveml/stream/"):
            continue
        tree = None
        for st in ast.walk(f.node):
            if not (isinstance(st, ast.Assign) and isinstance(st.value, ast.Call)
                    and callname_(st.value) == "check_budget_manager"
                    and any(isinstance(t, ast.Attribute) and t.attr == "budget_manager_" for t in st.targets)):
                continue
            tree = tree or FuncTree(f.node)
            guards = [owner.test for (s_, owner, field, idx) in tree.ancestors(st) if isinstance(owner, ast.If) and field == "body"]
            once = any(_implies_not_hasattr(g, "budget_manager_") for g in guards)
            if not once and f.cls is not None and f.name.startswith("_"):
                # the creation was extracted into a private helper: every call of it sits under the guard
                calls = []
                for g_ in f.cls.methods.values():
                    gt = None
                    for c in ast.walk(g_.node):
                        if isinstance(c, ast.Call) and isinstance(c.func, ast.Attribute) and c.func.attr == f.name \
                                and isinstance(c.func.value, ast.Name) and c.func.value.id == "self":
                            gt = gt or FuncTree(g_.node)
                            cg = [owner.test for (s_, owner, field, idx) in gt.ancestors(gt.stmt_of(c))
                                  if isinstance(owner, ast.If) and field == "body"]
                            calls.append(any(_implies_not_hasattr(x, "budget_manager_") for x in cg))
                once = bool(calls) and all(calls)
            a0 = st.value.args[0] if st.value.args else next((k.value for k in st.value.keywords if k.arg == "budget"), None)
            cfg = a0 is not None and ast.unparse(a0) == "self.budget"
            n += 1
            report.add("R4.7", f.qual, f"`{norm_stmt(st, 50)}` built once, with self.budget", f"{f.file}:{st.lineno}", once and cfg,
                       detail="under `not hasattr(self, 'budget_manager_')`, budget=self.budget" if once and cfg else
                       ("the guard does not imply that no manager exists yet: a later call replaces the manager and with it "
                        "everything update recorded (spent estimate back to 0)" if not once else
                        f"the manager is built with `{ast.unparse(a0) if a0 is not None else '?'}` instead of the configured "
                        f"self.budget: on a path where that value is not the configured one the default budget is enforced"))
    # R4.8 filter agreement
    for ci in p.exported_classes("skactiveml.stream"):
        q, u = p.find_method(ci, "query"), p.find_method(ci, "update")
        if q is None or u is None or is_abstract(q) or is_abstract(u):
            continue

        def filter_tests(fn):
            out = {}
            for L in ast.walk(fn.node):
                if not (isinstance(L, ast.For) and "candidates" in names_in(L.iter)):
                    continue
                # per-candidate values computed by a self-method inside the loop
                vals = {t.id for n in L.body if isinstance(n, ast.Assign) and isinstance(n.value, ast.Call)
                        and isinstance(n.value.func, ast.Attribute) and isinstance(n.value.func.value, ast.Name)
                        and n.value.func.value.id == "self" for t in n.targets if isinstance(t, ast.Name)}
                for n in ast.walk(L):
                    if isinstance(n, ast.If) and names_in(n.test) & vals:
                        txt = ast.unparse(n.test)
                        for v in sorted(vals):
                            txt = txt.replace(v, "$V")
                        out.setdefault(txt, n)
            return out
        tq, tu = filter_tests(q), filter_tests(u)
        if not tq and not tu:
            continue
        same = set(tq) == set(tu)
        report.add("R4.8", f"{ci.name}.query/update", "per-candidate filter tests agree", f"{u.file}:{u.node.lineno}", same,
                   detail=f"both use {sorted(tq)}" if same else
                   f"query filters with {sorted(tq)} but update with {sorted(tu)}: an instance can be granted a label by "
                   f"query and dropped (together with its label) before the budget manager's update, which then never "
                   f"accounts for it")


def run(p, report, tier):
    report.rule("R4.1", "inside the per-instance loop every grant (append of the counter / store of a possibly-true "
                "value into queried[i]) can only happen when the budget guard of that iteration is true (boolean "
                "dataflow through guard variables, list-tail reads, conditional expressions; for StreamRandomSampling "
                "the guard may be disjoined only with allow_exceeding_budget)", floor=8)
    report.rule("R4.2", "the guard compares the running spent-estimate (a local seeded from self.<counter>_ and "
                "redefined in the loop) with self.budget_ in the admitting direction", floor=8)
    report.rule("R4.3", "on every path through the loop body the running estimate the guard reads is redefined from "
                "its previous value and the grant indicator", floor=8)
    report.rule("R4.4", "update redefines every attribute that seeds a running estimate from a value that depends on "
                "queried_indices (observation counters: on the number of candidates)", floor=8)
    report.rule("R4.5", "the budget the guards compare with (self.budget_) is re-derived from the constructor parameter "
                "on every validation: no store of it sits under a hasattr(self, 'budget_') test, so lowering the "
                "budget with set_params takes effect", floor=2)
    n45 = 0
    for f in p.all_functions():
        if "/tests/" in f.file or f.cls is None:
            continue
        tree_f = None
        for st in ast.walk(f.node):
            if isinstance(st, ast.Assign) and any(isinstance(t, ast.Attribute) and isinstance(t.value, ast.Name)
                                                  and t.value.id == "self" and t.attr == "budget_" for t in st.targets):
                if tree_f is None:
                    tree_f = FuncTree(f.node)
                guarded = [owner for (s_, owner, field, idx) in tree_f.ancestors(st) if isinstance(owner, ast.If)
                           and "hasattr" in ast.unparse(owner.test) and "budget_" in ast.unparse(owner.test)]
                n45 += 1
                report.add("R4.5", f.qual, f"`{norm_stmt(st, 60)}` re-derived on every validation", f"{f.file}:{st.lineno}",
                           not guarded, detail="unconditional w.r.t. an earlier value" if not guarded else
                           "budget_ is frozen at the first call: a budget lowered later with set_params is ignored and "
                           "labels are granted above it")
    ents = entities(p)
    if len(ents) < 8:
        raise AnalysisError(f"C04: {len(ents)} budget entities found, expected 8")
    report.analysed["entities"] = [f"{c.name}.{f.name}" for c, f in ents]
    for ci, f in ents:
        ent = f"{ci.name}.{f.name}"
        # cached parameters (`w = self.w`), hoisted invariants and named
        # guards (`budget_left = u / w < budget`) are substituted back first
        # (a local seeded from an attribute that update() commits is the
        # running estimate itself and stays a name even if it is never advanced)
        from . import c10 as _c10
        committed = set()
        for u in _c10.update_chain(p, ci):
            for n in ast.walk(u.node):
                if isinstance(n, ast.Attribute) and isinstance(n.ctx, ast.Store) and isinstance(n.value, ast.Name) \
                        and n.value.id == "self":
                    committed.add(n.attr)
        fnode = nest_guard_clauses(inline_temporaries(
            f.node, keep=lambda a, committed=committed: isinstance(a.value, ast.Attribute)
            and isinstance(a.value.value, ast.Name) and a.value.value.id == "self" and a.value.attr in committed))
        L = instance_loop(fnode)
        if L is None:
            report.add("R4.1", ent, "per-instance loop", f"{f.file}:{fnode.lineno}", False,
                       detail="no `for i, x in enumerate(...)` loop containing the decisions")
            continue
        counter = loop_counter(L)
        seeds = seeds_of(fnode)
        # running locals = seeded locals that are redefined inside the loop
        redefined = set()
        for n in ast.walk(L):
            if isinstance(n, (ast.Assign, ast.AugAssign)):
                tg = n.targets if isinstance(n, ast.Assign) else [n.target]
                for t in tg:
                    if isinstance(t, ast.Name):
                        redefined.add(t.id)
        running = set(seeds)
        guards = find_guards(fnode, L, running)
        gr = grants(L, counter)
        if not gr:
            report.add("R4.1", ent, "grant statements", f"{f.file}:{L.lineno}", False,
                       detail="no grant (append of the counter / queried[i] store) found in the loop")
            continue
        if not guards:
            report.add("R4.2", ent, "budget guard on the running estimate", f"{f.file}:{L.lineno}", False,
                       detail="no comparison between a running spent-estimate (local seeded from self.<x>_ and "
                              "updated in the loop) and self.budget_ inside the per-instance loop "
                              f"(running locals: {sorted(running)})")
        for g in guards:
            report.add("R4.2", ent, f"guard `{norm_stmt(g.node, 70)}`", f"{f.file}:{g.node.lineno}", g.direction_ok,
                       detail=g.why + (" - ok" if g.direction_ok else " - comparison is reversed"))
        gf = GuardFlow([g.node for g in guards if g.direction_ok], escape=ESCAPE_FLAGS.get(ent))
        gf.block(L.body, set(), {}, False, counter)
        for s in gf.ok_grants:
            report.add("R4.1", ent, f"grant `{norm_stmt(s, 80)}`", f"{f.file}:{s.lineno}", True,
                       detail="reachable / true only under the budget guard of the iteration")
        for s in gf.bad_grants:
            report.add("R4.1", ent, f"grant `{norm_stmt(s, 80)}`", f"{f.file}:{s.lineno}", False,
                       detail="a label can be granted on a path where the budget guard is false or was not evaluated")
        # R4.3: recurrence of every running estimate read by a guard
        indicators = set()
        tree = FuncTree(fnode)
        for kind, s, b in gr:
            if kind == "append":
                for (anc, owner, field, idx) in tree.ancestors(s):
                    if isinstance(owner, ast.If) and tree.contains(L, owner):
                        indicators |= names_in(owner.test)
            else:
                for t in s.targets:
                    indicators.add(ast.unparse(t))
        indicators -= {"np", counter}
        counters = set()
        for v in sorted({x for g in guards for x in g.running}):
            attr = seeds.get(v)
            is_counter = False
            # observation counters advance by a constant
            for n in ast.walk(L):
                if isinstance(n, ast.AugAssign) and isinstance(n.target, ast.Name) and n.target.id == v \
                        and isinstance(n.value, ast.Constant):
                    is_counter = True
            if is_counter:
                counters.add(v)
            mu = MustUpdate(fnode, L, v, None if is_counter else indicators, grants=[s_ for _k, s_, _b in gr]).run()
            ok = mu.missing is not None and not mu.missing
            report.add("R4.3", ent, f"running estimate `{v}` (seeded from self.{attr}) advanced every iteration",
                       f"{f.file}:{L.lineno}", ok,
                       detail=("redefined from its previous value" + ("" if is_counter else " and the grant indicator") +
                               " on every path") if ok else
                       ("some path through the loop body does not advance it with the grant indicator "
                        f"{sorted(indicators)}" + (": " + describe(mu.missing[0].facts) if mu.missing else "")))
        # R4.4: commit in update
        upd = p.find_method(ci, "update")
        if upd is None:
            report.add("R4.4", ent, "update method", f"{f.file}:{fnode.lineno}", False, detail="no update method")
            continue
        it = Interp(p)
        it.run_entity(ci, upd)
        ws = writes(it.events, roots=("self",))
        for v in sorted({x for g in guards for x in g.running}):
            attr = seeds.get(v)
            hits = [w for w in ws if w.kind == "store" and w.loc == ("self", (attr,))
                    and "hasattr" not in " ".join(norm_stmt(t) for t, _ in w.ev.guards if isinstance(t, ast.expr))]
            dep_q = [w for w in hits if any(isinstance(d, tuple) and d[0] in ("p:queried_indices", "p:candidates")
                                            for d in w.ev.data["value"].deps) or (v in counters and _in_param_loop(w.ev))]
            report.add("R4.4", f"{ci.name}.update", f"self.{attr} committed from queried_indices/candidates",
                       f"{upd.file}:{upd.node.lineno}", bool(dep_q),
                       detail=(f"`{norm_stmt(dep_q[0].ev.node, 70)}`" if dep_q else
                               f"no store to self.{attr} in update depends on queried_indices / candidates"))
    # the commit applies the recurrence the simulation (and hence the guard) assumed
    from . import c10
    c10.check_transitions(p, report, [(ci, f) for ci, f in ents], "R4.4")
    # per-instance indicator must not be used after its loop (only the last
    # instance of a chunk would be accounted)
    seen_fn = set()
    for ci, f in ents:
        for g in (f, p.find_method(ci, "update")):
            if g is None or id(g.node) in seen_fn:
                continue
            seen_fn.add(id(g.node))
            stale = stale_loop_vars(g.node)
            report.add("R4.4", g.qual, "no per-instance loop variable is read after its loop", f"{g.file}:{g.node.lineno}",
                       not stale, detail="; ".join(f"`{v}` (loop at line {ll}) read at line {ln}" for v, ll, ln in stale) or
                       "accounting statements stay inside the per-instance loop", nontrivial=False)
    report.rule("R4.6", "the commit advances the spent-estimate once per observed instance and by the number of granted "
                "labels: an `update` called from inside a per-instance loop receives a one-instance slice; the "
                "increments count candidate ROWS (never the elements of the 2-d candidates array) and count the "
                "queried indices by their number (len / indicator sum), never by a reduction over the index values; no increment sits under a test of a "
                "constructor parameter (the account is kept in every mode)", floor=8)
    check_commit_counts(p, report, ents)
    report.rule("R4.7", "the budget manager that does the accounting is built once and with the configured budget: every "
                "`self.budget_manager_ = check_budget_manager(...)` sits under a test that implies the attribute does "
                "not exist yet (`not hasattr(self, 'budget_manager_')`, possibly conjoined, never disjoined with something "
                "that can hold later), and its first argument is the constructor parameter `self.budget`", floor=8)
    report.rule("R4.8", "query and update of a strategy that filters the instances it shows to its budget manager filter "
                "with the same tests: the If tests on the per-candidate filter value in the candidate loop of update are "
                "those of query (an instance granted a label by query must not be dropped by update)", floor=2)
    check_manager_construction(p, report)
    report.rule("R4.9", "every strategy spends from a manager of its own: check_budget_manager returns, on every path, a "
                "deep copy of the manager it was given or a newly built instance, and every `self.budget_manager_ = ...` "
                "store of a stream strategy stores such an object (a shared manager is aged and charged by all its holders, "
                "which lifts each holder's spend above its budget)", floor=8)
    check_manager_private(p, report, "R4.9")
    report.rule("R4.11", "a stream strategy shows a chunk to its budget manager in ONE query_by_utility call (whose per-instance "
                "simulation carries the spent estimate from one instance to the next): a query_by_utility call inside the "
                "strategy's own loop over the candidates judges every instance of the chunk against the same committed state, so "
                "a chunk can be granted far more labels than the bound allows (40 of 50 at budget 0.1)", floor=2)
    check_one_consultation_per_chunk(p, report, "R4.11")
    report.rule("R4.10", "the label account is kept in full-width numbers: no array or scalar in the stream strategies and budget "
                "managers is created with / cast to a bounded-width dtype (uint8, int8/16, float16/32): an indicator of that "
                "type added to a counter turns the counter into it, and the count of granted labels wraps (255 + 1 = 0) or "
                "stops growing (float32 at 2**24), after which the guard admits labels without end", floor=10)
    check_no_narrow_dtype(p, report, "R4.10", lambda f: f.file.startswith("skactiveml/stream/") or
                          (f.cls is not None and f.cls.name in ("BudgetManager", "SingleAnnotatorStreamQueryStrategy")))
    report.assumptions += [
        "the numerical bounds of the property follow from R4.1-R4.4 by arithmetic that is not in the code; only the four structural premises are decided",
        "strict vs. non-strict comparison is not judged",
        "BalancedIncrementalQuantileFilter is not budget-enforcing in the sense of the property and is excluded",
    ]


NARROW = {"uint8", "int8", "int16", "uint16", "float16", "float32", "half", "single", "ubyte", "byte", "short", "ushort",
          "uint32", "int32", "intc", "uintc"}
NARROW_CODES = {"u1", "i1", "i2", "u2", "f2", "f4", "e", "f", "b", "B", "h", "H", "u4", "i4", "uint8", "int8", "int16",
                "uint16", "float16", "float32", "int32", "uint32"}


def _narrow_dtype_expr(e):
    if isinstance(e, ast.Attribute) and e.attr in NARROW:
        return True
    if isinstance(e, ast.Name) and e.id in NARROW:
        return True
    if isinstance(e, ast.Constant) and isinstance(e.value, str) and e.value.lstrip("<>=|") in NARROW_CODES:
        return True
    if isinstance(e, ast.Call) and (callname_(e) or "").split(".")[-1] == "dtype" and e.args:
        return _narrow_dtype_expr(e.args[0])
    return False


def check_no_narrow_dtype(p, report, rule, scope):
    """Obligation per function in scope that creates or casts arrays: none of its dtype arguments is bounded-width."""
    for f in sorted(p.all_functions(), key=lambda f: f.qual):
        if "/tests/" in f.file or not scope(f):
            continue
        n, bad = 0, None
        for c in ast.walk(f.node):
            if not isinstance(c, ast.Call):
                continue
            fn = (callname_(c) or "").split(".")[-1]
            dts = [k.value for k in c.keywords if k.arg == "dtype"]
            if fn in ("astype", "view") and c.args:
                dts.append(c.args[0])
            if fn in NARROW and isinstance(c.func, ast.Attribute):      # np.uint8(x)
                dts.append(c.func)
            if not dts and fn not in ("zeros", "ones", "full", "empty", "array", "asarray", "arange", "zeros_like", "ones_like",
                                      "full_like", "empty_like"):
                continue
            n += 1
            if bad is None and any(_narrow_dtype_expr(d) for d in dts):
                bad = c
        if n:
            report.add(rule, f.qual, "arrays are created and cast in full-width dtypes", f"{f.file}:{(bad or f.node).lineno}",
                       bad is None, nontrivial=False, detail=f"{n} creation / cast site(s)" if bad is None else
                       f"`{ast.unparse(bad)[:70]}` has a bounded-width dtype: whatever is accumulated from it inherits that width "
                       f"(numpy keeps the array's dtype when a python number is added) and overflows / saturates silently")


def check_one_consultation_per_chunk(p, report, rule):
    n = 0
    for f in sorted(p.all_functions(), key=lambda f: f.qual):
        if "/tests/" in f.file or not f.file.startswith("skactiveml/stream/") or "/budgetmanager/" in f.file \
                or f.name != "query" or f.cls is None:
            continue
        tree = FuncTree(f.node)
        calls = [c for c in ast.walk(f.node) if isinstance(c, ast.Call) and isinstance(c.func, ast.Attribute)
                 and c.func.attr == "query_by_utility"]
        for c in calls:
            n += 1
            loops = [o for (_s, o, _f, _i) in tree.ancestors(tree.stmt_of(c)) if isinstance(o, (ast.For, ast.While))]
            report.add(rule, f.qual, f"`{norm_stmt(tree.stmt_of(c), 60)}` sees the whole chunk", f"{f.file}:{c.lineno}", not loops,
                       detail="one call per query" if not loops else
                       f"called once per iteration of `{norm_stmt(loops[0], 50)}` while nothing commits the grants in between: each "
                       f"instance is decided with the spent-budget estimate (and the random draw) from before the chunk")
    if n == 0:
        raise AnalysisError("no query_by_utility consultation found in the stream strategies")
