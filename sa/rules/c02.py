"""C02 - returned utilities agree with the selection (ordering / masking)."""
import ast

from ..astutil import FuncTree, dominates
from ..common import norm_stmt, site_id
from ..deps import names_in, base_name, index_names, closure, forward_closure
from ..index import AnalysisError
from . import c01


def returned_utility_names(fnode, ff):
    """Value sources of the utilities a function returns: 2nd tuple element,
    or the whole value for functions returning a single array."""
    seeds = set()
    for n in ast.walk(fnode):
        if isinstance(n, ast.Return) and n.value is not None and not c01._in_nested(fnode, n):
            v = n.value
            if isinstance(v, ast.Tuple) and len(v.elts) >= 2:
                seeds |= c01.value_sources(v.elts[1], ff.locs)
            elif not isinstance(v, ast.Tuple):
                seeds |= c01.value_sources(v, ff.locs)
    return closure(seeds, ff.vedges), seeds


def nan_stores(L, names):
    """NaN stores inside loop L whose index mentions one of `names`."""
    out = []
    for n in ast.walk(L):
        if isinstance(n, ast.Assign) and c01.is_nan_expr(n.value):
            for t in n.targets:
                if isinstance(t, ast.Subscript) and (index_names(t) & names):
                    out.append((n, base_name(t)))
    return out


CONST_ALLOC = {"zeros", "ones", "full", "empty", "zeros_like", "ones_like", "full_like", "empty_like", "array", "arange", "list", "set"}


def _pick_pure_names(fnode, pick_names, neutral):
    """names whose value is determined by the picks alone: every plain definition is a constant allocation / empty
    container or an expression over pure (and neutral) names; pick accumulators qualify only if they START that way"""
    defs = {}
    for n in ast.walk(fnode):
        if isinstance(n, ast.Assign):
            for t in n.targets:
                for x in (t.elts if isinstance(t, (ast.Tuple, ast.List)) else [t]):
                    if isinstance(x, ast.Name):
                        defs.setdefault(x.id, []).append(n.value if x is t else None)
        elif isinstance(n, (ast.For, ast.comprehension)):
            for x in ast.walk(n.target):
                if isinstance(x, ast.Name):
                    defs.setdefault(x.id, []).append(n.iter)
    def const_alloc(v):
        if isinstance(v, (ast.List, ast.Tuple, ast.Set)) and not v.elts:
            return True
        if isinstance(v, ast.Constant):
            return True
        if isinstance(v, ast.Call):
            fn = (c01.callname(v) or "").split(".")[-1]
            if fn in CONST_ALLOC:
                # shape arguments may mention anything; a *_like / array(...) of data is not constant
                if fn in ("array", "list", "set"):
                    return not v.args or (isinstance(v.args[0], (ast.List, ast.Tuple)) and not v.args[0].elts)
                if fn.endswith("_like"):
                    return len(v.args) >= 2 or any(k.arg == "fill_value" for k in v.keywords) or fn in ("zeros_like", "ones_like", "empty_like")
                return True
        return False
    pure = set()
    changed = True
    while changed:
        changed = False
        for name, vs in defs.items():
            if name in pure:
                continue
            ok = True
            for v in vs:
                if v is None:
                    ok = False
                    break
                if const_alloc(v):
                    continue
                used = names_in(v) - {"np", "numpy", "self", name} - neutral
                if not used and any(isinstance(x, ast.Attribute) and isinstance(x.value, ast.Name) and x.value.id == "self" for x in ast.walk(v)):
                    ok = False
                    break
                if not (used <= (pure | set(pick_names_sel(pick_names, defs, const_alloc)))):
                    ok = False
                    break
                if not used and not isinstance(v, (ast.Name, ast.Subscript, ast.Call, ast.BinOp, ast.UnaryOp, ast.Compare)):
                    ok = False
                    break
            if ok:
                pure.add(name)
                changed = True
    return pure | pick_names_sel(pick_names, defs, const_alloc)


def pick_names_sel(pick_names, defs, const_alloc):
    """pick names that are either never plainly defined from other data (selection results) or start constant"""
    out = set()
    for nm in pick_names:
        vs = defs.get(nm, [])
        calls_only = all(v is None or const_alloc(v) or isinstance(v, (ast.Call, ast.Subscript, ast.Name, ast.BinOp)) for v in vs)
        starts_const = any(v is not None and const_alloc(v) for v in vs)
        data_init = any(v is not None and isinstance(v, ast.Call) and (c01.callname(v) or "").split(".")[-1] in (
            "is_unlabeled", "is_labeled", "labeled_indices", "unlabeled_indices", "astype", "copy") for v in vs)
        if data_init and not starts_const:
            continue
        if calls_only:
            out.add(nm)
    return out


def check_loops(p, report, funcs, facts, rule21="R2.1", rule22="R2.2", only=None):
    for rec in c01.loop_records(funcs, facts):
        f, ff, L, S, rnames, acc, edges, fw = rec
        if only is not None and f.qual not in only:
            continue
        tree = FuncTree(f.node)
        s_stmt = tree.stmt_of(S)
        retu, retu_seeds = returned_utility_names(f.node, ff)
        pick_names = rnames | acc
        masks = nan_stores(L, pick_names)
        ent = f.qual
        loop_id = f"loop `{norm_stmt(L, 50)}` selection {site_id(S, 60)}"
        # snapshots: stores R[...] = T (value edges inside the loop)
        snaps = []
        for n in ast.walk(L):
            if isinstance(n, ast.Assign):
                for t in n.targets:
                    if isinstance(t, ast.Subscript):
                        srcs = c01.value_sources(n.value, ff.locs)
                        snaps.append((n, base_name(t), srcs))
        # statements that update an accumulator with the value of the pick
        updates = {}
        for n in ast.walk(L):
            if isinstance(n, ast.Assign):
                for t in n.targets:
                    b = base_name(t)
                    if b in acc and (c01.value_sources(n.value, ff.locs) & (rnames | acc) or n is s_stmt):
                        updates.setdefault(b, []).append(n)
            elif isinstance(n, ast.Expr) and isinstance(n.value, ast.Call) and isinstance(n.value.func, ast.Attribute) \
                    and n.value.func.attr in ("append", "extend", "insert"):
                b = base_name(n.value.func.value)
                if b in acc:
                    updates.setdefault(b, []).append(n)
        n21 = 0
        for (m, T) in masks:
            mt = m.targets[0]
            inames = index_names(mt)
            direct = inames & (rnames - acc)
            via_acc = any(any(dominates(tree, u, m) and u is not m for u in updates.get(a, [])) for a in (inames & acc))
            after = dominates(tree, s_stmt, m) and m is not s_stmt and (bool(direct) or via_acc)
            if after:
                # masks the pick of THIS iteration in T
                if T not in retu:
                    report.add(rule21, ent, f"{loop_id}: mask `{norm_stmt(m, 70)}` after selection", f"{f.file}:{m.lineno}",
                               True, detail=f"`{T}` is not returned as utilities")
                    n21 += 1
                    continue
                snap = [sn for (sn, R, srcs) in snaps if T in srcs and R != T and R in retu and dominates(tree, sn, m)]
                ok = bool(snap)
                report.add(rule21, ent, f"{loop_id}: mask `{norm_stmt(m, 70)}` after selection", f"{f.file}:{m.lineno}", ok,
                           detail=(f"row snapshot `{norm_stmt(snap[0], 60)}` precedes the mask of the current pick") if ok else
                           "the pick of this iteration is set to NaN in its own returned row (no snapshot of the row "
                           "is taken before the mask)")
                n21 += 1
            else:
                # mask of earlier picks (accumulator not yet updated with the
                # pick of this iteration)
                before_sel = dominates(tree, m, s_stmt) and m is not s_stmt
                in_ret = T in retu
                # a mask of the EARLIER picks placed after the selection neither excludes them from this
                # step's selection nor leaves the winner a number in its own row
                other_excl = any(b_ == T and st_ is not m and dominates(tree, st_, s_stmt)
                                 for (st_, b_, k_) in c01.exclusion_statements(L, pick_names))
                # ... or the masked array comes out of a helper that received the picks and excluded them itself
                via_helper = any(isinstance(a_, ast.Assign) and isinstance(a_.value, ast.Call)
                                 and any(base_name(t_) == T for t_ in a_.targets)
                                 and dominates(tree, a_, s_stmt)
                                 and c01.callee_exclusions(p, f, a_.value, pick_names)
                                 for a_ in ast.walk(L))
                okm = before_sel or not in_ret or other_excl or via_helper
                report.add(rule21, ent, f"{loop_id}: mask `{norm_stmt(m, 70)}` of earlier picks", f"{f.file}:{m.lineno}", okm,
                           detail="indexed by the accumulator before it is updated with the current pick; precedes the selection"
                           if okm else
                           "the mask of the earlier picks is applied after this step's selection: the selection still sees "
                           "them (duplicates) and a re-selected winner is NaN in its own row")
                n21 += 1
                # R2.2: a mask of earlier picks on the returned row must be
                # matched by an exclusion in the operand of the selection
                if T in retu:
                    ops = c01.operand_names(S, ff.locs)
                    back = closure(ops, edges)
                    matched = (T in back) or bool(back & fw)
                    report.add(rule22, ent, f"{loop_id}: row mask `{norm_stmt(m, 70)}` matched by operand",
                               f"{f.file}:{m.lineno}", matched,
                               detail="operand is (derived from) the masked row or excludes earlier picks itself" if matched
                               else "the returned row is masked at earlier picks but the selection reads an operand "
                                    "that does not exclude them: the chosen sample can be NaN in its own row")
        # R2.11: a NaN written into a returned row inside the selection loop marks EARLIER PICKS only: its index is built
        # from the picks (accumulators that start empty / constant), never from data that also encodes labels
        if rule21 == "R2.1":
            counters = {n.id for n in ast.walk(L.target) if isinstance(n, ast.Name)} if isinstance(L, ast.For) else set()
            neutral = set(c01._mapping_names(f)) | counters
            pure = _pick_pure_names(f.node, pick_names, neutral)
            for n in ast.walk(L):
                if not (isinstance(n, ast.Assign) and c01.is_nan_expr(n.value)):
                    continue
                for t in n.targets:
                    if not (isinstance(t, ast.Subscript) and base_name(t) in retu):
                        continue
                    ix = {x for x in (index_names(t) - neutral - {"np", "numpy"}) if x in ff.locs}
                    bad = sorted(x for x in ix if x not in pure)
                    report.add("R2.11", ent, f"{loop_id}: NaN store `{norm_stmt(n, 60)}` marks picks only", f"{f.file}:{n.lineno}",
                               not bad, detail="index built from the picks" if not bad else
                               f"`{bad[0]}` in the index is not built from the picks alone (it is initialised from other data, "
                               f"e.g. the labels): samples that were never picked - labeled candidates - are NaN in every row and "
                               f"can be returned with a NaN utility")
        # R2.13: what the later steps' utilities are computed from is updated with every pick in EVERY configuration: a
        # pick-indexed store into an array the selection operand depends on is not switched off by a loop-invariant flag
        if rule21 == "R2.1":
            assigned_in_loop = {n.id for n in ast.walk(L) if isinstance(n, ast.Name) and isinstance(n.ctx, ast.Store)}
            params_ = set(f.all_param_names())
            ops13 = closure(c01.operand_names(S, ff.locs), edges)
            for n in ast.walk(L):
                if not (isinstance(n, ast.Assign) and len(n.targets) == 1 and isinstance(n.targets[0], ast.Subscript)
                        and base_name(n.targets[0]) in ops13 and (index_names(n.targets[0]) & pick_names)
                        and not c01.is_nan_expr(n.value) and not isinstance(n.value, ast.Constant)):
                    continue
                flag = None
                for (s_, owner, field, idx_) in tree.ancestors(n):
                    if owner is L:
                        break
                    if isinstance(owner, ast.If) and field == "body" and tree.contains(L, owner):
                        # an alternative store into the same array in the other arm is a mode switch, not a switch-off
                        alt = any(isinstance(m, ast.Assign) and isinstance(m.targets[0], ast.Subscript)
                                  and base_name(m.targets[0]) == base_name(n.targets[0]) for st_ in owner.orelse for m in ast.walk(st_))
                        if alt:
                            continue
                        atoms = owner.test.values if isinstance(owner.test, ast.BoolOp) and isinstance(owner.test.op, ast.And) else [owner.test]
                        for at in atoms:
                            nm = names_in(at) - {"np", "numpy", "len"}
                            if nm and not (nm & assigned_in_loop) and not (nm & params_) \
                                    and not any(isinstance(x, ast.Attribute) for x in ast.walk(at)):
                                flag = flag or (owner, at)
                report.add("R2.13", ent, f"{loop_id}: update `{norm_stmt(n, 60)}` happens in every configuration",
                           f"{f.file}:{n.lineno}", flag is None,
                           detail="not under a loop-invariant flag" if flag is None else
                           f"`{ast.unparse(flag[1])[:50]}` does not change inside the loop: when it is false the array `{base_name(n.targets[0])}` "
                           f"that the later selections read is never brought up to date with the picks, so from the second step on the "
                           f"utilities (and the winners' own entries) are stale / NaN in that configuration")
        if n21 == 0:
            # exclusion by another mechanism (distance-to-selected, shrinking pool): nothing to order
            report.add(rule21, ent, f"{loop_id}: no NaN mask indexed by the picks", f"{f.file}:{S.lineno}", True,
                       detail="exclusion by a mechanism other than NaN masking (R1.4 decides it)", nontrivial=False)


def check_zero_mask_preserved(p, report, funcs, facts):
    for rec in c01.loop_records(funcs, facts):
        f, ff, L, S, rnames, acc, edges, fw = rec
        if c01.callname(S) != "choice":
            continue
        tree = FuncTree(f.node)
        s_stmt = tree.stmt_of(S)
        ops = c01.operand_names(S, ff.locs)
        picks = rnames | acc
        for n in ast.walk(L):
            if isinstance(n, ast.Assign) and isinstance(n.value, ast.Constant) and n.value.value == 0:
                t = n.targets[0]
                if not (isinstance(t, ast.Subscript) and (index_names(t) & picks)):
                    continue
                T = base_name(t)
                if not dominates(tree, n, s_stmt):
                    continue
                # re-derivations of T between the zero store and the draw
                bad = None
                for m in ast.walk(L):
                    if isinstance(m, ast.Assign) and any(isinstance(x, ast.Name) and x.id == T for x in m.targets) \
                            and dominates(tree, n, m) and m is not n and (dominates(tree, m, s_stmt)) \
                            and T in names_in(m.value):
                        v = m.value
                        ok = isinstance(v, ast.BinOp) and isinstance(v.op, (ast.Div, ast.Mult)) and \
                            isinstance(v.left, ast.Name) and v.left.id == T
                        if not ok:
                            bad = m
                if T not in ops and not (closure(ops, edges) & {T}):
                    continue
                report.add("R2.3", f.qual, f"zero mask `{norm_stmt(n, 50)}` survives until the draw", f"{f.file}:{n.lineno}",
                           bad is None, detail="only scaled afterwards" if bad is None else
                           f"`{norm_stmt(bad, 60)}` re-derives the masked array by an operation that does not preserve "
                           "zero (0 ** 0 == 1): an earlier pick keeps positive sampling mass")


SHAPE_ONLY = {"ones_like", "zeros_like", "full_like", "empty_like", "ones", "zeros", "full", "empty", "len", "arange"}


def _value_names(e):
    """Names whose VALUES an expression depends on: arguments of shape-only
    constructors (ones_like(x), len(x), x.shape) are not value uses."""
    out = set()

    def walk(n):
        if isinstance(n, ast.Call) and c01.callname(n) in SHAPE_ONLY:
            for k in n.keywords:
                if k.arg == "fill_value":
                    walk(k.value)
            if c01.callname(n) in ("full", "full_like") and len(n.args) >= 2:
                walk(n.args[1])
            return
        if isinstance(n, ast.Attribute) and n.attr in ("shape", "ndim", "size", "dtype"):
            return
        if isinstance(n, ast.Name):
            out.add(n.id)
        for c in ast.iter_child_nodes(n):
            walk(c)
    walk(e)
    return out


def check_sampled_is_recorded(p, report, funcs, facts):
    """R2.4: for a sampling-based selection the distribution handed to
    choice(p=P) is the one recorded in the returned row."""
    for f in funcs:
        ff = facts[id(f.node)]
        retu, retu_seeds = returned_utility_names(f.node, ff)
        if not retu_seeds:
            continue
        for S in ast.walk(f.node):
            if not (isinstance(S, ast.Call) and c01.callname(S) == "choice"):
                continue
            pk = [k.value for k in S.keywords if k.arg == "p"]
            if not pk or not isinstance(pk[0], ast.Name):
                continue
            # the draw must produce returned indices
            tree = FuncTree(f.node)
            s_stmt = tree.stmt_of(S)
            tg = set()
            if isinstance(s_stmt, ast.Assign):
                for t in s_stmt.targets:
                    b = base_name(t)
                    if b:
                        tg.add(b)
            if not ((forward_closure(tg, ff.vedges) | tg) & ff.ret_closure):
                continue
            P = pk[0].id
            lo, hi = s_stmt.lineno, getattr(s_stmt, "end_lineno", s_stmt.lineno)
            # (a) stores of P (or of an expression of P) into a returned row
            recs = []
            for n in ast.walk(f.node):
                if isinstance(n, ast.Assign) and n is not s_stmt and P in _value_names(n.value):
                    for t in n.targets:
                        b = base_name(t)
                        if b in retu and b != P:
                            recs.append(n)
            rebinds = [n for n in ast.walk(f.node)
                       if isinstance(n, ast.Assign) and any(isinstance(t, ast.Name) and t.id == P for t in n.targets)]
            construct = f"distribution of {site_id(S, 60)} is the recorded row"
            if recs:
                bad = None
                for r in recs:
                    a, b = sorted((r.lineno, s_stmt.lineno))
                    for m in rebinds:
                        if a < m.lineno < b or (m.lineno == b and m is not r and m is not s_stmt and False):
                            bad = (r, m)
                    if bad is None:
                        break
                else:
                    r, m = bad
                    report.add("R2.4", f.qual, construct, f"{f.file}:{m.lineno}", False,
                               detail=f"`{norm_stmt(m, 60)}` rebinds the distribution between the draw and the row store "
                                      f"`{norm_stmt(r, 50)}`: the recorded row is not what was sampled from")
                    continue
                report.add("R2.4", f.qual, construct, f"{f.file}:{S.lineno}", True,
                           detail=f"row store `{norm_stmt(recs[0], 60)}` with no rebinding of `{P}` in between")
                continue
            # (b) no store of P: every definition of P is a view of the row or
            # is computed from the values the recorded rows hold
            row_src = set(retu)
            bad = None
            for m in rebinds:
                v = m.value
                view = isinstance(v, (ast.Subscript, ast.Name)) and base_name(v) in retu
                vals = _value_names(v)
                derived = bool(vals & row_src) or bool(closure(vals & ff.locs, ff.vedges) & retu_seeds)
                selfref = P in vals  # P = P / s keeps whatever P was
                if not (view or derived or selfref):
                    bad = m
            report.add("R2.4", f.qual, construct, f"{f.file}:{(bad or S).lineno}", bad is None,
                       detail=f"every definition of `{P}` is a view of, or computed from, the returned rows" if bad is None
                       else f"`{norm_stmt(bad, 60)}` gives the draw a distribution that is never recorded in the "
                            "returned utilities: the chosen sample can have zero mass in its row")


def check_minmax_offsets(p, report, funcs, rule):
    EXT_MAX = ("max", "nanmax", "amax")
    EXT_MIN = ("min", "nanmin", "amin")

    def ext(e, which):
        return isinstance(e, ast.Call) and (c01.callname(e) or "").split(".")[-1] in which

    def span(e):
        """x if e is max(x) - min(x) over the same operand"""
        if isinstance(e, ast.BinOp) and isinstance(e.op, ast.Sub) and ext(e.left, EXT_MAX) and ext(e.right, EXT_MIN):
            def opnd(c):
                if c.args:
                    return ast.unparse(c.args[0])
                return ast.unparse(c.func.value) if isinstance(c.func, ast.Attribute) else None
            if opnd(e.left) == opnd(e.right):
                return opnd(e.left)
        return None

    n = 0
    for f in funcs:
        for node in ast.walk(f.node):
            if not (isinstance(node, ast.BinOp) and isinstance(node.op, ast.Div)):
                continue
            d = node.right
            bare = span(d)
            offset = None
            if isinstance(d, ast.BinOp) and isinstance(d.op, ast.Add):
                for a, b in ((d.left, d.right), (d.right, d.left)):
                    if span(a) is not None and isinstance(b, ast.Constant) and isinstance(b.value, (int, float)) and b.value > 0:
                        offset = span(a)
            if bare is None and offset is None:
                continue
            n += 1
            report.add(rule, f.qual, f"min-max normalisation `{norm_stmt(node, 60)}` cannot be 0/0", f"{f.file}:{node.lineno}",
                       offset is not None,
                       detail="denominator offset by a positive constant" if offset is not None else
                       f"`{ast.unparse(d)[:60]}` is 0 whenever `{bare}` is constant (e.g. duplicated candidates): the component, and "
                       f"with it the whole utility row, is NaN; rand_argmax over an all-NaN row returns position 0 again and again")
    return n


class CandDep:
    """Must-dependence of local values on the candidate set: a name carries the token when, on EVERY path to the
    current point, its value was computed from `candidates` or from what `_transform_candidates` returned."""

    def __init__(self, fnode, seeds, selection_ids=()):
        from ..paths import MustAnalysis, describe
        outer = self
        self.sites = []   # (node, label, ok, path description)

        loop_of_target = {id(L.target): L for L in ast.walk(fnode) if isinstance(L, (ast.For, ast.AsyncFor))}

        def filled_in(L):
            """arrays / lists filled element-wise inside L at positions or with values taken from the loop variable"""
            tv = {n.id for n in ast.walk(L.target) if isinstance(n, ast.Name)}
            out = set()
            for m in ast.walk(L):
                if isinstance(m, ast.Assign):
                    for tg in m.targets:
                        if isinstance(tg, ast.Subscript) and base_name(tg) and (names_in(tg.slice) | names_in(m.value)) & tv:
                            out.add(base_name(tg))
                elif isinstance(m, ast.Expr) and isinstance(m.value, ast.Call) and isinstance(m.value.func, ast.Attribute) \
                        and m.value.func.attr in ("append", "extend") and names_in(m.value) & tv:
                    b = base_name(m.value.func.value)
                    if b:
                        out.add(b)
            return out

        class A(MustAnalysis):
            def stmt(self, s, states):
                if isinstance(s, (ast.For, ast.AsyncFor)):
                    # a container filled element by element in a loop OVER the candidates depends on them even when the
                    # loop runs zero times (it then stays empty / all-NaN)
                    from ..paths import St
                    fl = filled_in(s)
                    states = [St(x.facts, x.tokens | fl) if (names_in(s.iter) & x.tokens) else x for x in states]
                return super().stmt(s, states)

            def transfer(self, node, tokens):
                t = set(tokens)
                if isinstance(node, ast.Assign) and len(node.targets) == 1 and id(node.targets[0]) in loop_of_target \
                        and isinstance(node.value, ast.Constant) and node.value.value is None:
                    L_ = loop_of_target[id(node.targets[0])]
                    d_ = bool(names_in(L_.iter) & t)
                    for n_ in ast.walk(L_.target):
                        if isinstance(n_, ast.Name):
                            (t.add if d_ else t.discard)(n_.id)
                    return frozenset(t)

                def dep(e):
                    return e is not None and bool(names_in(e) & t)

                def bind(tg, d):
                    if isinstance(tg, ast.Name):
                        (t.add if d else t.discard)(tg.id)
                    elif isinstance(tg, (ast.Tuple, ast.List)):
                        for e in tg.elts:
                            bind(e, d)
                    elif isinstance(tg, ast.Starred):
                        bind(tg.value, d)
                    elif isinstance(tg, (ast.Subscript, ast.Attribute)):
                        b = base_name(tg)
                        if b and (d or (isinstance(tg, ast.Subscript) and dep(tg.slice))):
                            t.add(b)
                if isinstance(node, ast.Assign):
                    v = node.value
                    if isinstance(v, ast.Call) and isinstance(v.func, ast.Attribute) and v.func.attr == "_validate_data" \
                            and len(node.targets) == 1 and isinstance(node.targets[0], (ast.Tuple, ast.List)):
                        argn = {a.id for a in v.args if isinstance(a, ast.Name)} | {
                            k.value.id for k in v.keywords if isinstance(k.value, ast.Name)}
                        for e in node.targets[0].elts:
                            if isinstance(e, ast.Name) and e.id not in argn:
                                bind(e, dep(v))
                    elif isinstance(v, (ast.Tuple, ast.List)) and len(node.targets) == 1 \
                            and isinstance(node.targets[0], (ast.Tuple, ast.List)) and len(v.elts) == len(node.targets[0].elts):
                        ds = [dep(e) for e in v.elts]
                        for e, d in zip(node.targets[0].elts, ds):
                            bind(e, d)
                    else:
                        d = dep(v)
                        for tg in node.targets:
                            bind(tg, d)
                elif isinstance(node, ast.AugAssign):
                    if dep(node.value):
                        bind(node.target, True)
                elif isinstance(node, ast.AnnAssign) and node.value is not None:
                    bind(node.target, dep(node.value))
                elif isinstance(node, ast.Expr) and isinstance(node.value, ast.Call) \
                        and isinstance(node.value.func, ast.Attribute) and dep(node.value):
                    b = base_name(node.value.func.value)
                    if b:
                        t.add(b)
                elif isinstance(node, (ast.For, ast.comprehension)):
                    bind(node.target, dep(node.iter))
                return frozenset(t)

            def use(self, expr, state, stmt):
                for c in ast.walk(expr):
                    if not isinstance(c, ast.Call):
                        continue
                    cn = c01.callname(c)
                    op = None
                    if cn == "simple_batch" and c.args:
                        op = c.args[0]
                    elif id(c) not in selection_ids:
                        continue
                    elif cn in ("rand_argmax", "rand_argmin", "argmax", "argmin", "nanargmax", "nanargmin") and c.args:
                        op = c.args[0]
                    elif cn == "choice":
                        op = next((k.value for k in c.keywords if k.arg == "p"), None)
                    if op is not None and names_in(op):
                        outer.sites.append((c, ast.unparse(op)[:40], bool(names_in(op) & state.tokens),
                                            describe(state.facts)))
        self.a = A(fnode, init_tokens=seeds)
        self.a.run()


def check_candidate_dependence(p, report, rule):
    """The utilities a pool query ranks have to be computed from the candidate set on every path: an array that does
    not depend on `candidates` / `X_cand` / `mapping` at all gives numbers to (and selects) samples the caller
    excluded."""
    n = 0
    funcs = c01.pool_functions(p)
    facts = {id(f.node): c01.FnFacts(f) for f in funcs}
    sel = {}
    for rec in c01.loop_records(funcs, facts):
        sel.setdefault(id(rec[0].node), set()).add(id(rec[3]))
    for ci, f in c01.pool_query_entities(p):
        if "candidates" not in f.all_param_names():
            continue
        cd = CandDep(f.node, {"candidates"}, sel.get(id(f.node), ()))
        by = {}
        for (c, lab, ok, path) in cd.sites:
            k = id(c)
            cur = by.get(k)
            if cur is None or (cur[2] and not ok):
                by[k] = (c, lab, ok, path)
        for (c, lab, ok, path) in by.values():
            n += 1
            report.add(rule, f"{ci.name}.query", f"utilities `{lab}` ranked by {site_id(c, 50)} are computed from the candidate set",
                       f"{f.file}:{c.lineno}", ok,
                       detail="on every path the array derives from candidates / X_cand / mapping" if ok else
                       f"on the path where {path or 'always'} the ranked array is computed without the candidate set (neither "
                       f"`candidates` nor what _transform_candidates returned flows into it): samples the caller did not offer "
                       f"get numbers and can be selected")
    return n


def run(p, report, tier):
    report.rule("R2.1", "within one iteration of a selection loop the NaN mask of the current pick is applied only "
                "after the returned row was snapshotted (or to an array that is not returned), and masks of earlier "
                "picks dominate the selection", floor=12)
    report.rule("R2.2", "a NaN mask of earlier picks on the returned row is matched by an exclusion in the operand "
                "the selection call reads (operand derived from the masked row, or itself dependent on the picks)", floor=5)
    report.rule("R1.3", "NaN at every non-candidate: scatter targets are NaN-filled (shared with C01)", floor=25)
    funcs = c01.pool_functions(p)
    facts = {id(f.node): c01.FnFacts(f) for f in funcs}
    report.analysed["functions"] = len(funcs)
    check_loops(p, report, funcs, facts)
    for f in funcs:
        c01.check_nan_discipline(p, report, f, facts[id(f.node)])
    # R2.3: exclusion on every path + index translation + zero-mass masks survive
    report.rule("R2.3", "the exclusion of earlier picks reaches the selection on every path (shared R1.4m), positions "
                "selected over a shrunk pool are translated (shared R1.6), and a zero-probability mask is not followed "
                "by a transformation that does not preserve zero (power, exp, additive shift) before the draw", floor=12)
    sub = c01.Report_proxy(report, {"R1.4m": "R2.3", "R1.6": "R2.3", "R1.4c": "R2.3"})
    c01.check_exclusion_mechanisms(p, sub, funcs, facts)
    c01.check_carried_exclusion(p, sub, funcs, facts)
    c01.check_nan_reductions(p, report, funcs, "R1.3")
    c01.check_full_length_constants(p, report, funcs, facts, "R1.3")
    from . import c08
    c08.check_shrinking_pool(p, sub, funcs, "R1.6")
    check_zero_mask_preserved(p, report, funcs, facts)
    report.rule("R2.4", "for a sampling-based selection (generator.choice with p=P feeding the returned indices) the "
                "distribution sampled from is the one recorded: a store of P into the returned row with no rebinding "
                "of P between the store and the draw, or every definition of P is a view of / computed from the "
                "values of the returned rows (shape-only constructors do not count)", floor=3)
    check_sampled_is_recorded(p, report, funcs, facts)
    report.rule("R2.5", "the selection primitive behind every max-selection breaks ties only among EXACT maxima: "
                "rand_argmax masks with equality to the NaN-aware optimum (shared with C18 R18.1)", floor=4)
    from . import c18
    c18.check_argmax_primitives(p, report, "R2.5")
    report.rule("R2.6", "every row has a selectable winner only if the batch size never exceeds the number of "
                "candidates: the base-class clip exists, its bound counts candidate rows, and the de-duplicated "
                "result of check_indices is the array that is used (shared with C01 R1.1)", floor=4)
    c01.check_clip(p, c01.Report_proxy(report, {"R1.1": "R2.6"}))
    c01.check_indices_results(p, report, "R2.6")
    report.rule("R2.7", "a min-max normalisation of a utility component cannot produce 0/0: the denominator "
                "`max(x) - min(x)` carries a positive additive constant (as its siblings in the same strategies do); a "
                "bare one is NaN for every candidate set whose component is constant (duplicated candidates), and the "
                "winner of an all-NaN row carries no number", floor=2)
    check_minmax_offsets(p, report, funcs, "R2.7")
    report.rule("R2.9", "the array a pool query hands to simple_batch is computed from the candidate set on every path "
                "(must-dependence on `candidates` / X_cand / mapping): numbers only at offered samples needs the "
                "offer to enter the computation", floor=20)
    check_candidate_dependence(p, report, "R2.9")
    report.rule("R2.11", "NaN exactly at earlier picks: inside a selection loop a NaN written into a returned utilities row is "
                "indexed by the picks (accumulators that start empty / constant, loop counters, the candidate mapping) - an "
                "index array initialised from the labels also blanks labeled candidates that were never picked", floor=5)
    report.rule("R2.13", "the chosen sample attains the optimum of ITS row in every configuration: inside a selection loop a "
                "pick-indexed update of an array the selection operand is computed from is not guarded by a loop-invariant local "
                "flag without an alternative update in the other arm (tests on the loop counter - skipping the unused last "
                "update - are not judged)", floor=1)
    report.rule("R2.12", "a batch is never taken as the row-wise optimum of several utility rows at once: the indices a pool "
                "query returns do not come from an `axis=`-wise rand_argmax / argmax outside a selection loop (the rows are "
                "independent, so one sample can win two rows and is then NaN in its own row)", floor=20)
    check_no_parallel_selection(p, report, funcs)
    report.rule("R2.10", "the class probabilities the strategies turn into utilities without a further check are finite in "
                "every row: ClassFrequencyEstimator.predict_proba treats rows of zero frequency separately instead of "
                "dividing by the zero row sum (shared with C11 R11.2)", floor=1)
    from ..common import Report as _Report
    from . import c11 as _c11
    _sub = _Report("C11")
    _c11.run(p, _sub, "quick")
    for o in _sub.obligations:
        if o.rule == "R11.2" and "ClassFrequencyEstimator" in o.entity:
            report.add("R2.10", o.entity, o.construct, o.loc, o.ok, detail=o.detail)
    report.rule("R2.8", "the wrapper strategies hand on the rows of the wrapped strategy with their NaN marks: columns are "
                "copied whole, every return goes through the scatter into the NaN-filled array and simple_batch, -inf is "
                "written before the subset's utilities (shared with C20 R20.1 / R20.2)", floor=20)
    from ..common import Report as _Report
    from . import c20 as _c20
    sub20 = _Report("C20")
    _c20.run(p, sub20, "quick")
    for o in sub20.obligations:
        if o.rule in ("R20.1", "R20.2"):
            report.add("R2.8", o.entity, o.construct, o.loc, o.ok, detail=o.detail)
    report.assumptions += [
        "statement order inside a loop body is judged by structural dominance (no goto)",
        "the numerical arg-max relation itself is the contract of rand_argmax (decided structurally by R2.5 / C18)",
    ]


ARGSEL = {"rand_argmax", "rand_argmin", "argmax", "argmin", "nanargmax", "nanargmin"}


def _rows_from_sequential_helper(call, defs, seq_helpers):
    """the rows handed to the row-wise selection were produced by a project helper that selects sequentially itself (and
    marks its picks in the later rows): backward over plain definitions and scatter stores"""
    seen, work = set(), [call.args[0]] if call.args else []
    while work:
        e = work.pop()
        for n in ast.walk(e):
            if isinstance(n, ast.Call) and (c01.callname(n) or "") in seq_helpers:
                return True
            if isinstance(n, ast.Name) and n.id not in seen:
                seen.add(n.id)
                for d in defs.get(n.id, []):
                    work.append(d.value)
                for st in defs.get("[]" + n.id, []):
                    work.append(st.value)
    return False


def check_no_parallel_selection(p, report, funcs):
    facts_ = {id(f.node): c01.FnFacts(f) for f in funcs}
    seq_helpers = {rec[0].name for rec in c01.loop_records(funcs, facts_) if rec[0].cls is None}
    for f in funcs:
        if f.name != "query" or f.cls is None:
            continue
        tree = FuncTree(f.node)
        rets = [r for r in ast.walk(f.node) if isinstance(r, ast.Return) and r.value is not None]
        if not rets:
            continue
        defs = {}
        for n in ast.walk(f.node):
            if isinstance(n, ast.Assign) and len(n.targets) == 1 and isinstance(n.targets[0], ast.Name):
                defs.setdefault(n.targets[0].id, []).append(n)
        for n in ast.walk(f.node):
            if isinstance(n, ast.Assign) and len(n.targets) == 1 and isinstance(n.targets[0], ast.Subscript) \
                    and base_name(n.targets[0]):
                defs.setdefault("[]" + base_name(n.targets[0]), []).append(n)
        bad = []

        def strip(e):
            while True:
                if isinstance(e, ast.Subscript):
                    # mapping[q] -> follow q;  q[:, 0] / q[0] -> follow q
                    if isinstance(e.value, ast.Name) and e.value.id in c01._mapping_names(f) | {"mapping"}:
                        e = e.slice
                    else:
                        e = e.value
                    continue
                if isinstance(e, ast.Call) and (c01.callname(e) or "") in ("array", "asarray", "astype", "ravel", "flatten", "copy", "int", "squeeze"):
                    if e.args:
                        e = e.args[0]
                    elif isinstance(e.func, ast.Attribute):
                        e = e.func.value
                    else:
                        return e
                    continue
                return e

        def walk(e, depth, seen):
            e = strip(e)
            if isinstance(e, ast.Call) and (c01.callname(e) or "") in ARGSEL and any(k.arg == "axis" for k in e.keywords):
                axv = next(k.value for k in e.keywords if k.arg == "axis")
                st = tree.stmt_of(e)
                in_loop = any(isinstance(o, (ast.For, ast.While)) for (_s, o, _f, _i) in tree.ancestors(st))
                if not in_loop and not (isinstance(axv, ast.Constant) and axv.value is None) \
                        and not _rows_from_sequential_helper(e, defs, seq_helpers):
                    bad.append(e)
                return
            if isinstance(e, ast.Name) and depth < 4 and e.id not in seen:
                for d in defs.get(e.id, []):
                    walk(d.value, depth + 1, seen | {e.id})

        for r in rets:
            v = r.value.elts[0] if isinstance(r.value, ast.Tuple) and r.value.elts else r.value
            walk(v, 0, set())
        report.add("R2.12", f.qual, "returned indices are not a row-wise optimum of several rows",
                   f"{f.file}:{(bad[0] if bad else f.node).lineno}", not bad,
                   detail=f"{len(rets)} return(s) traced" if not bad else
                   f"`{ast.unparse(bad[0])[:70]}` picks one winner per row in one call: the earlier picks are not excluded from the "
                   f"later rows when the winners are taken, so the same sample can be returned twice and is NaN in its own row "
                   f"once the marks are written afterwards")
