"""R13.2 (fit recomputes what it reads) and R13.3 (sliding window)."""
import ast

from ..attrflow import AttrMust
from ..common import norm_stmt
from ..deps import names_in
from ..index import ClassInfo, AnalysisError
from .c03 import is_abstract
from . import c01 as _c01

# reads in fit that are not fitted state of an earlier fit (one symbol per
# line, with the reason)
EXPOSED_OK = {
}


def fit_entities(p):
    from .c13 import estimator_classes
    out = []
    extra = [c for c in p.classes.values() if c.name in ("IndexClassifierWrapper",)]
    for ci in estimator_classes(p):
        f = p.find_method(ci, "fit")
        if f is None or is_abstract(f):
            continue
        out.append((ci, f))
    return out


def run(p, report, tier):
    report.rule("R13.2", "in every fit (callees summarised through the MRO, literal fit_function propagated as a path "
                "fact) every read of a fitted attribute self.a_ / self._a is preceded on all paths by a store in the "
                "same fit call; hasattr(self, 'a_') being true does not count as a store", floor=10)
    report.rule("R13.3", "SlidingWindowClassifier: every deque stored in X_train_, y_train_, sample_weight_train_ is "
                "created with maxlen=self.window_size, fit re-creates all three, partial_fit extends all three", floor=5)
    ents = fit_entities(p)
    check_fit_recomputes(p, report, ents, "R13.2")
    report.rule("R13.4", "incremental learners keep their documented history: on the partial_fit path (literal "
                "fit_function propagated into the delegated method) an attribute holding the fitted model is "
                "re-created from the constructor parameter only under a test that is false while that attribute exists",
                floor=2)
    check_incremental_history(p, report)
    report.rule("R13.6", "the sliding window owns the samples it was given: what is extended into X_train_ is a copy (rows "
                "of the validated input are views of the caller's array); the same holds for the labels and weights, whose rows are "
                "views as well when they are 2-d (multi-annotator estimators)", floor=3)
    report.rule("R13.7", "a stream strategy owns the samples of its history windows: what `update` (and the helpers it hands the "
                "candidates to) appends / extends into a window attribute is a copy of the candidate rows - the rows of the "
                "validated `candidates` are views of the caller's array, and a caller that re-uses its chunk buffer would "
                "rewrite the remembered samples (the history then is no function of the samples that were given)", floor=2)
    check_stream_windows_own_samples(p, report)
    report.rule("R13.5", "an attribute that fit stores on some path it stores on every path (loops are assumed to run "
                "at least once; lazily created caches under `not hasattr` excepted): otherwise the value of an "
                "earlier fit survives a later fit that takes the other path (weights_ of a weighted fit)", floor=10)
    check_store_on_every_path(p, report, ents)
    _rest(p, report, tier)


def check_fit_recomputes(p, report, ents, rule, skip_attrs=(), only_attrs=None):
    for ci, f in ents:
        am = AttrMust(p, ci, f).run()
        must, exposed = am.summary()
        exposed = {a: v for a, v in exposed.items() if a not in skip_attrs and (only_attrs is None or a in only_attrs)}
        ent = f"{ci.name}.fit"
        for attr, (ln, file, qual, facts, via) in sorted(exposed.items()):
            exc = EXPOSED_OK.get((ent, attr))
            report.add(rule, ent, f"read of self.{attr} in {qual}", f"{file}:{ln}", exc is not None,
                       detail=("accepted: " + exc) if exc else
                       f"self.{attr} is read before this fit call has stored it (a value from an earlier fit/predict "
                       f"leaks in) on the path where: {facts or 'always'}" + (f" via {' <- '.join(via)}" if via else ""))
        if not exposed:
            report.add(rule, ent, "every fitted attribute read in fit was stored earlier in the same call",
                       f"{f.file}:{f.node.lineno}", True, detail=f"{len(must)} attributes definitely (re)computed: "
                       + ", ".join(sorted(must)[:12]))


def _rest(p, report, tier):
    # ---- R13.3
    sw = p.get_class("SlidingWindowClassifier")
    names = ("X_train_", "y_train_", "sample_weight_train_")
    add = _c01.method_by_role(sw, "_add_samples", lambda n: any(isinstance(c, ast.Call) and isinstance(c.func, ast.Attribute) and c.func.attr == "extend" for c in ast.walk(n)))
    if add is None:
        raise AnalysisError("SlidingWindowClassifier._add_samples vanished")
    # every deque creation for the three attributes has maxlen=self.window_size
    for k in p.mro(sw):
        if not isinstance(k, ClassInfo):
            continue
        for m in k.methods.values():
            for n in ast.walk(m.node):
                if isinstance(n, ast.Assign) and any(isinstance(t, ast.Attribute) and isinstance(t.value, ast.Name)
                                                     and t.value.id == "self" and t.attr in names for t in n.targets):
                    v = n.value
                    if isinstance(v, ast.Constant) and v.value is None:
                        continue
                    ok = isinstance(v, ast.Call) and isinstance(v.func, ast.Name) and v.func.id == "deque" and any(
                        kw.arg == "maxlen" and ast.unparse(kw.value) == "self.window_size" for kw in v.keywords)
                    report.add("R13.3", m.qual, f"`{norm_stmt(n, 70)}`", f"{m.file}:{n.lineno}", ok,
                               detail="bounded by window_size" if ok else "window container is not a deque bounded by self.window_size")
    # fit re-creates all three unconditionally (under fit_func == 'fit')
    from ..paths import Facts, Const
    facts = Facts()
    facts.allowed["fit_func"] = frozenset([Const("fit")])
    am = AttrMust(p, sw, add, init_facts=facts).run()
    must, exposed = am.summary()
    for a in names:
        ok = a in must and a not in exposed
        report.add("R13.3", "SlidingWindowClassifier._add_samples[fit]", f"self.{a} re-created before it is used",
                   f"{add.file}:{add.node.lineno}", ok,
                   detail="stored on every path before any read" if ok else
                   f"fit reuses the container of an earlier fit (must-store={a in must}, read-before-store={a in exposed})")
    # partial_fit extends all three
    ext = {n.func.value.attr for n in ast.walk(add.node) if isinstance(n, ast.Call) and isinstance(n.func, ast.Attribute)
           and n.func.attr == "extend" and isinstance(n.func.value, ast.Attribute) and isinstance(n.func.value.value, ast.Name)
           and n.func.value.value.id == "self"}
    # the newest samples win: a batch is never cut from its head before it enters the windows
    add = _c01.method_by_role(sw, "_add_samples", lambda n: any(isinstance(c, ast.Call) and isinstance(c.func, ast.Attribute) and c.func.attr == "extend" for c in ast.walk(n)))
    heads = []
    if add is not None:
        for n in ast.walk(add.node):
            if isinstance(n, ast.Assign):
                vals = n.value.elts if isinstance(n.value, ast.Tuple) else [n.value]
                for v in vals:
                    if isinstance(v, ast.Subscript) and isinstance(v.slice, ast.Slice) and v.slice.lower is None \
                            and v.slice.upper is not None and isinstance(v.value, ast.Name) \
                            and v.value.id in add.all_param_names():
                        heads.append(n)
        report.add("R13.3", "SlidingWindowClassifier._add_samples", "incoming batch is not truncated from its head",
                   f"{add.file}:{(heads[0] if heads else add.node).lineno}", not heads,
                   detail="the bounded deques keep the newest samples" if not heads else
                   f"`{norm_stmt(heads[0], 70)}` keeps the OLDEST samples of an oversized batch: the window is not the last "
                   "window_size samples")
    # the window owns its samples: iterating a 2-d array yields VIEWS of its rows, so extending the deque with the
    # validated input itself keeps references into the caller's buffer (check_array does not copy)
    xpar = [a for a in add.params() if a != "self"]
    xname = xpar[1] if len(xpar) > 1 and xpar[0] in ("fit_func", "fit_function") else (xpar[0] if xpar else "X")
    for n in ast.walk(add.node):
        if isinstance(n, ast.Call) and isinstance(n.func, ast.Attribute) and n.func.attr in ("extend", "append") \
                and isinstance(n.func.value, ast.Attribute) and n.func.value.attr in ("X_train_", "y_train_", "sample_weight_train_") \
                and n.args:
            a0 = n.args[0]

            def _is_copy(e):
                if isinstance(e, ast.Call):
                    cn = (_c01.callname(e) or "").split(".")[-1]
                    if cn in ("array", "copy", "deepcopy") and not any(k.arg == "copy" and isinstance(k.value, ast.Constant)
                                                                          and k.value.value is False for k in e.keywords):
                        return True
                    if cn == "list" and e.args and isinstance(e.args[0], (ast.ListComp, ast.GeneratorExp)):
                        return _is_copy(e.args[0].elt)
                if isinstance(e, (ast.ListComp, ast.GeneratorExp)):
                    return _is_copy(e.elt)
                if isinstance(e, ast.Name):
                    defs = [d.value for d in ast.walk(add.node) if isinstance(d, ast.Assign)
                            and any(isinstance(t, ast.Name) and t.id == e.id for t in d.targets)]
                    return bool(defs) and e.id not in add.all_param_names() and all(_is_copy(d) for d in defs)
                return False
            okc = _is_copy(a0)
            report.add("R13.6", "SlidingWindowClassifier._add_samples", f"`{norm_stmt(n, 50)}` stores copies of the samples",
                       f"{add.file}:{n.lineno}", okc, detail="explicit copy" if okc else
                       f"the rows appended to the window are views of `{ast.unparse(a0)[:30]}`, i.e. of the caller's array (check_array "
                       f"does not copy): a caller that re-uses its input buffer for the next chunk overwrites the window")
    report.add("R13.3", "SlidingWindowClassifier._add_samples", "all three windows are extended together",
               f"{add.file}:{add.node.lineno}", set(names) <= ext, detail=f"extended: {sorted(ext)}")


# ---------------------------------------------------------------------------
# R13.4 incremental history: on the partial_fit path an attribute that holds
# the incrementally fitted model is re-created from the constructor parameter
# only when it does not exist yet.
def _tri(e, env):
    """three-valued evaluation of a test under `env` (dict text -> bool)"""
    if isinstance(e, ast.BoolOp):
        vals = [_tri(v, env) for v in e.values]
        if isinstance(e.op, ast.And):
            if any(v is False for v in vals):
                return False
            return True if all(v is True for v in vals) else None
        if any(v is True for v in vals):
            return True
        return False if all(v is False for v in vals) else None
    if isinstance(e, ast.UnaryOp) and isinstance(e.op, ast.Not):
        v = _tri(e.operand, env)
        return None if v is None else (not v)
    if isinstance(e, ast.Compare) and len(e.ops) == 1:
        l, r = ast.unparse(e.left), ast.unparse(e.comparators[0])
        for a, b in ((l, r), (r, l)):
            if a in env and isinstance(env[a], str):
                try:
                    lit = ast.literal_eval(b)
                except Exception:
                    continue
                eq = env[a] == lit
                if isinstance(e.ops[0], ast.Eq):
                    return eq
                if isinstance(e.ops[0], ast.NotEq):
                    return not eq
        # getattr(self, 'a', None) is None  ==  not hasattr(self, 'a')
        if isinstance(e.left, ast.Call) and isinstance(e.left.func, ast.Name) and e.left.func.id == "getattr" \
                and len(e.left.args) == 3 and isinstance(e.comparators[0], ast.Constant) and e.comparators[0].value is None \
                and isinstance(e.left.args[2], ast.Constant) and e.left.args[2].value is None:
            key = f"hasattr({ast.unparse(e.left.args[0])}, {ast.unparse(e.left.args[1])})"
            if key in env:
                return (not env[key]) if isinstance(e.ops[0], ast.Is) else env[key]
        return None
    txt = ast.unparse(e)
    if txt in env and isinstance(env[txt], bool):
        return env[txt]
    return None


def check_incremental_history(p, report, rule="R13.4"):
    n = 0
    for ci in sorted(p.classes.values(), key=lambda c: c.name):
        pf = ci.methods.get("partial_fit")
        if pf is None:
            continue
        # the function that does the work: partial_fit itself or the `_fit(fit_function=...)` it delegates to
        targets = [(pf, {})]
        for c in ast.walk(pf.node):
            if isinstance(c, ast.Call) and isinstance(c.func, ast.Attribute) and isinstance(c.func.value, ast.Name) \
                    and c.func.value.id == "self":
                g = p.find_method(ci, c.func.attr)
                if g is None:
                    continue
                env = {}
                params = [a for a in g.params() if a != "self"]
                for i, a in enumerate(c.args):
                    if i < len(params) and isinstance(a, ast.Constant) and isinstance(a.value, str):
                        env[params[i]] = a.value
                for k in c.keywords:
                    if k.arg and isinstance(k.value, ast.Constant) and isinstance(k.value.value, str):
                        env[k.arg] = k.value.value
                if env:
                    targets.append((g, env))
        for g, env in targets:
            parents = {}
            for x in ast.walk(g.node):
                for ch in ast.iter_child_nodes(x):
                    parents[ch] = x
            for st in ast.walk(g.node):
                if not (isinstance(st, ast.Assign) and len(st.targets) == 1 and isinstance(st.targets[0], ast.Attribute)
                        and isinstance(st.targets[0].value, ast.Name) and st.targets[0].value.id == "self"
                        and isinstance(st.value, ast.Call) and isinstance(st.value.func, (ast.Name, ast.Attribute))):
                    continue
                fn = st.value.func.id if isinstance(st.value.func, ast.Name) else st.value.func.attr
                if fn not in ("deepcopy", "clone", "copy") or not st.value.args:
                    continue
                a0 = st.value.args[0]
                if not (isinstance(a0, ast.Attribute) and isinstance(a0.value, ast.Name) and a0.value.id == "self"
                        and not a0.attr.endswith("_")):
                    continue
                attr = st.targets[0].attr
                e2 = dict(env)
                e2[f"hasattr(self, '{attr}')"] = True        # an incrementally fitted model exists
                reach = True
                cur = st
                while cur in parents:
                    par = parents[cur]
                    if isinstance(par, ast.If):
                        v = _tri(par.test, e2)
                        branch = "body" if cur in par.body else ("orelse" if cur in par.orelse else None)
                        if branch == "body" and v is False:
                            reach = False
                        if branch == "orelse" and v is True:
                            reach = False
                    cur = par
                n += 1
                report.add(rule, f"{ci.name}.partial_fit", f"reset `{norm_stmt(st, 60)}` in {g.name}", f"{g.file}:{st.lineno}",
                           not reach, detail="not reachable while an incrementally fitted model exists" if not reach else
                           f"on the partial_fit path ({env or 'direct'}) the incrementally fitted self.{attr} is replaced by a "
                           "fresh copy of the constructor parameter although it exists: earlier batches are forgotten")
    return n


def check_store_on_every_path(p, report, ents, rule="R13.5"):
    for ci, f in ents:
        am = AttrMust(p, ci, f).run()
        must, _ = am.summary()
        parents = {}
        for x in ast.walk(f.node):
            for ch in ast.iter_child_nodes(x):
                parents[ch] = x
        may = {}
        for n in ast.walk(f.node):
            if isinstance(n, ast.Assign):
                for t in n.targets:
                    for e in (t.elts if isinstance(t, (ast.Tuple, ast.List)) else [t]):
                        if isinstance(e, ast.Attribute) and isinstance(e.value, ast.Name) and e.value.id == "self":
                            may.setdefault(e.attr, []).append(n)
        bad = []
        for a, stores in sorted(may.items()):
            if a in must:
                continue
            in_loop = lazy = False
            for st in stores:
                x = parents.get(st)
                while x is not None and x is not f.node:
                    if isinstance(x, (ast.For, ast.While)):
                        in_loop = True
                    if isinstance(x, ast.If) and "hasattr" in ast.unparse(x.test) and a in ast.unparse(x.test):
                        lazy = True
                    x = parents.get(x)
            if in_loop or lazy:
                continue
            bad.append((a, stores[0]))
        ent = f"{ci.name}.fit"
        if not bad:
            report.add(rule, ent, "every attribute stored by fit is stored on every path", f"{f.file}:{f.node.lineno}", True,
                       detail=f"{len(may)} attributes stored directly in fit")
        for a, st in bad:
            report.add(rule, ent, f"self.{a} stored on some paths only: `{norm_stmt(st, 60)}`", f"{f.file}:{st.lineno}", False,
                       detail=f"on the other paths self.{a} keeps the value of an earlier fit")


def _copy_expr(e, fnode, params):
    if isinstance(e, ast.Call):
        cn = (_c01.callname(e) or "").split(".")[-1]
        if cn in ("array", "copy", "deepcopy", "float", "int", "tolist") and not any(
                k.arg == "copy" and isinstance(k.value, ast.Constant) and k.value.value is False for k in e.keywords):
            return True
        if cn == "list" and e.args and isinstance(e.args[0], (ast.ListComp, ast.GeneratorExp)):
            return _copy_expr(e.args[0].elt, fnode, params)
    if isinstance(e, (ast.ListComp, ast.GeneratorExp)):
        return _copy_expr(e.elt, fnode, params)
    if isinstance(e, (ast.List, ast.Tuple)):
        return bool(e.elts) and all(_copy_expr(x, fnode, params) for x in e.elts)
    if isinstance(e, ast.Name):
        defs = [d.value for d in ast.walk(fnode) if isinstance(d, ast.Assign)
                and any(isinstance(t, ast.Name) and t.id == e.id for t in d.targets)]
        return bool(defs) and e.id not in params and all(_copy_expr(d, fnode, params) for d in defs)
    return False


def check_stream_windows_own_samples(p, report):
    n_sites = 0
    seen = set()

    def data_names(f, seeds):
        """names that hold (rows of / lists of rows of) the data parameter(s) `seeds`, without a copy in between"""
        params = set(f.all_param_names())
        out = set(seeds)
        for _ in range(4):
            for n in ast.walk(f.node):
                if isinstance(n, (ast.For, ast.comprehension)) and (names_in_(n.iter) & out):
                    out |= {x.id for x in ast.walk(n.target) if isinstance(x, ast.Name)}
                if isinstance(n, ast.Assign) and not _copy_expr(n.value, f.node, params):
                    v = n.value
                    while isinstance(v, ast.Call) and (_c01.callname(v) or "").split(".")[-1] in (
                            "asarray", "check_array", "atleast_2d", "reshape", "ravel", "zip", "enumerate", "list"):
                        if v.args:
                            v = v.args[0]
                        elif isinstance(v.func, ast.Attribute):
                            v = v.func.value
                        else:
                            break
                    if not (isinstance(v, (ast.Name, ast.Subscript, ast.List, ast.Tuple)) and (names_in_(v) & out)):
                        continue
                    for t in n.targets:
                        for x in (t.elts if isinstance(t, (ast.Tuple, ast.List)) else [t]):
                            if isinstance(x, ast.Name):
                                out.add(x.id)
        return out

    def visit(ci, f, seeds, depth):
        nonlocal n_sites
        key = (f.qual, tuple(sorted(seeds)))
        if key in seen or depth > 2:
            return
        seen.add(key)
        params = set(f.all_param_names())
        dn = data_names(f, seeds)
        for c in ast.walk(f.node):
            if not isinstance(c, ast.Call) or not isinstance(c.func, ast.Attribute):
                continue
            # self.<window>.append(E) / extend(E)
            if c.func.attr in ("append", "extend", "appendleft") and isinstance(c.func.value, ast.Attribute) \
                    and isinstance(c.func.value.value, ast.Name) and c.func.value.value.id == "self" and c.args:
                a0 = c.args[0]
                core = a0
                while isinstance(core, ast.Call) and (_c01.callname(core) or "").split(".")[-1] in (
                        "asarray", "check_array", "atleast_2d", "reshape", "ravel", "list"):
                    core = core.args[0] if core.args else (core.func.value if isinstance(core.func, ast.Attribute) else core)
                    if not isinstance(core, (ast.Call, ast.Name, ast.Subscript, ast.List, ast.Tuple)):
                        break
                if not _copy_expr(a0, f.node, params) and not (
                        isinstance(core, (ast.Name, ast.Subscript, ast.List, ast.Tuple)) and (names_in_(core) & dn)):
                    continue
                if not (names_in_(a0) & dn):
                    continue
                n_sites += 1
                ok = _copy_expr(a0, f.node, params)
                report.add("R13.7", f.qual, f"`{norm_stmt(c, 60)}` stores copies of the samples", f"{f.file}:{c.lineno}", ok,
                           detail="explicit copy" if ok else
                           f"`{ast.unparse(a0)[:40]}` is (a row view of) the caller's candidates array: re-using that buffer for the "
                           f"next chunk rewrites the samples remembered in self.{c.func.value.attr}")
            # self.helper(<data>) : follow the data into the helper
            if isinstance(c.func.value, ast.Name) and c.func.value.id == "self":
                h = p.find_method(ci, c.func.attr)
                if h is None or h is f:
                    continue
                hp = [a for a in h.params() if a != "self"]
                seeds_h = set()
                for i, a in enumerate(c.args):
                    if i < len(hp) and (names_in_(a) & dn) and not _copy_expr(a, f.node, params):
                        seeds_h.add(hp[i])
                for k in c.keywords:
                    if k.arg in hp and (names_in_(k.value) & dn) and not _copy_expr(k.value, f.node, params):
                        seeds_h.add(k.arg)
                if seeds_h:
                    visit(ci, h, seeds_h, depth + 1)

    for ci in sorted(p.classes.values(), key=lambda c: c.name):
        if "/tests/" in ci.file or not ci.file.startswith("skactiveml/stream/") or "/budgetmanager/" in ci.file:
            continue
        f = ci.methods.get("update")
        if f is None:
            continue
        ps = [a for a in f.params() if a != "self"]
        if not ps:
            continue
        visit(ci, f, {ps[0]}, 0)
    # budget managers: a history kept on self is never (a slice of) an array the caller passed to update
    n_bm = 0
    for ci in sorted(p.classes.values(), key=lambda c: c.name):
        if "/tests/" in ci.file or "/budgetmanager/" not in ci.file:
            continue
        f = ci.methods.get("update")
        if f is None:
            continue
        params = set(a for a in f.params() if a != "self")
        # aliases of the parameters through conversions that return their argument when no conversion is needed
        alias = set(params)
        for _ in range(3):
            for a in ast.walk(f.node):
                if isinstance(a, ast.Assign) and len(a.targets) == 1 and isinstance(a.targets[0], ast.Name):
                    v = _strip_alias(a.value)
                    if isinstance(v, ast.Name) and v.id in alias and not _copy_expr(a.value, f.node, params):
                        alias.add(a.targets[0].id)
        fresh_rebound = set()
        for a in ast.walk(f.node):
            if isinstance(a, ast.Assign) and len(a.targets) == 1 and isinstance(a.targets[0], ast.Name) \
                    and a.targets[0].id in alias and a.targets[0].id not in params:
                pass
        bad = None
        stores = 0
        for a in ast.walk(f.node):
            if isinstance(a, ast.Assign) and any(isinstance(t, ast.Attribute) and isinstance(t.value, ast.Name) and t.value.id == "self"
                                                 for t in a.targets):
                stores += 1
                v = _strip_alias(a.value)
                if isinstance(v, ast.Name) and v.id in alias and not _copy_expr(a.value, f.node, params):
                    # not an alias any more if a re-binding to a fresh value dominates the store
                    from ..astutil import FuncTree as _FT, dominates as _dom
                    tr = _FT(f.node)
                    fresh_dom = False
                    for d in ast.walk(f.node):
                        if isinstance(d, ast.Assign) and d is not a and d.lineno < a.lineno \
                                and any(isinstance(t, ast.Name) and t.id == v.id for t in d.targets):
                            dv = _strip_alias(d.value)
                            is_alias_def = isinstance(dv, ast.Name) and dv.id in alias and not _copy_expr(d.value, f.node, params)
                            if not is_alias_def and _dom(tr, d, a):
                                fresh_dom = True
                    if not fresh_dom:
                        bad = bad or a
        if stores:
            n_bm += 1
            report.add("R13.7", f.qual, "what update keeps on self is not (a slice of) the caller's arrays", f"{f.file}:{(bad or f.node).lineno}",
                       bad is None, detail=f"{stores} attribute store(s)" if bad is None else
                       f"`{norm_stmt(bad, 60)}` keeps a view of an array the caller passed in (np.asarray / ravel / a slice return their "
                       f"argument's memory): a caller that re-uses that buffer rewrites the manager's history")
    report.analysed["window_stores_of_candidate_rows"] = n_sites
    report.analysed["budget_manager_updates_checked"] = n_bm


def names_in_(e):
    return {x.id for x in ast.walk(e) if isinstance(x, ast.Name)}


def _strip_alias(v):
    """strip conversions / reshapes / basic slices that may return (a view of) their argument"""
    while True:
        if isinstance(v, ast.Call) and (_c01.callname(v) or "").split(".")[-1] in (
                "asarray", "asanyarray", "check_array", "column_or_1d", "ravel", "reshape", "atleast_1d", "squeeze", "view"):
            if any(k.arg == "copy" and isinstance(k.value, ast.Constant) and k.value.value is True for k in v.keywords):
                return v
            if v.args and (_c01.callname(v) or "").split(".")[-1] in ("asarray", "asanyarray", "check_array", "column_or_1d", "atleast_1d"):
                v = v.args[0]
            elif isinstance(v.func, ast.Attribute):
                v = v.func.value
            else:
                return v
            continue
        if isinstance(v, ast.Subscript) and isinstance(v.slice, ast.Slice):
            v = v.value
            continue
        return v
