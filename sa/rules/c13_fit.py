def run(p, report, tier):
    pass
