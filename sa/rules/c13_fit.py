"""R13.2 (fit recomputes what it reads) and R13.3 (sliding window)."""
import ast

from ..attrflow import AttrMust
from ..common import norm_stmt
from ..deps import names_in
from ..index import ClassInfo, AnalysisError
from .c03 import is_abstract

# reads in fit that are not fitted state of an earlier fit (one symbol per
# line, with the reason)
EXPOSED_OK = {
}


def fit_entities(p):
    from .c13 import estimator_classes
    out = []
    extra = [c for c in p.classes.values() if c.name in ("IndexClassifierWrapper",)]
    for ci in estimator_classes(p):
        f = p.find_method(ci, "fit")
        if f is None or is_abstract(f):
            continue
        out.append((ci, f))
    return out


def run(p, report, tier):
    report.rule("R13.2", "in every fit (callees summarised through the MRO, literal fit_function propagated as a path "
                "fact) every read of a fitted attribute self.a_ / self._a is preceded on all paths by a store in the "
                "same fit call; hasattr(self, 'a_') being true does not count as a store", floor=10)
    report.rule("R13.3", "SlidingWindowClassifier: every deque stored in X_train_, y_train_, sample_weight_train_ is "
                "created with maxlen=self.window_size, fit re-creates all three, partial_fit extends all three", floor=5)
    ents = fit_entities(p)
    for ci, f in ents:
        am = AttrMust(p, ci, f).run()
        must, exposed = am.summary()
        ent = f"{ci.name}.fit"
        for attr, (ln, file, qual, facts, via) in sorted(exposed.items()):
            exc = EXPOSED_OK.get((ent, attr))
            report.add("R13.2", ent, f"read of self.{attr} in {qual}", f"{file}:{ln}", exc is not None,
                       detail=("accepted: " + exc) if exc else
                       f"self.{attr} is read before this fit call has stored it (a value from an earlier fit/predict "
                       f"leaks in) on the path where: {facts or 'always'}" + (f" via {' <- '.join(via)}" if via else ""))
        if not exposed:
            report.add("R13.2", ent, "every fitted attribute read in fit was stored earlier in the same call",
                       f"{f.file}:{f.node.lineno}", True, detail=f"{len(must)} attributes definitely (re)computed: "
                       + ", ".join(sorted(must)[:12]))
    # ---- R13.3
    sw = p.get_class("SlidingWindowClassifier")
    names = ("X_train_", "y_train_", "sample_weight_train_")
    add = sw.methods.get("_add_samples")
    if add is None:
        raise AnalysisError("SlidingWindowClassifier._add_samples vanished")
    # every deque creation for the three attributes has maxlen=self.window_size
    for k in p.mro(sw):
        if not isinstance(k, ClassInfo):
            continue
        for m in k.methods.values():
            for n in ast.walk(m.node):
                if isinstance(n, ast.Assign) and any(isinstance(t, ast.Attribute) and isinstance(t.value, ast.Name)
                                                     and t.value.id == "self" and t.attr in names for t in n.targets):
                    v = n.value
                    if isinstance(v, ast.Constant) and v.value is None:
                        continue
                    ok = isinstance(v, ast.Call) and isinstance(v.func, ast.Name) and v.func.id == "deque" and any(
                        kw.arg == "maxlen" and ast.unparse(kw.value) == "self.window_size" for kw in v.keywords)
                    report.add("R13.3", m.qual, f"`{norm_stmt(n, 70)}`", f"{m.file}:{n.lineno}", ok,
                               detail="bounded by window_size" if ok else "window container is not a deque bounded by self.window_size")
    # fit re-creates all three unconditionally (under fit_func == 'fit')
    from ..paths import Facts, Const
    facts = Facts()
    facts.allowed["fit_func"] = frozenset([Const("fit")])
    am = AttrMust(p, sw, add, init_facts=facts).run()
    must, exposed = am.summary()
    for a in names:
        ok = a in must and a not in exposed
        report.add("R13.3", "SlidingWindowClassifier._add_samples[fit]", f"self.{a} re-created before it is used",
                   f"{add.file}:{add.node.lineno}", ok,
                   detail="stored on every path before any read" if ok else
                   f"fit reuses the container of an earlier fit (must-store={a in must}, read-before-store={a in exposed})")
    # partial_fit extends all three
    ext = {n.func.value.attr for n in ast.walk(add.node) if isinstance(n, ast.Call) and isinstance(n.func, ast.Attribute)
           and n.func.attr == "extend" and isinstance(n.func.value, ast.Attribute) and isinstance(n.func.value.value, ast.Name)
           and n.func.value.value.id == "self"}
    report.add("R13.3", "SlidingWindowClassifier._add_samples", "all three windows are extended together",
               f"{add.file}:{add.node.lineno}", set(names) <= ext, detail=f"extended: {sorted(ext)}")
