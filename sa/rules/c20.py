"""C20 - wrapper strategies are transparent to the strategy they wrap."""
import ast
from ..astutil import inline_temporaries as _it

from ..astutil import FuncTree, dominates, inline_temporaries
from ..common import norm_stmt, site_id
from ..deps import names_in, base_name, index_names, dep_edges, closure, forward_closure
from ..index import AnalysisError
from ..paths import DefiniteAssignment
from . import c01, c02


def _subst_target(target, elt):
    """Text of `elt` with the loop target replaced by $o / $o[i]."""
    m = {}
    if isinstance(target, ast.Name):
        m[target.id] = "$o"
    elif isinstance(target, (ast.Tuple, ast.List)):
        for i, e in enumerate(target.elts):
            if isinstance(e, ast.Name):
                m[e.id] = f"$o[{i}]"

    class R(ast.NodeTransformer):
        def visit_Name(self, n):
            if n.id in m:
                return ast.Name(id=m[n.id], ctx=n.ctx)
            return n
    import copy
    return ast.unparse(R().visit(copy.deepcopy(elt))).replace(" ", "")


def collected_elements(fnode, lst):
    """How the elements of the list expression `lst` are produced:
    [(element text in terms of $o, iterated expression, conditional?)] for a
    comprehension, or for a list name filled by `.append` in a for loop."""
    if isinstance(lst, (ast.ListComp, ast.GeneratorExp)) and len(lst.generators) == 1:
        g = lst.generators[0]
        return [(_subst_target(g.target, lst.elt), g.iter, bool(g.ifs))]
    out = []
    if isinstance(lst, ast.Name):
        for L in ast.walk(fnode):
            if not isinstance(L, ast.For):
                continue
            for n in ast.walk(L):
                if isinstance(n, ast.Expr) and isinstance(n.value, ast.Call) and isinstance(n.value.func, ast.Attribute) \
                        and n.value.func.attr == "append" and isinstance(n.value.func.value, ast.Name) \
                        and n.value.func.value.id == lst.id and n.value.args:
                    cond = n not in L.body or any(isinstance(x, (ast.Break, ast.Continue)) for x in ast.walk(L))
                    out.append((_subst_target(L.target, n.value.args[0]), L.iter, cond))
    return out


def _ordered_iter(it):
    """the iterated expression yields the outputs in their own order"""
    if isinstance(it, ast.Name):
        return True
    if isinstance(it, ast.Call):
        return c01.callname(it) not in ("reversed", "sorted", "permutation", "shuffle", "set", "zip", "enumerate")
    return False


def check_reduced_set(report, sw, ent, rule):
    """With exclude_non_subsample the training set handed to the wrapped strategy consists of the LABELED
    samples and the drawn subset: the index array that selects it is assembled from the result of
    labeled_indices(...) and the subset (concatenate / union / append / sort of those), never as a
    complement of something in the whole pool (which keeps unlabeled samples that are no candidates)."""
    idx_names = set()
    ps_ = [a for a in sw.params() if a != "self"]
    xy = set(ps_[:2])    # the samples and their labels, by position
    for n in ast.walk(sw.node):
        if isinstance(n, ast.Assign) and isinstance(n.value, ast.Subscript) and isinstance(n.value.value, ast.Name) \
                and n.value.value.id in xy and isinstance(n.value.slice, ast.Name) \
                and any(isinstance(t, ast.Name) and t.id not in xy for t in n.targets):
            idx_names.add(n.value.slice.id)
    labeled = {t.id for n in ast.walk(sw.node) if isinstance(n, ast.Assign) and isinstance(n.value, ast.Call)
               and c01.callname(n.value) == "labeled_indices" for t in n.targets if isinstance(t, ast.Name)}
    if not idx_names or not labeled:
        raise AnalysisError("SubSamplingWrapper.query: reduced training set selection vanished")
    for nm in sorted(idx_names):
        for n in ast.walk(sw.node):
            if not (isinstance(n, ast.Assign) and any(isinstance(t, ast.Name) and t.id == nm for t in n.targets)):
                continue
            v = n.value
            complement = any(isinstance(c, ast.Call) and (c01.callname(c) or "").split(".")[-1] in ("setdiff1d", "delete", "arange", "ones", "setxor1d")
                             for c in ast.walk(v)) or any(isinstance(x, ast.UnaryOp) and isinstance(x.op, ast.Invert) for x in ast.walk(v))
            built = (names_in(v) & (labeled | {nm})) and not complement
            report.add(rule, ent, f"reduced training set `{norm_stmt(n, 60)}` = labeled samples + subset", f"{sw.file}:{n.lineno}",
                       bool(built), detail="assembled from labeled_indices(...) and the subset" if built else
                       "the selection is built as a complement over the whole pool: unlabeled samples that are not candidates stay "
                       "in the reduced training set and become candidates of the wrapped strategy")


def check_marks_carried(report, sw, ent, rule):
    """A copy of the wrapped strategy's utility rows into the array that is returned is a plain column
    selection `new[:, idx] = inner[:, idx]`: an element-wise filter on the values (boolean mask over
    the matrix, `~np.isnan(inner)`) would leave the pre-filled -inf where the inner rows are NaN, i.e.
    at the samples selected in earlier steps."""
    inner = set()
    for n in ast.walk(sw.node):
        if isinstance(n, ast.Assign) and isinstance(n.value, ast.Call) and isinstance(n.value.func, ast.Attribute) \
                and n.value.func.attr == "query" and isinstance(n.targets[0], (ast.Tuple, ast.List)) \
                and len(n.targets[0].elts) == 2 and isinstance(n.targets[0].elts[1], ast.Name):
            inner.add(n.targets[0].elts[1].id)
    outs = {n.targets[0].id for n in ast.walk(sw.node) if isinstance(n, ast.Assign) and len(n.targets) == 1
            and isinstance(n.targets[0], ast.Name) and isinstance(n.value, ast.Call) and isinstance(n.value.func, ast.Attribute)
            and n.value.func.attr == "query"}
    for n in ast.walk(sw.node):
        if isinstance(n, ast.Assign) and isinstance(n.value, ast.Name) and n.value.id in outs \
                and isinstance(n.targets[0], (ast.Tuple, ast.List)) and len(n.targets[0].elts) == 2 \
                and isinstance(n.targets[0].elts[1], ast.Name):
            inner.add(n.targets[0].elts[1].id)
    if not inner:
        raise AnalysisError("SubSamplingWrapper.query: the wrapped strategy's utilities are not bound to a name")
    # names the inner utilities are rebound to (`utilities = new_utilities`)
    for _ in range(3):
        for n in ast.walk(sw.node):
            if isinstance(n, ast.Assign) and len(n.targets) == 1 and isinstance(n.targets[0], ast.Name) \
                    and isinstance(n.value, ast.Name) and n.value.id in inner | {t for t in inner}:
                inner.add(n.targets[0].id)
    for n in ast.walk(sw.node):
        if not (isinstance(n, ast.Assign) and isinstance(n.targets[0], ast.Subscript) and isinstance(n.value, ast.Subscript)
                and isinstance(n.value.value, ast.Name) and n.value.value.id in inner):
            continue
        t, v = n.targets[0], n.value

        def _full(x):
            return isinstance(x, ast.Slice) and x.lower is None and x.upper is None and x.step is None
        plain = isinstance(t.slice, ast.Tuple) and isinstance(v.slice, ast.Tuple) and len(t.slice.elts) == 2 \
            and len(v.slice.elts) == 2 and _full(t.slice.elts[0]) and _full(v.slice.elts[0])
        report.add(rule, ent, f"`{norm_stmt(n, 70)}` transfers the NaN marks of the inner rows", f"{sw.file}:{n.lineno}", plain,
                   detail="whole columns are copied" if plain else
                   "the copy is filtered element-wise (boolean mask over the matrix): where the inner rows are NaN - the "
                   "samples selected in earlier steps - the returned rows keep their pre-filled value instead of NaN")


def kwmap(call):
    return {k.arg: k.value for k in call.keywords if k.arg}


def run(p, report, tier):
    report.rule("R20.1", "ParallelUtilityEstimationWrapper: the inner query is called with batch_size=1 and "
                "return_utilities=True on the caller's X, y; the chunk outputs are concatenated in chunk order taking "
                "utility row 0; scatter through the mapping into a NaN-filled array; selection by simple_batch with "
                "the wrapper's generator and the clipped batch size", floor=5)
    report.rule("R20.2", "SubSamplingWrapper: subset draws are without replacement; in the returned utilities the "
                "-inf store at all candidates dominates the store of the inner utilities at the subset; indices are "
                "translated SUB->XROW through subset_and_labeled_indices on the exclude_non_subsample path and "
                "through new_candidate_indices for feature-row candidates", floor=7)
    report.rule("R20.3", "SingleAnnotatorWrapper: the inner strategy's picks are forced to the row maximum before the "
                "ordinal rank transform, annotator utilities are NaN at unavailable pairs before they are added, and "
                "the selection loop masks every chosen pair in all later steps", floor=5)
    # ---------------- R20.1
    pw = p.get_method("ParallelUtilityEstimationWrapper", "query")
    ent = pw.qual
    inner = [n for n in ast.walk(pw.node) if isinstance(n, ast.Call) and isinstance(n.func, ast.Attribute)
             and n.func.attr == "query" and "query_strategy" in ast.unparse(n.func.value)]
    if not inner:
        raise AnalysisError("ParallelUtilityEstimationWrapper.query: inner query call vanished")
    kw = kwmap(inner[0])
    ok_bs = isinstance(kw.get("batch_size"), ast.Constant) and kw["batch_size"].value == 1
    ok_ru = isinstance(kw.get("return_utilities"), ast.Constant) and kw["return_utilities"].value is True
    ok_xy = isinstance(kw.get("X"), ast.Name) and kw["X"].id == "X" and isinstance(kw.get("y"), ast.Name) and kw["y"].id == "y"
    report.add("R20.1", ent, "inner query with batch_size=1, return_utilities=True, X=X, y=y", f"{pw.file}:{inner[0].lineno}",
               ok_bs and ok_ru and ok_xy, detail=f"batch_size=1:{ok_bs} return_utilities=True:{ok_ru} X,y forwarded:{ok_xy}")
    # chunking of X_cand in order + concatenation taking [1][0]
    split = [n for n in ast.walk(pw.node) if isinstance(n, ast.Call) and c01.callname(n) == "array_split"]
    ok_split = bool(split) and all(n.args and isinstance(n.args[0], ast.Name) for n in split)
    pwi = inline_temporaries(pw.node)
    conc = [n for n in ast.walk(pwi) if isinstance(n, ast.Call) and c01.callname(n) == "concatenate"]
    ok_conc = False
    if conc:
        a0 = conc[0].args[0] if conc[0].args else None
        coll = collected_elements(pwi, a0)
        ok_conc = bool(coll) and all(elt == "$o[1][0]" and _ordered_iter(it) and not cond for elt, it, cond in coll)
        axis0 = any(k.arg == "axis" and isinstance(k.value, ast.Constant) and k.value.value == 0 for k in conc[0].keywords)
        ok_conc = ok_conc and axis0
    report.add("R20.1", ent, "chunks of the candidates in order; outputs concatenated as output[1][0]", f"{pw.file}:{pw.node.lineno}",
               ok_split and ok_conc, detail=f"array_split on candidates:{ok_split} concatenate([o[1][0] for o in outputs], axis=0):{ok_conc}")
    # the parallel pool is fed by a generator over the chunks in order
    gen_ok = any(isinstance(n, ast.GeneratorExp) and "delayed" in ast.unparse(n.elt) and not n.generators[0].ifs
                 and isinstance(n.generators[0].iter, ast.Name) for n in ast.walk(pw.node))
    report.add("R20.1", ent, "one delayed inner query per chunk, in chunk order", f"{pw.file}:{pw.node.lineno}", gen_ok)
    # nothing but the NaN-filled allocation and the scatter through the mapping writes the utilities that are selected from
    sb0 = [c for c in ast.walk(pw.node) if isinstance(c, ast.Call) and c01.callname(c) == "simple_batch" and c.args
           and isinstance(c.args[0], ast.Name)]
    if sb0:
        uname = sb0[0].args[0].id
        extra_st = [n for n in ast.walk(pw.node) if isinstance(n, ast.Assign) and any(
            isinstance(t, ast.Subscript) and base_name(t) == uname for t in n.targets)]
        mp_names = c01.mapping_roles(pw.node, set())
        extra_st = [n for n in extra_st if not (index_names(n.targets[0]) & mp_names)]
        report.add("R20.1", ent, "the wrapped strategy's utilities reach simple_batch unaltered", f"{pw.file}:{(extra_st[0] if extra_st else pw.node).lineno}",
                   not extra_st, detail="only scattered through the mapping" if not extra_st else
                   f"`{norm_stmt(extra_st[0], 60)}` rewrites utilities the wrapped strategy reported: utilities and selection "
                   "differ from the unwrapped strategy")
    sb = [n for n in ast.walk(pw.node) if isinstance(n, ast.Return) and isinstance(n.value, ast.Call) and c01.callname(n.value) == "simple_batch"]
    ok_sb = False
    if sb:
        c = sb[0].value
        k2 = kwmap(c)
        rs = c.args[1] if len(c.args) > 1 else k2.get("random_state")
        ok_sb = rs is not None and ast.unparse(rs) == "self.random_state_" and \
            isinstance(k2.get("batch_size"), ast.Name) and k2["batch_size"].id == "batch_size" and \
            isinstance(k2.get("return_utilities"), ast.Name)
    report.add("R20.1", ent, "selection by simple_batch(utilities, self.random_state_, batch_size, return_utilities)",
               f"{pw.file}:{pw.node.lineno}", ok_sb)
    # every way out of query goes through that selection: a shortcut that hands back the wrapped
    # strategy's own output returns candidate-space utilities / indices
    sb_names = {t.id for n in ast.walk(pw.node) if isinstance(n, ast.Assign) and isinstance(n.value, ast.Call)
                and c01.callname(n.value) == "simple_batch" for tt in n.targets
                for t in (tt.elts if isinstance(tt, (ast.Tuple, ast.List)) else [tt]) if isinstance(t, ast.Name)}
    top_rets = [n for n in ast.walk(pw.node) if isinstance(n, ast.Return) and n.value is not None
                and not c01._in_nested(pw.node, n)]
    for r in top_rets:
        okr = (isinstance(r.value, ast.Call) and c01.callname(r.value) == "simple_batch") or (
            bool(names_in(r.value)) and names_in(r.value) <= sb_names)
        report.add("R20.1", ent, f"`{norm_stmt(r, 50)}` returns the simple_batch selection", f"{pw.file}:{r.lineno}", okr,
                   detail="result of simple_batch" if okr else
                   "this return bypasses the scatter through the mapping and simple_batch: indices and utilities are in the "
                   "space of the candidate rows, not of X")
    ff = c01.FnFacts(pw)
    before = len(report.obligations)
    c01.check_nan_discipline(p, report, pw, ff)
    # re-label the shared rule under this property
    for o in report.obligations[before:]:
        o.rule = "R20.1"
    # ---------------- R20.2
    sw = p.get_method("SubSamplingWrapper", "query")
    ent = sw.qual
    tree = FuncTree(sw.node)
    ffs = c01.FnFacts(sw)
    before = len(report.obligations)
    c01.check_choice_replace(p, report, [sw], {id(sw.node): ffs})
    for o in report.obligations[before:]:
        o.rule = "R20.2"
    # store order in each allocation block of the returned utilities
    rets = [n for n in ast.walk(sw.node) if isinstance(n, ast.Return) and isinstance(n.value, ast.Tuple)]
    uname = rets[0].value.elts[1].id if rets and isinstance(rets[0].value.elts[1], ast.Name) else None
    if uname is None:
        raise AnalysisError("SubSamplingWrapper.query: returned utilities not found")
    stores = [n for n in ast.walk(sw.node) if isinstance(n, ast.Assign)
              and any(isinstance(t, ast.Subscript) and base_name(t) == uname for t in n.targets)]
    infs = [s for s in stores if ast.unparse(s.value) in ("-np.inf", "-numpy.inf")]
    vals = [s for s in stores if s not in infs and not c01.is_nan_expr(s.value)]
    for v in vals:
        # the -inf store of the same block must dominate this store
        dom = [i for i in infs if dominates(tree, i, v)]
        # only blocks that also contain an -inf store are judged (the exclude_non_subsample re-translation block has none)
        blk_infs = [i for i in infs if tree.block_of.get(i, (None,))[0] is tree.block_of.get(v, (None,))[0]]
        if not blk_infs and not dom:
            continue
        report.add("R20.2", ent, f"`{norm_stmt(v, 70)}` after the -inf store", f"{sw.file}:{v.lineno}", bool(dom),
                   detail="-inf at all candidates is written first, then the subset's utilities" if dom else
                   "the inner utilities of the subset are overwritten by -inf")
    if not infs:
        report.add("R20.2", ent, "-inf for candidates outside the subset", f"{sw.file}:{sw.node.lineno}", False,
                   detail="no -inf store into the returned utilities")
    check_subsampling_translation(p, report, sw, ent, tree, "R20.2")
    # every batch row of the inner utilities is copied: `new[:, idx] = inner[:, idx]`, never one row for all
    for n in ast.walk(sw.node):
        if isinstance(n, ast.Assign) and isinstance(n.targets[0], ast.Subscript) and isinstance(n.targets[0].slice, ast.Tuple) \
                and isinstance(n.value, ast.Subscript) and isinstance(n.value.slice, ast.Tuple) \
                and len(n.targets[0].slice.elts) == 2 and len(n.value.slice.elts) == 2:
            def _full(x):
                return isinstance(x, ast.Slice) and x.lower is None and x.upper is None and x.step is None
            if _full(n.targets[0].slice.elts[0]):
                okr = _full(n.value.slice.elts[0])
                report.add("R20.2", ent, f"`{norm_stmt(n, 70)}` copies every batch row", f"{sw.file}:{n.lineno}", okr,
                           detail="row-for-row" if okr else
                           "one row of the inner utilities is broadcast to all batch rows: later rows show numbers at "
                           "samples that were already selected")
    check_marks_carried(report, sw, ent, "R20.2")
    check_reduced_set(report, sw, ent, "R20.2")
    check_subset_population(p, report, "R20.2")
    # ---------------- R20.3
    sa = p.get_class("SingleAnnotatorWrapper")
    g = c01.method_by_role(sa, "_get_order_preserving_s_query", lambda n: c01._calls(n, {"rankdata"}))
    q = c01.method_by_role(sa, "_query_annotators", lambda n: c01._calls(n, {"rand_argmax"}) and any(isinstance(x, (ast.For, ast.While)) for x in ast.walk(n)))
    if g is None or q is None:
        raise AnalysisError("SingleAnnotatorWrapper helpers vanished")
    gt = FuncTree(g.node)
    rank = [n for n in ast.walk(g.node) if isinstance(n, ast.Call) and c01.callname(n) == "rankdata"]
    force = [n for n in ast.walk(g.node) if isinstance(n, ast.Assign) and isinstance(n.targets[0], ast.Subscript)
             and _derives_from_call(g.node, n.value, "nanmax", pred=_not_column_max)]
    ok_force = bool(rank) and bool(force) and all(_before(gt, f_, gt.stmt_of(rank[0])) for f_ in force)
    ok_rank = bool(rank) and any(k.arg == "method" and isinstance(k.value, ast.Constant) and k.value.value == "ordinal"
                                 for k in rank[0].keywords) and any(k.arg == "axis" and ast.unparse(k.value) == "1" for k in rank[0].keywords)
    report.add("R20.3", g.qual, "inner picks forced to the row maximum before the ordinal rank transform",
               f"{g.file}:{g.node.lineno}", ok_force and ok_rank, detail=f"force-before-rank={ok_force} ordinal/axis=1={ok_rank}")
    # annotator utilities NaN at unavailable pairs before the combination
    mask = [n for n in ast.walk(g.node) if isinstance(n, ast.Assign) and c01.is_nan_expr(n.value)
            and isinstance(n.targets[0], ast.Subscript) and "~" in ast.unparse(n.targets[0].slice)]
    comb = [n for n in ast.walk(g.node) if isinstance(n, ast.Assign) and isinstance(n.value, ast.BinOp) and isinstance(n.value.op, ast.Add)
            and mask and base_name(mask[0].targets[0]) in names_in(n.value)]
    ok_mask = bool(mask) and bool(comb) and dominates(gt, mask[0], comb[0])
    report.add("R20.3", g.qual, "unavailable pairs NaN before sample and annotator utilities are added",
               f"{g.file}:{g.node.lineno}", ok_mask)
    # NaN of non-candidates restored after ranking
    nanidx = [n for n in ast.walk(g.node) if isinstance(n, ast.Assign) and c01.is_nan_expr(n.value) and rank
              and n.lineno > rank[0].lineno and "~" not in ast.unparse(n.targets[0])]
    report.add("R20.3", g.qual, "NaN utilities stay NaN through the rank transform", f"{g.file}:{g.node.lineno}", bool(nanidx))
    # the annotator utilities added to the integer ranks must not be the caller's raw A_perf
    from ..rawflow import RawFlow
    sq = sa.methods.get("query")
    if sq is None or "A_perf" not in sq.all_param_names():
        raise AnalysisError("SingleAnnotatorWrapper.query(A_perf) vanished")
    qparams = q.params()
    if "annotator_utilities" not in qparams:
        raise AnalysisError("annotator_utilities parameter of the pair-selection helper vanished")
    pos = qparams.index("annotator_utilities") - (1 if qparams and qparams[0] == "self" else 0)

    def sink(call, pos=pos):
        if c01.callname(call) != q.name:
            return []
        out = [k.value for k in call.keywords if k.arg == "annotator_utilities"]
        if len(call.args) > pos:
            out.append(call.args[pos])
        return out
    # the wrapped strategy is asked with index candidates whenever a mapping exists
    sqn = inline_temporaries(sq.node)
    mp_sq = c01.mapping_roles(sqn, set())
    inner_q = [c for c in ast.walk(sqn) if isinstance(c, ast.Call) and isinstance(c.func, ast.Attribute) and c.func.attr == "query"
               and "strategy" in ast.unparse(c.func.value)]
    if not inner_q or not mp_sq:
        raise AnalysisError("SingleAnnotatorWrapper.query: inner query / mapping vanished")
    ck = kwmap(inner_q[0]).get("candidates")
    def _via_defs(e, depth=0):
        """e denotes index candidates taken from the mapping: the mapping itself, a selection
        `mapping[...]` of it, a conditional with such an arm, or a name bound to one of these"""
        if isinstance(e, ast.Name) and e.id in mp_sq:
            return True
        if isinstance(e, ast.Subscript) and isinstance(e.value, ast.Name) and e.value.id in mp_sq:
            return True
        if isinstance(e, ast.IfExp):
            return _via_defs(e.body, depth + 1) or _via_defs(e.orelse, depth + 1)
        if depth > 3 or not isinstance(e, ast.Name):
            return False
        for d in ast.walk(sqn):
            if isinstance(d, ast.Assign) and any(isinstance(t, ast.Name) and t.id == e.id for t in d.targets) \
                    and _via_defs(d.value, depth + 1):
                return True
        return False
    okc = ck is not None and _via_defs(ck)
    report.add("R20.3", sq.qual, "inner strategy is queried with the index candidates when a mapping exists",
               f"{sq.file}:{inner_q[0].lineno}", okc, detail=f"candidates={ast.unparse(ck) if ck is not None else None}" if okc else
               "the wrapped strategy always receives the candidate SAMPLES: strategies that treat index candidates "
               "differently rank other samples than they would unwrapped")
    # the inner picks are located in the SAME index array the inner utilities are gathered with
    gathers = [n for n in ast.walk(sq.node) if isinstance(n, ast.Assign) and isinstance(n.value, ast.Subscript)
               and isinstance(n.value.slice, ast.Tuple) and len(n.value.slice.elts) == 2
               and isinstance(n.value.slice.elts[1], ast.Name) and n.value.slice.elts[1].id in mp_sq]
    lookups = [c for c in ast.walk(sq.node) if isinstance(c, ast.Call) and c01.callname(c) in ("argwhere", "np.argwhere", "where", "flatnonzero")
               and c.args and isinstance(c.args[0], ast.Compare) and len(c.args[0].ops) == 1 and isinstance(c.args[0].ops[0], ast.Eq)]
    for c in lookups:
        cmp_ = c.args[0]
        arr = cmp_.left if isinstance(cmp_.left, ast.Name) else (cmp_.comparators[0] if isinstance(cmp_.comparators[0], ast.Name) else None)
        if arr is None or not gathers:
            continue
        gname = gathers[0].value.slice.elts[1].id
        okl = arr.id == gname
        report.add("R20.3", sq.qual, f"inner picks located by `{norm_stmt(c, 50)}` in the gathering index array", f"{sq.file}:{c.lineno}", okl,
                   detail=f"same array `{gname}` gathers the utilities and locates the picks" if okl else
                   f"the utilities are gathered with `{gname}` but the picks are located in `{arr.id}`: as soon as the two differ "
                   f"(a candidate without an available annotator) another sample is forced to the top than the one the wrapped "
                   f"strategy selected")
    rf = RawFlow(sq.node, "A_perf", sink).run()
    if rf.sinks == 0:
        raise AnalysisError("SingleAnnotatorWrapper.query: call of _query_annotators vanished")
    report.add("R20.3", sq.qual, "annotator utilities handed to _query_annotators are not the raw A_perf",
               f"{sq.file}:{(rf.hits[0][0] if rf.hits else sq.node).lineno}", not rf.hits,
               detail="on every path A_perf is transformed (rescaled / replaced) before it is added to the ranks" if not rf.hits
               else f"on the path where {rf.hits[0][2] or 'always'} the caller's A_perf reaches the sum with the integer "
                    "ranks through value-preserving operations only (no rescaling into [0, 1)): it can reorder the "
                    "samples the wrapped strategy ranked")
    funcs = [q]
    facts = {id(q.node): c01.FnFacts(q)}
    before = len(report.obligations)
    c02.check_loops(p, report, funcs, facts, rule21="R20.3", rule22="R20.3")
    for rec in c01.loop_records(funcs, facts):
        f, ff, L, S, rnames, acc, edges, fw = rec
        carried = closure(c01.operand_names(S, ff.locs), edges) & fw
        report.add("R20.3", f.qual, f"operand of {site_id(S, 50)} depends on earlier picks", f"{f.file}:{S.lineno}",
                   bool(carried), detail=", ".join(sorted(carried)))
        nan_masks = [n for n in ast.walk(L) if isinstance(n, ast.Assign) and c01.is_nan_expr(n.value)
                     and isinstance(n.targets[0], ast.Subscript) and (index_names(n.targets[0]) & c01.pick_derived(L, ff, rnames | acc))]
        report.add("R20.3", f.qual, f"chosen pair set to NaN after {site_id(S, 40)}", f"{f.file}:{S.lineno}", bool(nan_masks))
    for f in (pw, sw, g, q):
        da = DefiniteAssignment(_it(f.node)).run()
        report.add("R20.3" if f in (g, q) else ("R20.1" if f is pw else "R20.2"), f.qual, "all locals bound before use",
                   f"{f.file}:{f.node.lineno}", not da.reports, detail="; ".join(da.reports), nontrivial=False)
    # ---- R20.4 premises shared with C07 / C09
    report.rule("R20.4", "the wrappers keep the wrapped strategy's order: the annotator count assigned to a chosen sample "
                "is capped by its available annotators (shared with C07 R7.7), and the wrappers partition labels with "
                "their own sentinel, never with the NaN default (shared with C09 R9.1)", floor=4)
    from ..common import Report
    from . import c07 as _c07, c09 as _c09
    _c07.check_assignment_capped(p, report, "R20.4")
    sub = Report("C09")
    _c09.run(p, sub, "quick")
    for o in sub.obligations:
        if o.rule == "R9.1" and ("SubSamplingWrapper" in o.entity or "ParallelUtilityEstimationWrapper" in o.entity
                                  or "SingleAnnotatorWrapper" in o.entity):
            report.add("R20.4", o.entity, o.construct, o.loc, o.ok, detail=o.detail)
    report.rule("R20.6", "`max_candidates` is a fraction exactly when it is a float (as documented and as validated): every "
                "conversion of it into a count (`ceil(n * max_candidates)`) sits under an isinstance test of it, not under a "
                "test of its value - `max_candidates < 1` turns the legal fraction 1.0 into a single candidate", floor=2)
    check_ratio_dispatch(p, report)
    report.rule("R20.5", "the wrappers combine ranks and utilities in full-width floats: no array in them is created with / "
                "cast to a bounded-width dtype - in float32 `rank + performance` rounds up to the next rank for a few thousand "
                "candidates, so the order of the wrapped strategy is no longer kept (shared with C04 R4.10)", floor=4)
    from . import c04 as _c04
    _c04.check_no_narrow_dtype(p, report, "R20.5", lambda f: f.file in ("skactiveml/pool/_wrapper.py",
                                                                        "skactiveml/pool/multiannotator/_wrapper.py"))
    report.assumptions += ["numerical equality of wrapped and unwrapped utilities is not decided",
                           "joblib.Parallel returns results in submission order"]


def check_subset_population(p, report, rule="R20.2"):
    """SubSamplingWrapper: the subset size is computed from the population that is drawn from."""
    sw = p.get_method("SubSamplingWrapper", "query")
    ent = sw.qual
    swn = inline_temporaries(sw.node)      # `n_total = len(...)` is substituted back
    # the subset size is computed from the population that is drawn from (in each candidates mode)
    swt = FuncTree(swn)
    n_ratio = 0
    for ch in [c for c in ast.walk(swn) if isinstance(c, ast.Call) and c01.callname(c) == "choice"]:
        kw = kwmap(ch)
        pop = kw.get("a", ch.args[0] if ch.args else None)
        size = kw.get("size", ch.args[1] if len(ch.args) > 1 else None)
        if pop is None or not isinstance(size, ast.Name):
            continue
        ch_stmt = swt.stmt_of(ch)
        # statements of the same top-level candidates-mode branch that precede the draw
        chain = swt.ancestors(ch_stmt)
        top = None
        for (s_, owner, field, idx) in chain:
            if isinstance(owner, ast.If) and "candidates is None" in ast.unparse(owner.test):
                top = (owner, field)
        region = list(getattr(top[0], top[1])) if top else list(swn.body)
        if top:
            # conversions hoisted in front of the candidates-mode split count for every mode
            for st in swn.body:
                if st is top[0] or any(x is top[0] for x in ast.walk(st)):
                    break
                region.append(st)
        lens = set()
        for st in region:
            for x in ast.walk(st):
                if isinstance(x, ast.Assign) and any(isinstance(t, ast.Name) and t.id == size.id for t in x.targets) \
                        and x.lineno < ch_stmt.lineno:
                    for c in ast.walk(x.value):
                        if isinstance(c, ast.Call) and c01.callname(c) == "len" and c.args:
                            lens.add(ast.unparse(c.args[0]))
        popt = ast.unparse(pop)
        aliases = {popt}
        for x in ast.walk(swn):
            if isinstance(x, ast.Assign) and len(x.targets) == 1 and ast.unparse(x.targets[0]) == popt:
                v = x.value
                if isinstance(v, ast.Name):
                    aliases.add(v.id)
                if isinstance(v, ast.Call) and c01.callname(v) in ("range", "arange") and v.args and \
                        isinstance(v.args[0], ast.Call) and c01.callname(v.args[0]) == "len" and v.args[0].args:
                    aliases.add(ast.unparse(v.args[0].args[0]))
        n_ratio += 1
        ok = bool(lens) and lens <= aliases
        report.add(rule, ent, f"subset size of {site_id(ch, 50)} computed from the population drawn from",
                   f"{sw.file}:{ch.lineno}", ok,
                   detail=f"size from len({sorted(lens)}) ; population `{popt}`" if ok else
                   f"the subset size is computed from len({sorted(lens - aliases)}) but the draw is from `{popt}`: the subset "
                   "does not have the documented size")
    if n_ratio < 1:
        raise AnalysisError("SubSamplingWrapper.query: subset draws vanished")


def check_subsampling_translation(p, report, sw, ent, tree, rule):
    # ---- roles (recovered from dataflow, not from variable names)
    Xn = yn = None
    for n in ast.walk(sw.node):
        if isinstance(n, ast.Assign) and isinstance(n.value, ast.Call) and c01.callname(n.value) == "_validate_data" \
                and isinstance(n.targets[0], ast.Tuple) and len(n.targets[0].elts) >= 2:
            Xn, yn = n.targets[0].elts[0].id, n.targets[0].elts[1].id
    inner = [n for n in ast.walk(sw.node) if isinstance(n, ast.Call) and isinstance(n.func, ast.Attribute)
             and n.func.attr == "query" and "query_strategy" in ast.unparse(n.func.value)]
    if not inner or Xn is None:
        raise AnalysisError("SubSamplingWrapper.query: inner query / validated inputs not found")
    inner = inner[0]
    kw = kwmap(inner)
    # result of the inner query and the picked indices unpacked from it
    res_names = set()
    for n in ast.walk(sw.node):
        if isinstance(n, ast.Assign) and n.value is inner:
            res_names |= {t.id for t in n.targets if isinstance(t, ast.Name)}
    pick_names = set(res_names)
    for n in ast.walk(sw.node):
        if isinstance(n, ast.Assign) and isinstance(n.value, ast.Name) and n.value.id in res_names:
            t = n.targets[0]
            if isinstance(t, ast.Name):
                pick_names.add(t.id)
            elif isinstance(t, ast.Tuple) and isinstance(t.elts[0], ast.Name):
                pick_names.add(t.elts[0].id)
    # S: the index array that restricts both X and y before the inner query
    subs = {}
    for n in ast.walk(sw.node):
        if isinstance(n, ast.Assign) and isinstance(n.value, ast.Subscript) and isinstance(n.value.value, ast.Name) \
                and n.value.value.id in (Xn, yn) and isinstance(n.value.slice, ast.Name):
            subs.setdefault(n.value.slice.id, set()).add(n.value.value.id)
    S = [k for k, v in subs.items() if v == {Xn, yn}]
    report.add(rule, ent, "X and y are restricted by the same index array", f"{sw.file}:{sw.node.lineno}", len(S) == 1,
               detail=f"restricting arrays: { {k: sorted(v) for k, v in subs.items()} }")
    okx = False
    if S:
        xs = kw.get("X"), kw.get("y")
        # the inner query receives the restricted X/y (or the originals on the other branch)
        okx = all(isinstance(a, ast.Name) for a in xs)
    tr1 = [n for n in ast.walk(sw.node) if S and isinstance(n, ast.Assign) and isinstance(n.targets[0], ast.Name)
           and n.targets[0].id in pick_names and isinstance(n.value, ast.Subscript)
           and isinstance(n.value.value, ast.Name) and n.value.value.id == S[0]
           and isinstance(n.value.slice, ast.Name) and n.value.slice.id in pick_names]
    g1 = False
    for n in tr1:
        ifs = [(owner, field) for (s_, owner, field, idx) in tree.ancestors(n) if isinstance(owner, ast.If)]
        # guarded by the row-removal test and by nothing else (in particular
        # not by whether utilities were requested)
        if len(ifs) == 1 and ifs[0][1] == "body" and "exclude_non_subsample" in ast.unparse(ifs[0][0].test):
            g1 = True
    report.add(rule, ent, "picks translated through the restricting index array when rows were removed",
               f"{sw.file}:{sw.node.lineno}", bool(tr1) and g1,
               detail="picks = S[picks] under the exclude_non_subsample test" if (tr1 and g1) else
               "the inner strategy's picks refer to the reduced X but are returned untranslated")
    # feature-row candidates: positions drawn by choice translate the picks
    drawn = set()
    for n in ast.walk(sw.node):
        if isinstance(n, ast.Assign) and isinstance(n.value, ast.Call) and c01.callname(n.value) == "choice":
            drawn |= {t.id for t in n.targets if isinstance(t, ast.Name)}
    # plain aliases of the drawn positions (`positions = subsample`)
    grew = True
    while grew:
        grew = False
        for n in ast.walk(sw.node):
            if isinstance(n, ast.Assign) and isinstance(n.value, ast.Name) and n.value.id in drawn:
                for t in n.targets:
                    if isinstance(t, ast.Name) and t.id not in drawn:
                        drawn.add(t.id)
                        grew = True
    tr2 = [n for n in ast.walk(sw.node) if isinstance(n, ast.Assign) and isinstance(n.value, ast.Subscript)
           and isinstance(n.value.value, ast.Name) and n.value.value.id in drawn
           and (names_in(n.value.slice) & pick_names)]
    g2 = False
    for n in tr2:
        for (s_, owner, field, idx) in tree.ancestors(n):
            if isinstance(owner, ast.If) and field == "body" and "ndim > 1" in ast.unparse(owner.test):
                g2 = True
    report.add(rule, ent, "feature-row candidates: picks translated through the drawn positions",
               f"{sw.file}:{sw.node.lineno}", bool(tr2) and g2)
    edges_sw = dep_edges(sw.node.body)
    cand_kw = kw.get("candidates")
    okf = all(isinstance(kw.get(k), ast.Name) and kw[k].id == k for k in ("batch_size", "return_utilities")) \
        and isinstance(cand_kw, ast.Name) and bool(closure({cand_kw.id}, edges_sw) & drawn)
    report.add(rule, ent, "inner query gets the drawn subset, the clipped batch size and return_utilities",
               f"{sw.file}:{sw.node.lineno}", okf)


def _derives_from_call(fnode, expr, cname, depth=0, pred=None):
    """expr contains a call of `cname`, directly or through single-assignment locals"""
    if any(isinstance(n, ast.Call) and c01.callname(n) == cname and (pred is None or pred(n)) for n in ast.walk(expr)):
        return True
    if depth > 4:
        return False
    for nm in names_in(expr):
        defs = [d for d in ast.walk(fnode) if isinstance(d, ast.Assign) and len(d.targets) == 1
                and isinstance(d.targets[0], ast.Name) and d.targets[0].id == nm]
        if len(defs) == 1 and _derives_from_call(fnode, defs[0].value, cname, depth + 1, pred):
            return True
    return False


def _not_column_max(call):
    """the maximum of a row (or of everything) dominates the row; a maximum along axis 0 is a
    per-COLUMN statistic and may be smaller than other entries of the row"""
    for k in call.keywords:
        if k.arg == "axis":
            v = ast.unparse(k.value).replace(" ", "")
            return v in ("1", "-1", "None")
    if len(call.args) > 1:
        return ast.unparse(call.args[1]).replace(" ", "") in ("1", "-1", "None")
    return True


def _emptiness_guard(fnode, test):
    """`if len(x) > 0:` / `if n:` with n = len(x): skipping the body when there is
    nothing to process"""
    t = test
    if isinstance(t, ast.Compare) and len(t.ops) == 1 and isinstance(t.ops[0], (ast.Gt, ast.NotEq)) \
            and isinstance(t.comparators[0], ast.Constant) and t.comparators[0].value == 0:
        t = t.left
    if isinstance(t, ast.Call) and c01.callname(t) == "len":
        return True
    if isinstance(t, ast.Name):
        defs = [d for d in ast.walk(fnode) if isinstance(d, ast.Assign) and len(d.targets) == 1
                and isinstance(d.targets[0], ast.Name) and d.targets[0].id == t.id]
        return len(defs) == 1 and isinstance(defs[0].value, ast.Call) and c01.callname(defs[0].value) == "len"
    return False


def _before(tree, a, b):
    sa = a if isinstance(a, ast.stmt) else tree.stmt_of(a)
    # `a` (possibly inside a loop) precedes b: the statement or its enclosing
    # loop is a preceding sibling in a block enclosing b
    if dominates(tree, sa, b):
        return True
    for (s, owner, field, idx) in tree.ancestors(sa):
        if isinstance(owner, (ast.For, ast.While)) and dominates(tree, owner, b):
            return True
        if isinstance(owner, ast.If) and field == "body" and not owner.orelse and dominates(tree, owner, b) \
                and _emptiness_guard(tree.fnode, owner.test):
            return True
    return False


def check_ratio_dispatch(p, report):
    ci = p.get_class("SubSamplingWrapper")
    if ci is None:
        raise AnalysisError("SubSamplingWrapper vanished")
    n = 0
    for mn, f in sorted(ci.methods.items()):
        role = set()
        for a in ast.walk(f.node):
            if isinstance(a, ast.Assign) and isinstance(a.value, ast.Attribute) and isinstance(a.value.value, ast.Name) \
                    and a.value.value.id == "self" and a.value.attr == "max_candidates":
                role |= {t.id for t in a.targets if isinstance(t, ast.Name)}

        def mentions(e):
            for x in ast.walk(e):
                if isinstance(x, ast.Name) and x.id in role:
                    return True
                if isinstance(x, ast.Attribute) and x.attr == "max_candidates" and isinstance(x.value, ast.Name) and x.value.id == "self":
                    return True
            return False
        tree = FuncTree(f.node)
        for c in ast.walk(f.node):
            if not (isinstance(c, ast.Call) and (ast.unparse(c.func).split(".")[-1] in ("ceil", "floor", "round", "int", "rint"))
                    and c.args and any(isinstance(b, ast.BinOp) and isinstance(b.op, ast.Mult) and mentions(b) for b in ast.walk(c.args[0]))):
                continue
            n += 1
            st = tree.stmt_of(c)
            ok = False
            for (s_, owner, field, idx) in tree.ancestors(st):
                if isinstance(owner, ast.If):
                    for t in ast.walk(owner.test):
                        if isinstance(t, ast.Call) and isinstance(t.func, ast.Name) and t.func.id == "isinstance" and len(t.args) == 2 \
                                and mentions(t.args[0]) and any(isinstance(x, ast.Name) and x.id in ("float", "int", "Integral", "Real")
                                                                  or isinstance(x, ast.Attribute) and x.attr in ("floating", "integer", "Integral", "Real")
                                                                  for x in ast.walk(t.args[1])):
                            ok = True
            report.add("R20.6", f.qual, f"`{norm_stmt(st, 60)}` converts a fraction under a type test", f"{f.file}:{c.lineno}", ok,
                       detail="under isinstance(max_candidates, float)" if ok else
                       "the fraction / count decision is not made by the type of max_candidates: the documented fraction 1.0 (all "
                       "candidates) is then treated as the count 1, so the sub-sample has the wrong size")
    if n == 0:
        raise AnalysisError("no fraction-to-count conversion of max_candidates found in SubSamplingWrapper")
