"""C05 - pool query has no side effects on caller data, models, settings."""
import ast

from ..absint import Interp
from ..common import norm_stmt
from ..effects import writes
from ..index import AnalysisError

ESTIMATOR_HOWS = (".fit()", ".partial_fit()", ".set_params()", ".fit_transform()", ".fit_predict()")


def pool_entities(p):
    out = []
    for ci in p.exported_classes("skactiveml.pool"):
        f = p.find_method(ci, "query")
        if f is not None:
            out.append((ci, f))
    for ci in p.exported_classes("skactiveml.pool.multiannotator"):
        if p.is_subclass(ci, "QueryStrategy"):
            f = p.find_method(ci, "query")
            if f is not None:
                out.append((ci, f))
    return out


def _construct(w):
    """Key of a write: what is written + the statement of the ENTITY function through which it happens
    (not the callee the write sits in: refactoring a helper must not re-key a finding)."""
    from ..effects import stmt_in_frame
    if w.ev.stack:
        try:
            _, st0 = stmt_in_frame(w.ev, 0)
        except Exception:
            st0 = None
        if st0 is not None:
            return f"{w.locname()} {w.kind} ({w.how}) via `{norm_stmt(st0, 80)}`"
    return f"{w.locname()} {w.kind} in {w.ev.fi.qual}: {norm_stmt(w.ev.node)}"


def check_entity(p, report, ci, f, it, r_param="R5.1", r_arr="R5.2", r_est="R5.3", ent=None, only_params=None,
                 ctor_rng_draws_ok=True):
    ent = ent or f"{ci.name}.{f.name}"
    init = p.init_stored_attrs(ci)
    ws = writes(it.events, roots=("self",), include_params=True)
    hit_params = set()
    hit_args = set()
    for w in ws:
        root, path = w.loc
        if root == "self":
            if not path or path[0] not in init:
                continue
            if r_param is None:
                continue
            if ctor_rng_draws_ok and str(w.how).startswith("draw:") and path == ("random_state",):
                # consuming a caller-supplied RandomState instance is scikit-learn's random_state
                # contract for estimators (C13); pool queries (C05) work on a seed-multiplier copy and
                # pass ctor_rng_draws_ok=False
                continue
            hit_params.add(path[0])
            construct = _construct(w)
            what = ("constructor parameter rebound" if (w.kind == "store" and len(path) == 1)
                    else "object held by a constructor parameter mutated (" + str(w.how) + ")")
            report.add(r_param, ent, construct, w.ev.loc, False, detail=what, path=w.ev.path())
        elif root.startswith("p:"):
            pname = root[2:]
            if only_params is not None and pname not in only_params:
                continue
            if str(w.how).startswith("draw:") and pname == "random_state" and not path:
                continue    # the random_state argument itself (scikit-learn's contract)
            is_est = w.how in ESTIMATOR_HOWS or w.kind == "store" or (
                str(w.how).startswith("draw:") and path and path[-1] in ("random_state_", "random_state"))
            rid = r_est if is_est else r_arr
            if rid is None:
                continue
            hit_args.add(pname)
            construct = _construct(w)
            what = ("estimator passed by the caller is fitted/altered (no private clone)" if is_est
                    else "array/object passed by the caller is mutated in place (" + str(w.how) + ")")
            report.add(rid, ent, construct, w.ev.loc, False, detail=what, path=w.ev.path())
    if r_param is not None:
        for a in sorted(init):
            if a not in hit_params:
                report.add(r_param, ent, f"self.{a} read-only", f"{f.file}:{f.node.lineno}", True,
                           detail="no reachable store/in-place write", nontrivial=True)
    for name in f.all_param_names():
        if name == "self":
            continue
        if name not in hit_args and (r_arr or r_est):
            report.add(r_arr or r_est, ent, f"argument {name} read-only",
                       f"{f.file}:{f.node.lineno}", True,
                       detail="no reachable in-place write / fit through an alias", nontrivial=True)


def run(p, report, tier):
    report.rule("R5.1", "no statement reachable from query stores to self.<constructor parameter> or mutates "
                "the object it refers to (directly, through an alias such as self.p_ = self.p, or in a callee)", floor=150)
    report.rule("R5.2", "no value that may alias an array argument of query (through _validate_data, check_array, "
                "column_or_1d, views, slices) is the target of an in-place writer, in query or any project callee", floor=150)
    report.rule("R5.3", "fit/partial_fit/set_params/attribute stores are applied only to fresh objects "
                "(clone/deepcopy), never to an alias of an estimator argument")
    ents = pool_entities(p)
    if len(ents) < 32:
        raise AnalysisError(f"C05: only {len(ents)} pool query entities found (expected >= 32)")
    report.analysed["entities"] = [f"{ci.name}.{f.name}" for ci, f in ents]
    diag = set()
    callstats = {}
    nev = 0
    for ci, f in ents:
        it = Interp(p)
        it.run_entity(ci, f)
        nev += len(it.events)
        diag |= it.diag
        for _k, _v in it.stats.items():
            callstats[_k] = callstats.get(_k, 0) + _v
        check_entity(p, report, ci, f, it, ctor_rng_draws_ok=False)
        # picklability: a function object created inside the call (closure, lambda) stored on the strategy
        # cannot be pickled afterwards
        n_store = 0
        for ev in it.events:
            if ev.kind != "attr_store":
                continue
            base = ev.data["base"]
            if not any(r == "self" and not pth for (r, pth) in base.origins):
                continue
            n_store += 1
            v = ev.data["value"]
            local_fn = [r for r in v.ref if r[0] in ("nested", "lambda")]
            if local_fn:
                report.add("R5.4", f"{ci.name}.{f.name}", f"`{norm_stmt(ev.node, 60)}` keeps the strategy picklable", ev.loc, False,
                           detail="a function defined inside the call (closure / lambda) is stored on the strategy: "
                                  "pickle.dumps(strategy) fails after the first query", path=ev.path())
        report.add("R5.4", f"{ci.name}.{f.name}", "no locally defined function is stored on the strategy", f"{f.file}:{f.node.lineno}",
                   True, detail=f"{n_store} attribute stores inspected", nontrivial=False)
    report.rule("R5.4", "the strategy stays picklable: no closure / lambda created inside a query is stored in an attribute "
                "of the strategy", floor=30)
    report.analysed["member_copy_sites"] = check_member_copies(p, report, "R5.3")
    report.analysed["events"] = nev
    report.analysed["diagnostics"] = sorted(diag)
    report.analysed["call_resolution"] = callstats
    from .. import absint
    report.tables["alias_preserving_functions"] = sorted(absint.ALIAS_FUNCS)
    report.tables["alias_preserving_methods"] = sorted(absint.ALIAS_METHODS)
    report.tables["in_place_methods"] = sorted(absint.INPLACE_METHODS)
    report.tables["in_place_functions"] = sorted(absint.INPLACE_FUNCS)
    report.assumptions += [
        "aliasing is under-approximated: an external call not in the alias tables returns a fresh object",
        "numpy/sklearn functions do not write their inputs unless listed as in-place writers",
        "models reached only through **query_kwargs of a wrapped strategy are out of scope",
    ]


def check_member_copies(p, report, rule):
    """A list / tuple of caller-supplied estimators is deep-copied before its members are used (fitted,
    or asked to predict - which consumes their random_state_): a shallow copy shares the members."""
    n = 0
    for f in p.all_functions():
        if not f.file.startswith("skactiveml/pool") or "/tests/" in f.file:
            continue
        params = set(f.all_param_names())
        for st in ast.walk(f.node):
            if not (isinstance(st, ast.Assign) and isinstance(st.value, ast.Call) and st.value.args
                    and isinstance(st.value.args[0], ast.Name) and st.value.args[0].id in params):
                continue
            fn = st.value.func
            name = fn.attr if isinstance(fn, ast.Attribute) else (fn.id if isinstance(fn, ast.Name) else None)
            if name not in ("copy", "deepcopy", "list", "tuple"):
                continue
            src = st.value.args[0].id
            # only containers of estimators: the same function indexes the copy and calls a member method
            tgt = st.targets[0].id if isinstance(st.targets[0], ast.Name) else None
            if tgt is None:
                continue
            member_calls = [c for c in ast.walk(f.node) if isinstance(c, ast.Call) and isinstance(c.func, ast.Attribute)
                            and isinstance(c.func.value, ast.Subscript) and isinstance(c.func.value.value, ast.Name)
                            and c.func.value.value.id == tgt and c.func.attr in ("fit", "partial_fit", "predict",
                                                                                 "predict_proba", "predict_freq")]
            member_checks = [c for c in ast.walk(f.node) if isinstance(c, ast.Call) and c.args
                             and isinstance(c.args[0], ast.Subscript) and isinstance(c.args[0].value, ast.Name)
                             and c.args[0].value.id == tgt]
            if not member_calls and not member_checks:
                continue
            n += 1
            ok = name == "deepcopy"
            report.add(rule, f.qual, f"members of `{src}` are private copies: `{norm_stmt(st, 50)}`", f"{f.file}:{st.lineno}", ok,
                       detail="deep copy of the container" if ok else
                       f"`{name}` shares the member estimators with the caller: fitting them alters the caller's models, "
                       "and predicting with pre-fitted members consumes their generators (repeated queries differ)")
    return n
