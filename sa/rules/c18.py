"""C18 - selection primitives (rand_argmax / rand_argmin / simple_batch)."""
import ast
from ..astutil import inline_temporaries as _it
import copy

from ..astutil import FuncTree, dominates, inline_temporaries, expand_delegation
from ..common import norm_stmt, site_id
from ..deps import names_in, base_name, index_names
from ..index import AnalysisError
from ..paths import DefiniteAssignment
from . import c01, c02


def _norm_body(fnode, opt):
    t = inline_temporaries(fnode)
    kw = fnode.args.kwarg.arg if fnode.args.kwarg else None

    class N(ast.NodeTransformer):
        def visit_Attribute(self, n):
            self.generic_visit(n)
            if n.attr == opt:
                n.attr = "nanOPT"
            return n

        def visit_Name(self, n):
            if kw and n.id == kw:
                n.id = "OPT_kwargs"
            return n
    t = N().visit(t)
    from ..common import canon
    t = canon(t)
    body = [s for s in t.body if not (isinstance(s, ast.Expr) and isinstance(s.value, ast.Constant)
                                      and isinstance(s.value.value, str))]
    return [ast.dump(s) for s in body]


def check_argmax_primitives(p, report, rule="R18.1"):
    """rand_argmax / rand_argmin: exact-equality tie mask against the NaN-aware
    optimum (keepdims), noise multiplied inside argmax, siblings identical."""
    mod = "skactiveml.utils._selection"
    fa = p.get_func(mod, "rand_argmax")
    fi = p.get_func(mod, "rand_argmin")
    # --- R18.1
    # a sibling that merely delegates to a shared private helper is looked at through the helper
    xa = expand_delegation(p, fa)
    xi = expand_delegation(p, fi)
    a = _norm_body(xa, "nanmax")
    b = _norm_body(xi, "nanmin")
    report.add(rule, "rand_argmax/rand_argmin", "sibling bodies identical up to nanmax<->nanmin",
               f"{fa.file}:{fa.node.lineno}", a == b,
               detail="identical" if a == b else "the two siblings differ in more than the optimum function")
    for f, opt, other, xn in ((fa, "nanmax", "nanmin", xa), (fi, "nanmin", "nanmax", xi)):
        fin = inline_temporaries(xn)
        uses = [n for n in ast.walk(fin) if isinstance(n, ast.Attribute) and n.attr in ("nanmax", "nanmin", "max", "min",
                                                                                              "amax", "amin")]
        ok = any(u.attr == opt for u in uses) and not any(u.attr != opt for u in uses)
        report.add(rule, f.qual, f"NaN-aware optimum np.{opt}", f"{f.file}:{f.node.lineno}", ok,
                   detail=f"uses {sorted({u.attr for u in uses})}")
        # structure: np.argmax(<noise> * (a == np.nanOPT(a, ..., keepdims=True)), ...)
        ok2 = False
        for n in ast.walk(fin):
            if isinstance(n, ast.Call) and c01.callname(n) == "argmax" and n.args and isinstance(n.args[0], ast.BinOp) \
                    and isinstance(n.args[0].op, ast.Mult):
                for side, oth in ((n.args[0].left, n.args[0].right), (n.args[0].right, n.args[0].left)):
                    if isinstance(side, ast.Compare) and len(side.ops) == 1 and isinstance(side.ops[0], ast.Eq):
                        cmp_call = side.comparators[0] if isinstance(side.comparators[0], ast.Call) else side.left
                        if isinstance(cmp_call, ast.Call) and c01.callname(cmp_call) == opt and any(
                                k.arg == "keepdims" and isinstance(k.value, ast.Constant) and k.value.value is True
                                for k in cmp_call.keywords):
                            noise = oth
                            if isinstance(noise, ast.Call) and c01.callname(noise) in ("random", "random_sample", "rand", "uniform"):
                                ok2 = True
        report.add(rule, f.qual, "argmax of noise * (a == optimum(keepdims=True))", f"{f.file}:{f.node.lineno}", ok2,
                   detail="tie-breaking structure present" if ok2 else "tie-breaking structure not found")
        # a flat (scalar) argmax result over an n-d array is turned into coordinates: the guard of
        # np.unravel_index looks at the RESULT (np.isscalar / ndim == 0) or at the value of axis
        # (axis absent or None), never at whether the keyword was spelled out
        unr = [n for n in ast.walk(xn) if isinstance(n, ast.Call) and c01.callname(n) == "unravel_index"]
        tr = FuncTree(xn)
        okg = bool(unr)
        whyg = "no np.unravel_index"
        for u in unr:
            g = None
            for (s_, owner, field, idx) in tr.ancestors(tr.stmt_of(u)):
                if isinstance(owner, ast.If) and field == "body":
                    g = owner
                    break
            if g is None:
                okg, whyg = False, "np.unravel_index is applied unconditionally (also to per-axis results)"
                continue
            t = ast.unparse(g.test).replace(" ", "")
            by_result = "isscalar(" in t or ".ndim==0" in t or "np.ndim(" in t
            by_value = (".get('axis')isNone" in t) or ('.get("axis")isNone' in t) or (".get('axis',None)isNone" in t) \
                or ('.get("axis",None)isNone' in t)
            if not (by_result or by_value):
                okg, whyg = False, (f"guard `{ast.unparse(g.test)[:70]}` does not test the result / the value of axis: an explicit "
                                    f"axis=None returns a flat index for an n-d array")
            else:
                whyg = "guard tests the scalar result" if by_result else "guard tests axis is None"
        report.add(rule, f.qual, "flat index of an n-d array is unravelled", f"{f.file}:{f.node.lineno}", okg, detail=whyg)


def run(p, report, tier):
    report.rule("R18.1", "rand_argmax masks with equality to np.nanmax(..., keepdims=True), rand_argmin with np.nanmin; "
                "the two bodies are identical up to that substitution; the equality mask multiplies the random noise "
                "inside np.argmax", floor=4)
    report.rule("R18.2", "simple_batch: batch_size is clipped to the count of non-NaN entries before either selection "
                "mode; in max mode the row is snapshotted before the winner is masked (R2.1) and the operand depends "
                "on earlier picks (R1.4)", floor=4)
    report.rule("R18.3", "proportional mode: NaN probabilities are zeroed before the draw, the draw is without "
                "replacement, returned rows mask best_indices[:i]", floor=3)
    report.rule("R1.7", "definite assignment in the selection primitives", floor=3)
    mod = "skactiveml.utils._selection"
    fa = p.get_func(mod, "rand_argmax")
    fi = p.get_func(mod, "rand_argmin")
    sb = p.get_func(mod, "simple_batch")
    check_argmax_primitives(p, report, "R18.1")
    # --- R18.2
    tree = FuncTree(sb.node)
    ok, why = c01.has_clip(sb.node, "batch_size", need_return=False)
    clip_if = None
    for n in ast.walk(sb.node):
        if isinstance(n, ast.If) and isinstance(n.test, ast.Compare) and "batch_size" in names_in(n.test) \
                and any(isinstance(s, ast.Assign) and any(isinstance(t, ast.Name) and t.id == "batch_size" for t in s.targets)
                        for s in n.body):
            clip_if = n
    # bound derives from count of non-NaN
    bound_ok = False
    if clip_if is not None:
        small = [x for x in names_in(clip_if.test) if x != "batch_size"]
        for n in ast.walk(sb.node):
            if isinstance(n, ast.Assign) and any(isinstance(t, ast.Name) and t.id in small for t in n.targets):
                txt = ast.unparse(n.value)
                if "isnan" in txt and ("~" in txt or "logical_not" in txt) and "sum" in txt:
                    bound_ok = True
    report.add("R18.2", "simple_batch", "batch_size clipped to the count of non-NaN utilities", f"{sb.file}:{sb.node.lineno}",
               ok and bound_ok, detail=why + ("; bound = count of non-NaN" if bound_ok else "; bound is not the count of non-NaN entries"))
    sels = [n for n in ast.walk(sb.node) if isinstance(n, ast.Call) and c01.is_selection_call(n)]
    if clip_if is not None:
        alld = all(dominates(tree, clip_if, tree.stmt_of(s)) for s in sels)
        report.add("R18.2", "simple_batch", "clip dominates both selection modes", f"{sb.file}:{clip_if.lineno}", alld and len(sels) >= 2,
                   detail=f"{len(sels)} selection calls")
    # every index that simple_batch returns was produced by a selection primitive (rand_argmax /
    # generator.choice on NaN-free probabilities): sorting or arg-reducing the NaN-marked utilities
    # directly is not NaN-aware (NaN sorts last, i.e. FIRST in a reversed order)
    ret_idx = set()
    for n in ast.walk(sb.node):
        if isinstance(n, ast.Return) and n.value is not None:
            v = n.value.elts[0] if isinstance(n.value, ast.Tuple) and n.value.elts else n.value
            if isinstance(v, ast.Name):
                ret_idx.add(v.id)
    for n in ast.walk(sb.node):
        if isinstance(n, ast.Assign) and any(base_name(t) in ret_idx for t in n.targets if isinstance(t, (ast.Name, ast.Subscript))):
            v = n.value
            calls = [c01.callname(c) for c in ast.walk(v) if isinstance(c, ast.Call)]
            alloc = any((c or "").split(".")[-1] in ("empty", "zeros", "full", "ones") for c in calls)
            sel = any(c01.is_selection_call(c) for c in ast.walk(v) if isinstance(c, ast.Call))
            conv = bool(names_in(v) & ret_idx) and not any((c or "").split(".")[-1] in (
                "argsort", "sort", "argmax", "argmin", "nanargmax", "nanargmin", "argpartition", "lexsort", "sorted") for c in calls) \
                and not ((names_in(v) - ret_idx - {"np", "numpy"}) & {a.arg for a in sb.node.args.args[:1]})
            # a winner bound to a local first (`w = rand_argmax(...); idx[i] = w`)
            via_name = isinstance(v, ast.Name) and any(
                isinstance(d, ast.Assign) and any(isinstance(t, ast.Name) and t.id == v.id for t in d.targets)
                and any(isinstance(c, ast.Call) and c01.is_selection_call(c) for c in ast.walk(d.value))
                for d in ast.walk(sb.node))
            okv = alloc or sel or conv or via_name or (isinstance(v, ast.Name) and v.id in ret_idx)
            report.add("R18.2", "simple_batch", f"returned indices `{norm_stmt(n, 60)}` come from a selection primitive",
                       f"{sb.file}:{n.lineno}", okv, detail="allocation / rand_argmax / choice / index conversion" if okv else
                       "the indices are computed by sorting / reducing the NaN-marked utilities directly: NaN entries are "
                       "not excluded and ties are not broken at random")
    # the validation of the utilities accepts what the property quantifies over: any dimensionality, NaN entries
    for c in ast.walk(sb.node):
        if isinstance(c, ast.Call) and c01.callname(c) == "check_array" and c.args and isinstance(c.args[0], ast.Name) \
                and c.args[0].id == sb.params()[0]:
            kws = {k.arg: ast.unparse(k.value) for k in c.keywords if k.arg}
            need = {"allow_nd": ("True",), "ensure_2d": ("False",), "ensure_all_finite": ("'allow-nan'", "False", '"allow-nan"')}
            miss = [k for k, vs in need.items() if kws.get(k) not in vs]
            report.add("R18.2", "simple_batch", f"`{site_id(c, 40)}` accepts n-d utilities with NaN", f"{sb.file}:{c.lineno}", not miss,
                       detail="allow_nd / ensure_2d=False / NaN allowed" if not miss else
                       "missing or different: " + ", ".join(miss) + " - utilities of three or more dimensions (or with NaN) are rejected")
    funcs = [sb]
    facts = {id(sb.node): c01.FnFacts(sb)}
    c02.check_loops(p, report, funcs, facts, rule21="R18.2", rule22="R18.2")
    for rec in c01.loop_records(funcs, facts):
        f, ff, L, S, rnames, acc, edges, fw = rec
        from ..deps import closure
        carried = closure(c01.operand_names(S, ff.locs), edges) & fw
        report.add("R18.2", "simple_batch", f"max mode: operand of {site_id(S, 50)} depends on earlier picks",
                   f"{f.file}:{S.lineno}", bool(carried), detail=", ".join(sorted(carried)))
    # --- R18.3
    choice = [n for n in sels if c01.callname(n) == "choice"]
    if not choice:
        raise AnalysisError("simple_batch: proportional-mode choice call vanished")
    ch = choice[0]
    ch_stmt = tree.stmt_of(ch)
    pname = None
    for k in ch.keywords:
        if k.arg == "p" and isinstance(k.value, ast.Name):
            pname = k.value.id
    rep = any(k.arg == "replace" and isinstance(k.value, ast.Constant) and k.value.value is False for k in ch.keywords)
    report.add("R18.3", "simple_batch", "proportional draw without replacement", f"{sb.file}:{ch.lineno}", rep,
               detail="replace=False" if rep else "replace is not the literal False")
    zeroed = False
    for n in ast.walk(sb.node):
        if isinstance(n, ast.Assign) and pname and any(
                isinstance(t, ast.Subscript) and base_name(t) == pname and "isnan" in ast.unparse(t.slice) for t in n.targets) \
                and isinstance(n.value, ast.Constant) and n.value.value == 0 and dominates(tree, n, ch_stmt):
            zeroed = True
    report.add("R18.3", "simple_batch", "NaN probabilities zeroed before the draw", f"{sb.file}:{ch.lineno}", zeroed,
               detail=f"p = `{pname}`")
    # ... and nothing writes into the probabilities between the zeroing and the draw (a uniform
    # fallback `p[:] = 1 / len(p)` would give the NaN entries mass again)
    zst = [n for n in ast.walk(sb.node) if isinstance(n, ast.Assign) and pname and any(
        isinstance(t, ast.Subscript) and base_name(t) == pname and "isnan" in ast.unparse(t.slice) for t in n.targets)
        and isinstance(n.value, ast.Constant) and n.value.value == 0]
    if zst:
        z0 = zst[0]
        later = [n for n in ast.walk(sb.node) if isinstance(n, (ast.Assign, ast.AugAssign)) and n is not z0
                 and z0.lineno < n.lineno < ch_stmt.lineno and any(
                     base_name(t) == pname for t in (n.targets if isinstance(n, ast.Assign) else [n.target]))]
        later = [n for n in later if not (isinstance(n, ast.AugAssign) and isinstance(n.op, (ast.Div, ast.Mult)))
                 and not (isinstance(n, ast.Assign) and isinstance(n.value, ast.BinOp) and isinstance(n.value.op, (ast.Div, ast.Mult))
                          and isinstance(n.value.left, ast.Name) and n.value.left.id == pname)]
        report.add("R18.3", "simple_batch", "zeroed NaN probabilities are not overwritten before the draw",
                   f"{sb.file}:{(later[0] if later else z0).lineno}", not later,
                   detail="only scaled afterwards" if not later else
                   f"`{norm_stmt(later[0], 60)}` writes into the probabilities after the NaN entries were zeroed: "
                   "a NaN (non-selectable) entry can be drawn")
    # p is a pure scaling of the utilities (no additive shift: a zero weight stays zero)
    pdefs = [n for n in ast.walk(sb.node) if isinstance(n, ast.Assign) and pname and any(
        isinstance(t, ast.Name) and t.id == pname for t in n.targets)]
    pure = bool(pdefs) and all(isinstance(d.value, ast.BinOp) and isinstance(d.value.op, ast.Div)
                               and isinstance(d.value.left, ast.Name) and isinstance(d.value.right, ast.Call)
                               and c01.callname(d.value.right) in ("nansum", "sum")
                               and d.value.right.args and isinstance(d.value.right.args[0], ast.Name)
                               and d.value.right.args[0].id == d.value.left.id for d in pdefs)
    report.add("R18.3", "simple_batch", "sampling probabilities are utilities / nansum(utilities)", f"{sb.file}:{ch.lineno}", pure,
               detail="pure scaling: zero weight keeps zero probability" if pure else
               "the probabilities are not a pure scaling of the utilities (additive smoothing gives zero-weight entries positive mass)")
    # rows mask best[:i]
    res = None
    if isinstance(ch_stmt, ast.Assign) and isinstance(ch_stmt.targets[0], ast.Name):
        res = ch_stmt.targets[0].id
    rowmask = False
    for n in ast.walk(sb.node):
        if isinstance(n, ast.For) and n.lineno > ch.lineno:
            for m in ast.walk(n):
                if isinstance(m, ast.Assign) and c01.is_nan_expr(m.value):
                    for t in m.targets:
                        txt = ast.unparse(t)
                        if isinstance(n.target, ast.Name) and res and f"{res}[:{n.target.id}]" in txt.replace(" ", ""):
                            rowmask = True
    # vectorised idiom: rows, prev = np.tril_indices(n, k=-1); U[rows, picks[prev]] = nan
    tril = {}
    for n in ast.walk(sb.node):
        if isinstance(n, ast.Assign) and isinstance(n.value, ast.Call) and c01.callname(n.value) == "tril_indices" \
                and any(k.arg == "k" and ast.unparse(k.value) == "-1" for k in n.value.keywords) \
                and isinstance(n.targets[0], ast.Tuple) and len(n.targets[0].elts) == 2 \
                and all(isinstance(e, ast.Name) for e in n.targets[0].elts):
            tril[n.targets[0].elts[0].id] = n.targets[0].elts[1].id
    for m in ast.walk(sb.node):
        if isinstance(m, ast.Assign) and c01.is_nan_expr(m.value) and m.lineno > ch.lineno and res:
            for t in m.targets:
                if isinstance(t, ast.Subscript) and isinstance(t.slice, ast.Tuple) and len(t.slice.elts) == 2 \
                        and isinstance(t.slice.elts[0], ast.Name) and t.slice.elts[0].id in tril:
                    second = ast.unparse(t.slice.elts[1]).replace(" ", "")
                    if second == f"{res}[{tril[t.slice.elts[0].id]}]":
                        rowmask = True
    report.add("R18.3", "simple_batch", "row i masks the picks of steps < i", f"{sb.file}:{ch.lineno}", rowmask,
               detail=f"picks in `{res}`")
    # --- definite assignment
    for f in (fa, fi, sb):
        da = DefiniteAssignment(_it(f.node)).run()
        report.add("R1.7", f.qual, "all locals bound before use", f"{f.file}:{f.node.lineno}", not da.reports,
                   detail="; ".join(f"{k} unbound" for k in da.reports))
    report.assumptions += ["tie fairness over seeds and optimality as numbers are not decided"]
