"""C03 - stream query / query_by_utility never change state (effect rule)."""
import ast

from ..absint import Interp, fmt_origin, INPLACE_METHODS
from ..astutil import dominates, postdominates, name_stores
from ..common import norm_stmt
from ..effects import (writes, stmt_in_frame, chain_len, tree_of,
                       has_not_hasattr_guard)
from ..index import ClassInfo, AnalysisError

RULE = "R3"


def is_abstract(fi):
    for d in fi.node.decorator_list:
        if (isinstance(d, ast.Name) and d.id == "abstractmethod") or (
            isinstance(d, ast.Attribute) and d.attr == "abstractmethod"
        ):
            return True
    return False


def entities(p):
    out = []
    for ci in p.exported_classes("skactiveml.stream"):
        f = p.find_method(ci, "query")
        if f is not None and not is_abstract(f):
            out.append((ci, f))
    for ci in p.exported_classes("skactiveml.stream.budgetmanager"):
        f = p.find_method(ci, "query_by_utility")
        if f is not None and not is_abstract(f):
            out.append((ci, f))
    return out


def paramlike(name, ci_params):
    if ci_params is not None:
        return name in ci_params
    return not name.endswith("_") and not name.startswith("_")


def name_is_mutated(fi, name):
    """Syntactic: is local `name` mutated in place / rebound more than once?"""
    n_store = len(name_stores(fi.node, name))
    if n_store != 1:
        return True
    for n in ast.walk(fi.node):
        if isinstance(n, ast.Call) and isinstance(n.func, ast.Attribute) \
                and isinstance(n.func.value, ast.Name) and n.func.value.id == name \
                and n.func.attr in INPLACE_METHODS:
            return True
        if isinstance(n, (ast.Subscript, ast.Attribute)) and isinstance(n.ctx, (ast.Store, ast.Del)) \
                and isinstance(n.value, ast.Name) and n.value.id == name:
            return True
    return False


COPY_FUNCS = {"copy", "deepcopy"}          # type- and attribute-preserving
CONV_FUNCS = {"list", "deque", "dict", "tuple", "set"}  # conversions: only exact if the attribute is a plain one


def _attr_chain(e):
    while isinstance(e, ast.Attribute):
        e = e.value
    return isinstance(e, ast.Name)


def pure_snapshot_expr(e, rng):
    """`e` only reads one attribute chain, optionally through a copy."""
    if e is None:
        return False
    if isinstance(e, ast.Attribute):
        return not rng and _attr_chain(e)
    if isinstance(e, ast.Call):
        f = e.func
        if isinstance(f, ast.Attribute) and not e.args and not e.keywords and _attr_chain(f.value):
            return f.attr == ("get_state" if rng else "copy")
        fname = f.id if isinstance(f, ast.Name) else (f.attr if isinstance(f, ast.Attribute) else None)
        if not rng and fname in COPY_FUNCS and len(e.args) == 1 and not e.keywords \
                and isinstance(e.args[0], ast.Attribute) and _attr_chain(e.args[0]):
            return True
        if not rng and fname in CONV_FUNCS and len(e.args) == 1 and not e.keywords \
                and isinstance(e.args[0], ast.Attribute) and _attr_chain(e.args[0]):
            return "conv:" + fname
    return False


def creation_kinds(p, ci, attr):
    """How self.<attr> is created in the class (MRO): set of 'list', 'dict',
    'deque(maxlen)', 'deque', 'other'."""
    out = set()
    from ..index import ClassInfo
    for k in p.mro(ci):
        if not isinstance(k, ClassInfo):
            continue
        for f in k.methods.values():
            for n in ast.walk(f.node):
                if isinstance(n, ast.Assign) and any(isinstance(t, ast.Attribute) and isinstance(t.value, ast.Name)
                                                     and t.value.id == "self" and t.attr == attr for t in n.targets):
                    v = n.value
                    if isinstance(v, ast.Name):
                        continue  # restore from a saved local
                    if isinstance(v, ast.List):
                        out.add("list")
                    elif isinstance(v, ast.Dict):
                        out.add("dict")
                    elif isinstance(v, ast.Call) and isinstance(v.func, ast.Name) and v.func.id in CONV_FUNCS:
                        out.add(v.func.id + ("(kw)" if (v.keywords or len(v.args) > 1) else ""))
                    else:
                        out.add("other")
    return out


class Discharger:
    def __init__(self, p, ci, it):
        self.p = p
        self.ci = ci
        self.it = it
        self.init_attrs = p.init_stored_attrs(ci)
        self.by_fn = {}
        for ev in it.events:
            self.by_fn.setdefault(id(ev.fi.node), []).append(ev)

    # -- ordering discharges -------------------------------------------------
    def _restore_in(self, w, j):
        """Is write `w` bracketed in function j of its chain by a save that
        dominates it and a restore that post-dominates it?"""
        fi, sj = stmt_in_frame(w.ev, j)
        if sj is None:
            return None
        tree = tree_of(fi)
        evs = self.by_fn.get(id(fi.node), [])
        prefix_stack = w.ev.stack[:j]
        for r in evs:
            if r.stack[:j] != prefix_stack or len(r.stack) != j:
                continue
            tname = None
            rng = False
            if r.kind == "attr_store" and w.kind in ("store", "mutate") and \
                    not str(w.how).startswith("draw:") and w.how != ".set_state()":
                base = r.data["base"]
                locs = {(root, path + (r.data["attr"],)) for (root, path) in base.origins}
                if w.loc not in locs:
                    continue
                val = getattr(r.node, "value", None)
                if not isinstance(r.node, ast.Assign) or not isinstance(val, ast.Name):
                    continue
                tname = val.id
            elif r.kind == "mutate" and r.data.get("how") == ".set_state()":
                if w.loc not in r.data["target"].origins:
                    continue
                if not (w.kind == "mutate" and (str(w.how).startswith("draw:") or w.how == ".set_state()")):
                    continue
                call = r.node
                if not (isinstance(call, ast.Call) and call.args and isinstance(call.args[0], ast.Name)):
                    continue
                tname = call.args[0].id
                rng = True
            else:
                continue
            rs = tree.stmt_of(r.node) if not isinstance(r.node, ast.stmt) else r.node
            if not postdominates(tree, rs, sj):
                continue
            # the save
            for b in evs:
                if b.kind != "bind" or b.data["name"] != tname:
                    continue
                if b.stack[:j] != prefix_stack or len(b.stack) != j:
                    continue
                v = b.data["value"]
                if w.loc not in v.deps:
                    continue
                if rng and "rng_state" not in v.deps:
                    continue
                if not rng and w.kind == "mutate" and w.loc in v.origins:
                    continue  # alias save cannot undo an in-place mutation
                if not rng and "rng_state" in v.deps:
                    continue
                sv = getattr(b.node, "value", None)
                if isinstance(sv, ast.Tuple) and isinstance(r.node, ast.Assign) and isinstance(r.node.targets[0], ast.Tuple) \
                        and len(sv.elts) == len(r.node.targets[0].elts) and r.kind == "attr_store":
                    # state saved as one tuple of snapshots and restored by one unpacking assignment:
                    # judge the component that belongs to this attribute
                    pos = [i for i, t_ in enumerate(r.node.targets[0].elts)
                           if isinstance(t_, ast.Attribute) and t_.attr == r.data["attr"]]
                    if not pos:
                        continue
                    sv = sv.elts[pos[0]]
                    reads = [x for x in ast.walk(sv) if isinstance(x, ast.Attribute)]
                    if not any(x.attr == r.data["attr"] for x in reads):
                        continue  # component i does not snapshot the attribute restored at position i
                kind = pure_snapshot_expr(sv, rng)
                if not kind:
                    continue  # snapshot mixes in something else
                if isinstance(kind, str) and kind.startswith("conv:"):
                    # a conversion (list(x), deque(x)) only restores the state
                    # exactly if the attribute is always a plain container of
                    # that type (deque(x) drops maxlen, ...)
                    if w.loc[0] != "self" or len(w.loc[1]) != 1:
                        continue
                    ck = creation_kinds(self.p, self.ci, w.loc[1][0])
                    if ck != {kind[5:]}:
                        continue
                if not dominates(tree, b.node, sj):
                    continue
                if name_is_mutated(fi, tname):
                    continue
                return ("W-rng" if rng else "W-restore") + f"[{fi.qual}: {tname}]"
        return None

    def ordering(self, w):
        for j in range(chain_len(w.ev) - 1, -1, -1):
            r = self._restore_in(w, j)
            if r:
                return r
        return None

    # -- local discharges ------------------------------------------------------
    def local(self, w):
        ev = w.ev
        root, path = w.loc
        if w.kind == "store":
            attr = path[-1]
            prefix = path[:-1]
            if has_not_hasattr_guard(ev, attr):
                return "W-init"
            val = ev.data["value"]
            if w.loc in val.origins and ev.data.get("how") in ("=",) and not (
                    {"global_rng", "os_entropy"} & set(val.deps)):
                return "W-norm"
            if attr == "n_features_in_" and ev.fi.name == "check_n_features" and ev.fi.cls is None:
                return "W-meta"
            if ev.data.get("how") == "=":
                ok = True
                for d in val.deps:
                    if isinstance(d, tuple):
                        droot, dpath = d
                        if not (droot == "self" or droot.startswith("obj:")) or not dpath:
                            ok = False
                            break
                        params = self.init_attrs if (droot == "self" and len(dpath) == 1) else None
                        if not paramlike(dpath[-1], params):
                            ok = False
                            break
                    elif d in ("global_rng", "rng_state", "os_entropy"):
                        ok = False
                        break
                if ok:
                    return "W-param"
        return None

    def classify(self, w):
        root, path = w.loc
        if root == "self" and path and path[0] in self.init_attrs:
            # a constructor parameter (or an object it refers to) is written
            if not (w.kind == "store" and len(path) > 1 and self.local(w)):
                if len(path) == 1 or w.kind == "mutate":
                    return None, "constructor parameter written in a query"
        tag = self.local(w)
        if tag:
            return tag, ""
        tag = self.ordering(w)
        if tag:
            return tag, ""
        return None, "state write not undone before return"


def run(p, report, tier):
    report.rule(RULE, (
        "every store to / in-place mutation of / random draw from an object "
        "reachable from self on a path from query (query_by_utility) to its "
        "return is discharged by W-init (guarded by not hasattr), W-param "
        "(value derives only from constructor parameters/constants), W-norm "
        "(self.a = alias-preserving f(self.a)), W-meta (n_features_in_ in "
        "check_n_features), W-restore (copy-save dominates, restore "
        "post-dominates) or W-rng (get_state/set_state bracket); no "
        "constructor parameter is written"), floor=100)
    ents = entities(p)
    if len(ents) < 20:
        raise AnalysisError(f"C03: only {len(ents)} stream entities found (expected >= 20)")
    report.analysed["entities"] = [f"{ci.name}.{f.name}" for ci, f in ents]
    n_events = 0
    diag = set()
    callstats = {}
    for ci, f in ents:
        ent = f"{ci.name}.{f.name}"
        verdicts = {}
        # three views of the lazily created state: unknown (every hasattr test explores both
        # branches, values merged), cold (first call on a fresh object: precise values of what
        # the call creates) and warm (everything exists already)
        for mode in (None, "cold", "warm"):
            it = Interp(p)
            it.hasattr_mode = mode
            it.run_entity(ci, f)
            n_events += len(it.events)
            diag |= it.diag
            for _k, _v in it.stats.items():
                callstats[_k] = callstats.get(_k, 0) + _v
            dis = Discharger(p, ci, it)
            for w in writes(it.events, roots=("self",)):
                construct = f"{w.locname()} {w.kind} in {w.ev.fi.qual}: {norm_stmt(w.ev.node)}"
                tag, why = dis.classify(w)
                cur = verdicts.get(construct)
                if cur is None or (cur[0] is not None and tag is None):
                    verdicts[construct] = (tag, why, w, mode)
        for construct, (tag, why, w, mode) in verdicts.items():
            report.add(RULE, ent, construct, w.ev.loc, tag is not None,
                       detail=tag or (why + (f" [{mode} start]" if mode else "")), nontrivial=True,
                       path=w.ev.path())
        # the model the caller passes in is part of "all future behaviour": a query that fits / alters it
        # changes what every later query with the same model object returns
        from .c05 import ESTIMATOR_HOWS
        it = Interp(p)
        it.run_entity(ci, f)
        seen_p = set()
        for w in writes(it.events, roots=("self",), include_params=True):
            root, path = w.loc
            if not root.startswith("p:") or w.how not in ESTIMATOR_HOWS:
                continue
            construct = f"{w.locname()} {w.kind} ({w.how}) in {w.ev.fi.qual}: {norm_stmt(w.ev.node)}"
            if construct in seen_p:
                continue
            seen_p.add(construct)
            report.add(RULE, ent, construct, w.ev.loc, False,
                       detail="the estimator passed by the caller is fitted / altered by a query (no private clone): later "
                              "queries with the same object see another model", path=w.ev.path())
    if tier == "thorough":
        # every stream strategy combined with every project budget manager a
        # user may pass (the quick tier resolves only the default manager)
        from ..absint import AV, FS
        bms = [c for c in p.exported_classes("skactiveml.stream.budgetmanager")
               if p.find_method(c, "query_by_utility") is not None and not is_abstract(p.find_method(c, "query_by_utility"))]
        combos = 0
        for ci, f in ents:
            if "budget_manager" not in p.init_stored_attrs(ci):
                continue
            for bm in bms:
                it = Interp(p)
                it.heap[("self", ("budget_manager",))] = AV(origins=FS([("self", ("budget_manager",))]),
                                                             cls=FS(["P:" + bm.name]))
                it.run_entity(ci, f)
                n_events += len(it.events)
                dis = Discharger(p, ci, it)
                ent = f"{ci.name}.{f.name}[budget_manager={bm.name}]"
                combos += 1
                seen = set()
                for w in writes(it.events, roots=("self",)):
                    construct = f"{w.locname()} {w.kind} in {w.ev.fi.qual}: {norm_stmt(w.ev.node)}"
                    if construct in seen:
                        continue
                    tag, why = dis.classify(w)
                    seen.add(construct)
                    report.add(RULE, ent, construct, w.ev.loc, tag is not None, detail=tag or why, path=w.ev.path())
        report.analysed["strategy_x_manager_combinations"] = combos
    report.analysed["events"] = n_events
    report.analysed["diagnostics"] = sorted(diag)
    report.analysed["call_resolution"] = callstats
    report.assumptions += [
        "external (numpy/sklearn) calls have only the effects listed in the in-place tables",
        "exceptions raised between a save and its restore are not modelled",
        "budget_manager_.query_by_utility of a user-supplied manager is covered by that manager's own obligation",
    ]
