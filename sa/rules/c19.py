"""C19 - index-based incremental refitting (IndexClassifierWrapper)."""
import ast
import copy

from ..astutil import FuncTree, dominates
from ..common import norm_stmt, site_id
from ..deps import names_in, base_name
from ..index import AnalysisError
from ..paths import MustAnalysis, DefiniteAssignment, describe
from . import c01

GROUPS = [("idx_", "y_", "sample_weight_"), ("base_idx_", "base_y_", "base_sample_weight_")]
COPIERS = {"copy", "_copy_sw", "deepcopy", "clone"}


class AttrStores(MustAnalysis):
    def gen(self, stmt):
        out = []
        if isinstance(stmt, ast.Assign):
            for t in stmt.targets:
                if isinstance(t, ast.Attribute) and isinstance(t.value, ast.Name) and t.value.id == "self":
                    out.append("a:" + t.attr)
        return out


class AttrStoresMay(AttrStores):
    """second pass: tokens 'n:<attr>' = attr definitely NOT stored so far
    (killed by a store) - gives the may-set by complement."""

    def __init__(self, fnode, attrs):
        super().__init__(fnode, init_tokens=["n:" + a for a in attrs])

    def gen(self, stmt):
        return ()

    def kill_tokens(self, stmt):
        out = []
        if isinstance(stmt, ast.Assign):
            for t in stmt.targets:
                if isinstance(t, ast.Attribute) and isinstance(t.value, ast.Name) and t.value.id == "self":
                    out.append("n:" + t.attr)
        return out


def deleg_calls(fnode):
    """Calls on self.clf / self.clf_ / self.base_clf_ whose result is returned."""
    out = []
    for n in ast.walk(fnode):
        if isinstance(n, ast.Return) and isinstance(n.value, ast.Call) and isinstance(n.value.func, ast.Attribute):
            recv = n.value.func.value
            if isinstance(recv, ast.Attribute) and isinstance(recv.value, ast.Name) and recv.value.id == "self" \
                    and recv.attr in ("clf", "clf_", "base_clf_"):
                out.append(n.value)
    return out


def norm_sibling(fnode):
    t = copy.deepcopy(fnode)

    class N(ast.NodeTransformer):
        def visit_Call(self, n):
            self.generic_visit(n)
            f = n.func
            if isinstance(f, ast.Attribute) and isinstance(f.value, ast.Attribute) and isinstance(f.value.value, ast.Name) \
                    and f.value.value.id == "self" and f.value.attr in ("clf", "clf_"):
                f.attr = "DELEGATE"
            return n

        def visit_Constant(self, n):
            if isinstance(n.value, str):
                return ast.Constant(value="S")
            return n
    t = N().visit(t)
    body = [s for s in t.body if not (isinstance(s, ast.Expr) and isinstance(s.value, ast.Constant))]
    return [ast.dump(s) for s in body]


def run(p, report, tier):
    report.rule("R19.1", "in IndexClassifierWrapper.predict / predict_proba / predict_freq every delegated call on "
                "self.clf / self.clf_ on every path (speed-up, prefitted fallback, plain) calls the method of the "
                "same name as the enclosing method", floor=9)
    report.rule("R19.2", "co-assignment groups {idx_, y_, sample_weight_} and {base_idx_, base_y_, "
                "base_sample_weight_}: on every path of every method either all members are stored or none", floor=8)
    report.rule("R19.3", "stores into base_* and restores from base_* go through .copy()/_copy_sw/deepcopy/clone "
                "(base state never aliases current state)", floor=6)
    report.rule("R19.5", "when the current training triple is restored from the base model, every member comes from "
                "its own base_* counterpart (sibling agreement)", floor=3)
    report.rule("R19.4", "the three predict* siblings are structurally identical up to the delegated method name "
                "(same NaN guard on the kernel block before the precomputed clone is used); the precomputed kernel "
                "comes from the wrapped classifier's metric / metric_dict", floor=4)
    ci = p.get_class("IndexClassifierWrapper")
    # ---- R19.1
    for m in ("predict", "predict_proba", "predict_freq"):
        f = ci.methods.get(m)
        if f is None:
            raise AnalysisError(f"IndexClassifierWrapper.{m} vanished")
        calls = deleg_calls(f.node)
        if len(calls) < 3:
            raise AnalysisError(f"IndexClassifierWrapper.{m}: expected 3 delegated returns, found {len(calls)}")
        for c in calls:
            ok = c.func.attr == m
            report.add("R19.1", f.qual, f"delegation `{norm_stmt(c, 60)}`", f"{f.file}:{c.lineno}", ok,
                       detail="same-name delegation" if ok else
                       f"{m} delegates to {c.func.attr}: the result is not what {m} documents")
    # ---- R19.2
    all_attrs = [a for g in GROUPS for a in g]
    for mname, f in sorted(ci.methods.items()):
        if mname.startswith("__") and mname != "__init__":
            continue
        stores = {t.attr for n in ast.walk(f.node) if isinstance(n, ast.Assign) for t in n.targets
                  if isinstance(t, ast.Attribute) and isinstance(t.value, ast.Name) and t.value.id == "self"}
        if not (stores & set(all_attrs)):
            continue
        must = AttrStores(f.node).run()
        may = AttrStoresMay(f.node, all_attrs).run()
        for g in GROUPS:
            if not (stores & set(g)):
                continue
            bad = None
            for (r1, sts1), (r2, sts2) in zip(must.returns, may.returns):
                for s1 in sts1:
                    have = {a for a in g if "a:" + a in s1.tokens}
                    # may-stored = not definitely-unstored on a path with the same facts
                    for s2 in sts2:
                        if s2.key() != s1.key():
                            continue
                        maybe = {a for a in g if "n:" + a not in s2.tokens}
                        if maybe and maybe != have:
                            bad = (have, maybe, s1.facts)
                        elif have and have != set(g):
                            bad = (have, maybe, s1.facts)
            report.add("R19.2", f.qual, "group {" + ", ".join(g) + "} stored together", f"{f.file}:{f.node.lineno}",
                       bad is None, detail="all-or-none on every path" if bad is None else
                       f"on the path where {describe(bad[2]) or 'always'}: certainly stored {sorted(bad[0])}, possibly stored {sorted(bad[1])}")
    # ---- R19.3
    for mname, f in sorted(ci.methods.items()):
        for n in ast.walk(f.node):
            if not isinstance(n, ast.Assign):
                continue
            tgt_base = [t.attr for t in n.targets if isinstance(t, ast.Attribute) and isinstance(t.value, ast.Name)
                        and t.value.id == "self" and t.attr.startswith("base_")]
            reads_base = [x.attr for x in ast.walk(n.value) if isinstance(x, ast.Attribute) and isinstance(x.value, ast.Name)
                          and x.value.id == "self" and x.attr.startswith("base_")]
            if not tgt_base and not reads_base:
                continue
            v = n.value
            okc = isinstance(v, ast.Call) and c01.callname(v) in COPIERS
            report.add("R19.3", f.qual, f"`{norm_stmt(n, 80)}`", f"{f.file}:{n.lineno}", okc,
                       detail="copied" if okc else "base state and current state share one object: a later in-place "
                       "change of one leaks into the other")
    # ---- R19.5 a restore from the base model takes every member from its own base counterpart
    for mname, f in sorted(ci.methods.items()):
        for blk_owner in ast.walk(f.node):
            if not isinstance(blk_owner, ast.If):
                continue
            assigns = [n for n in blk_owner.body if isinstance(n, ast.Assign) and isinstance(n.targets[0], ast.Attribute)
                       and isinstance(n.targets[0].value, ast.Name) and n.targets[0].value.id == "self"
                       and n.targets[0].attr in GROUPS[0]]
            from_base = [n for n in assigns if ("self.base_" + n.targets[0].attr) in ast.unparse(n.value)]
            if not from_base:
                continue
            for n in assigns:
                a = n.targets[0].attr
                ok = ("self.base_" + a) in ast.unparse(n.value)
                report.add("R19.5", f.qual, f"restore `{norm_stmt(n, 70)}`", f"{f.file}:{n.lineno}", ok,
                           detail=f"from self.base_{a}" if ok else
                           f"self.{a} is not restored from self.base_{a} although its siblings are restored from the base state")
    # ---- R19.4
    bodies = {m: norm_sibling(ci.methods[m].node) for m in ("predict", "predict_proba", "predict_freq")}
    same = bodies["predict"] == bodies["predict_proba"] == bodies["predict_freq"]
    report.add("R19.4", "IndexClassifierWrapper.predict*", "siblings identical up to the delegated method name",
               f"{ci.file}:{ci.node.lineno}", same,
               detail="identical" if same else "the three predict* methods differ in more than the delegated method")
    for m in ("predict", "predict_proba", "predict_freq"):
        f = ci.methods[m]
        tree = FuncTree(f.node)
        guard = [n for n in ast.walk(f.node) if isinstance(n, ast.If) and "isnan" in ast.unparse(n.test)
                 and any(isinstance(s, ast.Raise) for s in n.body)]
        pre = [c for c in deleg_calls(f.node) if c.args and isinstance(c.args[0], ast.Name)]
        ok = bool(guard) and bool(pre) and all(dominates(tree, guard[0], tree.stmt_of(c)) and
                                               c.args[0].id in names_in(guard[0].test) for c in pre)
        report.add("R19.4", f.qual, "NaN guard on the kernel block dominates the precomputed prediction",
                   f"{f.file}:{f.node.lineno}", ok)
    init = ci.methods["__init__"]
    prov = {}
    for n in ast.walk(init.node):
        if isinstance(n, ast.Assign):
            for t in n.targets:
                if isinstance(t, ast.Attribute) and t.attr in ("pwc_metric_", "pwc_metric_dict_"):
                    prov[t.attr] = ast.unparse(n.value)
    okp = "self.clf.metric" in prov.get("pwc_metric_", "") and "self.clf.metric_dict" in prov.get("pwc_metric_dict_", "")
    pc = ci.methods["precompute"]
    usek = any(isinstance(n, ast.Call) and c01.callname(n) == "pairwise_kernels" and "self.pwc_metric_" in ast.unparse(n)
               and "**self.pwc_metric_dict_" in ast.unparse(n) for n in ast.walk(pc.node))
    report.add("R19.4", "IndexClassifierWrapper.precompute", "kernel from the wrapped classifier's metric and metric_dict",
               f"{pc.file}:{pc.node.lineno}", okp and usek, detail=str(prov))
    for mname, f in sorted(ci.methods.items()):
        da = DefiniteAssignment(f.node).run()
        report.add("R19.2", f.qual, "all locals bound before use", f"{f.file}:{f.node.lineno}", not da.reports,
                   detail="; ".join(da.reports), nontrivial=False)
    report.assumptions += ["equality with a retrained reference classifier is not decided"]
