"""C19 - index-based incremental refitting (IndexClassifierWrapper)."""
import ast
from ..astutil import inline_temporaries as _it
import copy

from ..astutil import FuncTree, dominates
from ..common import norm_stmt, site_id
from ..deps import names_in, base_name, dep_edges
from ..index import AnalysisError
from ..paths import MustAnalysis, DefiniteAssignment, describe
from . import c01

GROUPS = [("idx_", "y_", "sample_weight_"), ("base_idx_", "base_y_", "base_sample_weight_")]
COPIERS = {"copy", "_copy_sw", "deepcopy", "clone"}


class AttrStores(MustAnalysis):
    def gen(self, stmt):
        out = []
        if isinstance(stmt, ast.Assign):
            for t in stmt.targets:
                if isinstance(t, ast.Attribute) and isinstance(t.value, ast.Name) and t.value.id == "self":
                    out.append("a:" + t.attr)
        return out


class AttrStoresMay(AttrStores):
    """second pass: tokens 'n:<attr>' = attr definitely NOT stored so far
    (killed by a store) - gives the may-set by complement."""

    def __init__(self, fnode, attrs):
        super().__init__(fnode, init_tokens=["n:" + a for a in attrs])

    def gen(self, stmt):
        return ()

    def kill_tokens(self, stmt):
        out = []
        if isinstance(stmt, ast.Assign):
            for t in stmt.targets:
                if isinstance(t, ast.Attribute) and isinstance(t.value, ast.Name) and t.value.id == "self":
                    out.append("n:" + t.attr)
        return out


def deleg_calls(fnode):
    """Calls on self.clf / self.clf_ / self.base_clf_ whose result is returned."""
    out = []
    for n in ast.walk(fnode):
        if isinstance(n, ast.Return) and isinstance(n.value, ast.Call) and isinstance(n.value.func, ast.Attribute):
            recv = n.value.func.value
            if isinstance(recv, ast.Attribute) and isinstance(recv.value, ast.Name) and recv.value.id == "self" \
                    and recv.attr in ("clf", "clf_", "base_clf_"):
                out.append(n.value)
    return out


def norm_sibling(fnode):
    t = copy.deepcopy(fnode)

    class N(ast.NodeTransformer):
        def visit_Call(self, n):
            self.generic_visit(n)
            f = n.func
            if isinstance(f, ast.Attribute) and isinstance(f.value, ast.Attribute) and isinstance(f.value.value, ast.Name) \
                    and f.value.value.id == "self" and f.value.attr in ("clf", "clf_"):
                f.attr = "DELEGATE"
            return n

        def visit_Constant(self, n):
            if isinstance(n.value, str):
                return ast.Constant(value="S")
            return n
    t = N().visit(t)
    body = [s for s in t.body if not (isinstance(s, ast.Expr) and isinstance(s.value, ast.Constant))]
    return [ast.dump(s) for s in body]


from .c03 import is_abstract as c13_is_abstract


def run(p, report, tier):
    report.rule("R19.1", "in IndexClassifierWrapper.predict / predict_proba / predict_freq every delegated call on "
                "self.clf / self.clf_ on every path (speed-up, prefitted fallback, plain) calls the method of the "
                "same name as the enclosing method", floor=9)
    report.rule("R19.2", "co-assignment groups {idx_, y_, sample_weight_} and {base_idx_, base_y_, "
                "base_sample_weight_}: on every path of every method either all members are stored or none", floor=8)
    report.rule("R19.3", "stores into base_* and restores from base_* go through .copy()/_copy_sw/deepcopy/clone "
                "(base state never aliases current state)", floor=6)
    report.rule("R19.5", "when the current training triple is restored from the base model, every member comes from "
                "its own base_* counterpart (sibling agreement)", floor=3)
    report.rule("R19.6", "the wrapper's twin of the wrapped classifier (self.clf_) is a clone/deepcopy of it; if it is "
                "rebuilt through a constructor call from the wrapped classifier's parameters (two or more `p=self.clf.p`) "
                "EVERY constructor parameter is passed - the precomputed-kernel twin must not lose n_neighbors & co.",
                floor=1)
    report.rule("R19.7", "`if V is None: f(...) else: f(..., k=W)`: the variable tested is the value passed (whole "
                "package); testing another variable silently drops computed default weights", floor=2)
    report.rule("R19.8", "under enforce_unique_samples the selector of the retained training entries depends on the "
                "VALUES of the current indices and of the added ones (not merely on len(idx_): positions are not "
                "sample indices)", floor=1)
    check_reconstruction(p, report)
    check_none_guard(p, report)
    check_unique_selector(p, report)
    report.rule("R19.9", "training indices travel with their labels and weights: every check_indices on the indices of "
                "fit / partial_fit passes unique=self.enforce_unique_samples (the default would sort and de-duplicate "
                "them while y and sample_weight keep the caller's order); stores into the base_* state happen only "
                "under a set_base_clf test", floor=4)
    icw9 = p.get_class("IndexClassifierWrapper")
    for mn in ("fit", "partial_fit"):
        m9 = icw9.methods.get(mn)
        if m9 is None:
            raise AnalysisError(f"IndexClassifierWrapper.{mn} vanished")
        t9 = FuncTree(m9.node)
        for c in ast.walk(m9.node):
            if isinstance(c, ast.Call) and c01.callname(c) == "check_indices":
                uq = next((k.value for k in c.keywords if k.arg == "unique"), None)
                ok = uq is not None and ast.unparse(uq) == "self.enforce_unique_samples"
                report.add("R19.9", m9.qual, f"{site_id(c, 60)} keeps the caller's order unless uniqueness is enforced",
                           f"{m9.file}:{c.lineno}", ok, detail="unique=self.enforce_unique_samples" if ok else
                           "the default unique=True sorts and de-duplicates the indices: labels and weights no longer "
                           "belong to the samples they were given for")
        for st in ast.walk(m9.node):
            if isinstance(st, ast.Assign) and any(isinstance(t, ast.Attribute) and isinstance(t.value, ast.Name)
                                                  and t.value.id == "self" and t.attr.startswith("base_") for t in st.targets):
                guarded9 = any(isinstance(owner, ast.If) and field == "body" and "set_base_clf" in ast.unparse(owner.test)
                               for (s_, owner, field, idx) in t9.ancestors(st))
                report.add("R19.9", m9.qual, f"`{norm_stmt(st, 60)}` only on request", f"{m9.file}:{st.lineno}", guarded9,
                           detail="under a set_base_clf test" if guarded9 else
                           "the stored base state is overwritten by every (re)fit: a later restart from the base model "
                           "contains samples that were only tried hypothetically")
    report.rule("R19.4", "the three predict* siblings are structurally identical up to the delegated method name "
                "(same NaN guard on the kernel block before the precomputed clone is used); the precomputed kernel "
                "comes from the wrapped classifier's metric / metric_dict", floor=4)
    ci = p.get_class("IndexClassifierWrapper")
    # normal form of the three siblings: a shared private implementation (`return self._impl("predict", idx)`)
    # is beta-reduced and `getattr(x, "predict")` folded back to `x.predict`
    from ..astutil import expand_delegation, fold_const_getattr
    from ..index import FuncInfo
    pm = {}
    for m in ("predict", "predict_proba", "predict_freq"):
        f0 = ci.methods.get(m)
        if f0 is None:
            raise AnalysisError(f"IndexClassifierWrapper.{m} vanished")
        nf = FuncInfo(f0.name, fold_const_getattr(expand_delegation(p, f0)), f0.module, cls=f0.cls, parent=f0.parent)
        nf.qual = f0.qual
        pm[m] = nf
    # ---- R19.1
    for m in ("predict", "predict_proba", "predict_freq"):
        f = pm[m]
        calls = deleg_calls(f.node)
        if len(calls) < 3:
            raise AnalysisError(f"IndexClassifierWrapper.{m}: expected 3 delegated returns, found {len(calls)}")
        for c in calls:
            ok = c.func.attr == m
            report.add("R19.1", f.qual, f"delegation `{norm_stmt(c, 60)}`", f"{f.file}:{c.lineno}", ok,
                       detail="same-name delegation" if ok else
                       f"{m} delegates to {c.func.attr}: the result is not what {m} documents")
    # ---- R19.2
    all_attrs = [a for g in GROUPS for a in g]
    for mname, f in sorted(ci.methods.items()):
        if mname.startswith("__") and mname != "__init__":
            continue
        stores = {t.attr for n in ast.walk(f.node) if isinstance(n, ast.Assign) for t in n.targets
                  if isinstance(t, ast.Attribute) and isinstance(t.value, ast.Name) and t.value.id == "self"}
        if not (stores & set(all_attrs)):
            continue
        must = AttrStores(f.node).run()
        may = AttrStoresMay(f.node, all_attrs).run()
        for g in GROUPS:
            if not (stores & set(g)):
                continue
            bad = None
            for (r1, sts1), (r2, sts2) in zip(must.returns, may.returns):
                for s1 in sts1:
                    have = {a for a in g if "a:" + a in s1.tokens}
                    # may-stored = not definitely-unstored on a path with the same facts
                    for s2 in sts2:
                        if s2.key() != s1.key():
                            continue
                        maybe = {a for a in g if "n:" + a not in s2.tokens}
                        if maybe and maybe != have:
                            bad = (have, maybe, s1.facts)
                        elif have and have != set(g):
                            bad = (have, maybe, s1.facts)
            report.add("R19.2", f.qual, "group {" + ", ".join(g) + "} stored together", f"{f.file}:{f.node.lineno}",
                       bad is None, detail="all-or-none on every path" if bad is None else
                       f"on the path where {describe(bad[2]) or 'always'}: certainly stored {sorted(bad[0])}, possibly stored {sorted(bad[1])}")
    # ---- R19.3
    for mname, f in sorted(ci.methods.items()):
        for n in ast.walk(f.node):
            if not isinstance(n, ast.Assign):
                continue
            tgt_base = [t.attr for t in n.targets if isinstance(t, ast.Attribute) and isinstance(t.value, ast.Name)
                        and t.value.id == "self" and t.attr.startswith("base_")]
            reads_base = [x.attr for x in ast.walk(n.value) if isinstance(x, ast.Attribute) and isinstance(x.value, ast.Name)
                          and x.value.id == "self" and x.attr.startswith("base_")]
            if not tgt_base and not reads_base:
                continue
            v = n.value
            okc = isinstance(v, ast.Call) and c01.callname(v) in COPIERS
            report.add("R19.3", f.qual, f"`{norm_stmt(n, 80)}`", f"{f.file}:{n.lineno}", okc,
                       detail="copied" if okc else "base state and current state share one object: a later in-place "
                       "change of one leaks into the other")
    # ---- R19.5 a restore from the base model takes every member from its own base counterpart
    for mname, f in sorted(ci.methods.items()):
        for blk_owner in ast.walk(f.node):
            if not isinstance(blk_owner, ast.If):
                continue
            assigns = [n for n in blk_owner.body if isinstance(n, ast.Assign) and isinstance(n.targets[0], ast.Attribute)
                       and isinstance(n.targets[0].value, ast.Name) and n.targets[0].value.id == "self"
                       and n.targets[0].attr in GROUPS[0]]
            from_base = [n for n in assigns if ("self.base_" + n.targets[0].attr) in ast.unparse(n.value)]
            if not from_base:
                continue
            for n in assigns:
                a = n.targets[0].attr
                ok = ("self.base_" + a) in ast.unparse(n.value)
                report.add("R19.5", f.qual, f"restore `{norm_stmt(n, 70)}`", f"{f.file}:{n.lineno}", ok,
                           detail=f"from self.base_{a}" if ok else
                           f"self.{a} is not restored from self.base_{a} although its siblings are restored from the base state")
    # ---- R19.4
    bodies = {m: norm_sibling(pm[m].node) for m in ("predict", "predict_proba", "predict_freq")}
    same = bodies["predict"] == bodies["predict_proba"] == bodies["predict_freq"]
    report.add("R19.4", "IndexClassifierWrapper.predict*", "siblings identical up to the delegated method name",
               f"{ci.file}:{ci.node.lineno}", same,
               detail="identical" if same else "the three predict* methods differ in more than the delegated method")
    for m in ("predict", "predict_proba", "predict_freq"):
        f = pm[m]
        tree = FuncTree(f.node)
        guard = [n for n in ast.walk(f.node) if isinstance(n, ast.If) and "isnan" in ast.unparse(n.test)
                 and ".all()" not in ast.unparse(n.test) and "np.all(" not in ast.unparse(n.test)
                 and any(isinstance(s, ast.Raise) for s in n.body)]
        def _self_helper_call(e):
            return isinstance(e, ast.Call) and isinstance(e.func, ast.Attribute) and isinstance(e.func.value, ast.Name) \
                and e.func.value.id == "self" and ci.methods.get(e.func.attr) is not None

        def _helper_guards_block(hm):
            ht = FuncTree(hm.node)
            hg = [n for n in ast.walk(hm.node) if isinstance(n, ast.If) and "isnan" in ast.unparse(n.test)
                  and ".all()" not in ast.unparse(n.test) and "np.all(" not in ast.unparse(n.test)
                  and any(isinstance(s_, ast.Raise) for s_ in n.body)]
            rets = [n for n in ast.walk(hm.node) if isinstance(n, ast.Return) and isinstance(n.value, ast.Name)]
            return bool(hg and rets and all(dominates(ht, hg[0], r_) and r_.value.id in names_in(hg[0].test) for r_ in rets))

        pre = [c for c in deleg_calls(f.node) if c.args and (isinstance(c.args[0], ast.Name) or _self_helper_call(c.args[0]))]
        def guarded(c):
            if _self_helper_call(c.args[0]):
                # the block is produced (and checked) by a private helper whose value is passed on directly
                return _helper_guards_block(ci.methods[c.args[0].func.attr])
            blk = c.args[0].id
            if guard and dominates(tree, guard[0], tree.stmt_of(c)) and blk in names_in(guard[0].test):
                return True
            # the block comes from a private helper that raises on NaN before returning it
            for d in ast.walk(f.node):
                if isinstance(d, ast.Assign) and any(isinstance(t, ast.Name) and t.id == blk for t in d.targets) \
                        and isinstance(d.value, ast.Call) and isinstance(d.value.func, ast.Attribute) \
                        and isinstance(d.value.func.value, ast.Name) and d.value.func.value.id == "self":
                    hm = ci.methods.get(d.value.func.attr)
                    if hm is None:
                        continue
                    ht = FuncTree(hm.node)
                    hg = [n for n in ast.walk(hm.node) if isinstance(n, ast.If) and "isnan" in ast.unparse(n.test)
                          and ".all()" not in ast.unparse(n.test) and "np.all(" not in ast.unparse(n.test)
                          and any(isinstance(s_, ast.Raise) for s_ in n.body)]
                    rets = [n for n in ast.walk(hm.node) if isinstance(n, ast.Return) and isinstance(n.value, ast.Name)]
                    if hg and rets and all(dominates(ht, hg[0], r_) and r_.value.id in names_in(hg[0].test) for r_ in rets):
                        return True
            # ... or is handed to a checking helper (statement `self._check(P)`) that raises on NaN
            for d in ast.walk(f.node):
                if isinstance(d, ast.Expr) and isinstance(d.value, ast.Call) and isinstance(d.value.func, ast.Attribute) \
                        and isinstance(d.value.func.value, ast.Name) and d.value.func.value.id == "self" \
                        and any(isinstance(a, ast.Name) and a.id == blk for a in d.value.args) \
                        and dominates(tree, d, tree.stmt_of(c)):
                    hm = ci.methods.get(d.value.func.attr)
                    if hm is None:
                        continue
                    hparams = [a for a in hm.params() if a != "self"]
                    pos = [i for i, a in enumerate(d.value.args) if isinstance(a, ast.Name) and a.id == blk][0]
                    if pos >= len(hparams):
                        continue
                    hg = [n for n in ast.walk(hm.node) if isinstance(n, ast.If) and "isnan" in ast.unparse(n.test)
                          and ".all()" not in ast.unparse(n.test) and "np.all(" not in ast.unparse(n.test)
                          and hparams[pos] in names_in(n.test) and any(isinstance(s_, ast.Raise) for s_ in n.body)]
                    if hg:
                        return True
            return False
        ok = bool(pre) and all(guarded(c) for c in pre)
        report.add("R19.4", f.qual, "NaN guard on the kernel block dominates the precomputed prediction",
                   f"{f.file}:{f.node.lineno}", ok)
    init = ci.methods["__init__"]
    prov = {}
    for n in ast.walk(init.node):
        if isinstance(n, ast.Assign):
            for t in n.targets:
                if isinstance(t, ast.Attribute) and t.attr in ("pwc_metric_", "pwc_metric_dict_"):
                    prov[t.attr] = ast.unparse(n.value)
    okp = "self.clf.metric" in prov.get("pwc_metric_", "") and "self.clf.metric_dict" in prov.get("pwc_metric_dict_", "")
    pc = ci.methods["precompute"]
    usek = any(isinstance(n, ast.Call) and c01.callname(n) == "pairwise_kernels" and "self.pwc_metric_" in ast.unparse(n)
               and "**self.pwc_metric_dict_" in ast.unparse(n) for n in ast.walk(pc.node))
    report.add("R19.4", "IndexClassifierWrapper.precompute", "kernel from the wrapped classifier's metric and metric_dict",
               f"{pc.file}:{pc.node.lineno}", okp and usek, detail=str(prov))
    for mname, f in sorted(ci.methods.items()):
        da = DefiniteAssignment(_it(f.node)).run()
        report.add("R19.2", f.qual, "all locals bound before use", f"{f.file}:{f.node.lineno}", not da.reports,
                   detail="; ".join(da.reports), nontrivial=False)
    # ---- R19.11 the emulated refit is fed the whole stored training multiset
    report.rule("R19.11", "the refit that emulates partial_fit receives all members of the stored training group "
                "(indices, labels AND weights): a call self.fit(self.idx_, ...) inside partial_fit forwards self.y_ and "
                "self.sample_weight_ as well", floor=1)
    pf = ci.methods.get("partial_fit")
    if pf is None:
        raise AnalysisError("IndexClassifierWrapper.partial_fit vanished")
    nref = 0
    for c in ast.walk(pf.node):
        if isinstance(c, ast.Call) and isinstance(c.func, ast.Attribute) and c.func.attr == "fit" \
                and isinstance(c.func.value, ast.Name) and c.func.value.id == "self":
            txt = [ast.unparse(a) for a in c.args] + [ast.unparse(k.value) for k in c.keywords if k.arg]
            if not any(t == "self.idx_" for t in txt):
                continue
            nref += 1
            miss = [m for m in ("self.y_", "self.sample_weight_") if m not in txt]
            report.add("R19.11", pf.qual, f"refit `{norm_stmt(c, 60)}` forwards the stored labels and weights", f"{pf.file}:{c.lineno}",
                       not miss, detail="all members forwarded" if not miss else
                       f"{', '.join(miss)} not forwarded: the refit falls back to the constructor's values, the model is "
                       f"not the one trained on the stored (sample, label, weight) triples")
    if nref == 0:
        raise AnalysisError("IndexClassifierWrapper.partial_fit: emulated refit self.fit(self.idx_, ...) vanished")
    # ---- R19.12 weights reach the model
    report.rule("R19.12", "the weight part of the training triples is not lost on its way: every fit / partial_fit of a "
                "classifier class that accepts `sample_weight` reads it (hands it on), and the shared vote counter copies "
                "the weights before it zeroes entries (a weight vector the caller re-uses after revealing labels must not "
                "have been zeroed at the formerly unlabeled samples)", floor=8)
    for ci_ in sorted((c for c in p.classes.values() if "/tests/" not in c.file and c.file.startswith("skactiveml/classifier/")),
                      key=lambda c: c.name):
        for mn in ("fit", "partial_fit"):
            fm = ci_.methods.get(mn)
            if fm is None or c13_is_abstract(fm) or "sample_weight" not in fm.all_param_names():
                continue
            used = any(isinstance(x, ast.Name) and x.id == "sample_weight" and isinstance(x.ctx, ast.Load)
                       for b in fm.node.body for x in ast.walk(b))
            report.add("R19.12", fm.qual, "`sample_weight` is handed on", f"{fm.file}:{fm.node.lineno}", used,
                       detail="read in the body" if used else
                       "the method accepts sample_weight and never reads it: the batch is stored / fitted without its weights")
        # fit and partial_fit hand the same data to the helpers they share
        ffit, fpf = ci_.methods.get("fit"), ci_.methods.get("partial_fit")
        if ffit is not None and fpf is not None:
            def helper_calls(fn):
                out = {}
                for c in ast.walk(fn.node):
                    if isinstance(c, ast.Call) and isinstance(c.func, ast.Attribute) and isinstance(c.func.value, ast.Name) \
                            and c.func.value.id == "self" and c.func.attr.startswith("_"):
                        names = {a.id for a in c.args if isinstance(a, ast.Name)} | {k.value.id for k in c.keywords
                                                                                       if k.arg and isinstance(k.value, ast.Name)}
                        out.setdefault(c.func.attr, []).append((c, names))
                return out
            hf, hp = helper_calls(ffit), helper_calls(fpf)
            for hn in sorted(set(hf) & set(hp)):
                need = set.union(*[nm for _, nm in hf[hn]]) & set(fpf.all_param_names())
                for c, names in hp[hn]:
                    miss = need - names
                    report.add("R19.12", fpf.qual, f"`{norm_stmt(c, 50)}` gets what fit hands to the same helper", f"{fpf.file}:{c.lineno}",
                               not miss, detail="same data" if not miss else
                               f"fit passes {sorted(need)} to {hn}, partial_fit leaves out {sorted(miss)}: the helper's default applies "
                               f"(weights of the whole window are dropped)")
    cvv = p.get_func("skactiveml.utils._aggregation", "compute_vote_vectors")
    if cvv is None:
        raise AnalysisError("compute_vote_vectors vanished")
    wpar = [a for a in cvv.params() if a == "w"]
    for c in ast.walk(cvv.node):
        if isinstance(c, ast.Call) and c01.callname(c) == "check_array" and c.args and isinstance(c.args[0], ast.Name) \
                and wpar and c.args[0].id == wpar[0]:
            cp = next((k.value for k in c.keywords if k.arg == "copy"), None)
            okc = isinstance(cp, ast.Constant) and cp.value is True
            report.add("R19.12", cvv.qual, f"`{site_id(c, 50)}` works on a private copy of the weights", f"{cvv.file}:{c.lineno}", okc,
                       detail="copy=True" if okc else
                       "check_array returns the caller's float array itself: the in-place zeroing at unlabeled entries destroys "
                       "the weights the caller (and IndexClassifierWrapper.sample_weight_) still holds")
    # ---- R19.10 premise shared with C13: the classifier behind the wrapper refits history-free
    report.rule("R19.10", "an emulated partial_fit equals a fresh fit only if the wrapped classifier's fit is a function "
                "of its arguments: for the classifier classes of the package, fit writes no constructor parameter "
                "(R13.1), reads no fitted attribute it has not stored in the same call (R13.2) and stores an attribute "
                "on every path if on any (R13.5); shared with C13", floor=20)
    from ..absint import Interp
    from . import c05, c13_fit
    clfs = [ci for ci in p.classes.values() if "/tests/" not in ci.file and ci.file.startswith("skactiveml/classifier/")
            and p.is_subclass(ci, "SkactivemlClassifier")]
    for ci in sorted(clfs, key=lambda c: c.name):
        for mn in ("fit", "partial_fit"):
            f = p.find_method(ci, mn)
            if f is None or c13_is_abstract(f):
                continue
            it = Interp(p)
            it.run_entity(ci, f, rounds=2)
            c05.check_entity(p, report, ci, f, it, r_param="R19.10", r_arr=None, r_est=None)
    ents = [(ci, f) for (ci, f) in c13_fit.fit_entities(p) if ci in clfs]
    c13_fit.check_fit_recomputes(p, report, ents, "R19.10")
    c13_fit.check_store_on_every_path(p, report, ents, rule="R19.10")
    # ---------------- round 6
    report.rule("R19.13", "the emulated partial_fit grows the stored training triple by a dtype-PROMOTING concatenation "
                "(np.concatenate / append / hstack / r_), directly or in a helper whose every return is one: a buffer "
                "pre-allocated with the dtype of the OLD array (`empty_like(old)`) truncates added fractional weights / "
                "longer string labels when they are stored into it, and the retrained reference sees other data", floor=3)
    check_promoting_growth(p, report)
    report.rule("R19.16", "predictions are returned for the indices AS REQUESTED (order and repeats): nothing on the prediction "
                "paths of the index wrapper (predict / predict_proba / predict_freq and the helpers they call on self) "
                "canonicalises `idx` - check_indices with its default unique=True sorts and de-duplicates, so the speed-up path "
                "would answer for other rows than the plain path", floor=3)
    icw16 = p.get_class("IndexClassifierWrapper")
    for mn16 in ("predict", "predict_proba", "predict_freq"):
        f16 = icw16.methods.get(mn16) if icw16 else None
        if f16 is None:
            raise AnalysisError(f"IndexClassifierWrapper.{mn16} vanished")
        todo, seen16, bad16 = [f16], set(), None
        while todo:
            g = todo.pop()
            if g.qual in seen16:
                continue
            seen16.add(g.qual)
            for c in ast.walk(g.node):
                if not isinstance(c, ast.Call):
                    continue
                cn = (c01.callname(c) or "").split(".")[-1]
                if cn in ("check_indices",):
                    uq = next((k.value for k in c.keywords if k.arg == "unique"), None)
                    if uq is None or (isinstance(uq, ast.Constant) and uq.value is True):
                        bad16 = bad16 or (g, c)
                if cn in ("unique", "sort", "sorted") and c.args and isinstance(c.args[0], ast.Name) \
                        and c.args[0].id in [a for a in g.params() if a != "self"][:1]:
                    bad16 = bad16 or (g, c)
                if isinstance(c.func, ast.Attribute) and isinstance(c.func.value, ast.Name) and c.func.value.id == "self":
                    h = icw16.methods.get(c.func.attr)
                    if h is not None and h.name not in ("fit", "partial_fit", "precompute"):
                        todo.append(h)
        report.add("R19.16", f16.qual, "the requested indices are used in the caller's order, with repeats",
                   f"{f16.file}:{(bad16[1] if bad16 else f16.node).lineno}", bad16 is None,
                   detail=f"{len(seen16)} method(s) on the prediction path inspected" if bad16 is None else
                   f"`{ast.unparse(bad16[1])[:60]}` in {bad16[0].qual} sorts / de-duplicates the requested indices: the rows returned "
                   f"no longer correspond to the positions the caller asked for")
    report.rule("R19.17", "every call of partial_fit takes effect: on every path to a return of IndexClassifierWrapper.partial_fit "
                "the wrapped model was updated (clf_.partial_fit / self.fit / clf_.fit) - an early return for 'uninformative' "
                "batches leaves out samples the retrained reference contains (an all-missing batch still replaces the labels of "
                "known samples under enforce_unique_samples and still counts as neighbours / window entries)", floor=1)
    pf17 = icw16.methods.get("partial_fit")
    if pf17 is None:
        raise AnalysisError("IndexClassifierWrapper.partial_fit vanished")

    class _Upd(MustAnalysis):
        def gen(self, stmt):
            for c in ast.walk(stmt) if not isinstance(stmt, (ast.If, ast.For, ast.While, ast.Try, ast.With)) else []:
                if isinstance(c, ast.Call) and isinstance(c.func, ast.Attribute) and c.func.attr in ("partial_fit", "fit") \
                        and "self" in ast.unparse(c.func.value):
                    return ("updated",)
            return ()
    u17 = _Upd(pf17.node).run()
    bad17 = [(rn, st) for (rn, states) in u17.returns if rn is not None for st in states if "updated" not in st.tokens]
    report.add("R19.17", pf17.qual, "the model is updated on every path to a return", f"{pf17.file}:{(bad17[0][0] if bad17 else pf17.node).lineno}",
               not bad17, detail=f"{len(u17.returns)} return(s)" if not bad17 else
               f"`{norm_stmt(bad17[0][0], 40)}` is reached without any update of the wrapped model on the path where "
               f"{describe(bad17[0][1].facts) or 'always'}: the samples of this call are missing from the model that the "
               f"retrained reference classifier would contain")
    report.rule("R19.15", "the stored training triple (idx_, y_, sample_weight_ and their base_* twins) is only ever replaced "
                "as a whole, never written element-wise: fit keeps the arrays it is given without copying them, so a "
                "subscript store would relabel the caller's own label / weight arrays (and the constructor's) in place", floor=2)
    check_triple_whole_stores(p, report)
    report.rule("R19.14", "the precomputed-kernel path and the plain path of ParzenWindowClassifier.predict_freq differ only "
                "in how the kernel block K is obtained: no other local that is live after the split is (re)bound in one arm "
                "only (the wrapper's speed-up replaces exactly K; an arm that also filters the training samples changes the "
                "neighbourhood on one path only)", floor=1)
    check_kernel_arms_agree(p, report)
    report.assumptions += ["equality with a retrained reference classifier is not decided"]


def check_reconstruction(p, report, rule="R19.6"):
    n = 0
    icw = p.get_class("IndexClassifierWrapper")
    for f in icw.methods.values():
        for c in ast.walk(f.node):
            if not (isinstance(c, ast.Call) and isinstance(c.func, (ast.Name, ast.Attribute))):
                continue
            r = p.resolve_expr(f.module, c.func)
            if r is None or r[0] != "class":
                continue
            bases = {}
            for k in c.keywords:
                if k.arg and isinstance(k.value, ast.Attribute) and k.value.attr == k.arg:
                    bases.setdefault(ast.unparse(k.value.value), []).append(k.arg)
            src = [(b, ks) for b, ks in bases.items() if b != "self" and len(ks) >= 2]
            if not src:
                continue
            ci = r[1]
            params = list(p.ctor_params(ci))
            init = p.find_method(ci, "__init__")
            pos = [a.arg for a in init.node.args.args][1:] if init else []
            passed = {k.arg for k in c.keywords if k.arg} | set(pos[:len(c.args)])
            star = any(k.arg is None for k in c.keywords)
            missing = [q for q in params if q not in passed]
            n += 1
            report.add(rule, f.qual, f"{ci.name} rebuilt from `{src[0][0]}`: {site_id(c, 50)}", f"{f.file}:{c.lineno}",
                       star or not missing, detail="every constructor parameter is passed" if (star or not missing) else
                       f"parameters {missing} of `{src[0][0]}` are not carried over: the rebuilt object falls back to their "
                       "defaults and predicts differently whenever they were set")
    # the wrapper's own twin of the wrapped classifier is a clone
    ci = p.get_class("IndexClassifierWrapper")
    init = ci.methods.get("__init__")
    for st in ast.walk(init.node):
        if isinstance(st, ast.Assign) and any(isinstance(t, ast.Attribute) and t.attr == "clf_" for t in st.targets) \
                and isinstance(st.value, ast.Call):
            fn = c01.callname(st.value)
            if fn in ("clone", "deepcopy", "copy"):
                n += 1
                report.add(rule, "IndexClassifierWrapper.__init__", f"`{norm_stmt(st, 60)}` copies the wrapped classifier",
                           f"{init.file}:{st.lineno}", True, detail="all parameters carried by clone/deepcopy")
    return n


def check_none_guard(p, report, rule="R19.7"):
    n = 0
    for f in p.all_functions():
        if "/tests/" in f.file:
            continue
        for st in ast.walk(f.node):
            if not (isinstance(st, ast.If) and isinstance(st.test, ast.Compare) and len(st.test.ops) == 1
                    and isinstance(st.test.ops[0], (ast.Is, ast.IsNot)) and isinstance(st.test.comparators[0], ast.Constant)
                    and st.test.comparators[0].value is None and len(st.body) == 1 and len(st.orelse) == 1):
                continue

            def call_of(x):
                v = x.value if isinstance(x, (ast.Expr, ast.Assign, ast.Return)) else None
                return v if isinstance(v, ast.Call) else None
            a, b = call_of(st.body[0]), call_of(st.orelse[0])
            if a is None or b is None or ast.unparse(a.func) != ast.unparse(b.func):
                continue
            without, with_ = (a, b) if isinstance(st.test.ops[0], ast.Is) else (b, a)
            kw_without = {k.arg for k in without.keywords}
            extra = [k for k in with_.keywords if k.arg not in kw_without]
            if not extra:
                continue
            tested = ast.unparse(st.test.left)
            fedges = dep_edges(f.node.body)

            def derives(v):
                direct = {ast.unparse(x) for x in ast.walk(v) if isinstance(x, (ast.Name, ast.Attribute))}
                if tested in direct:
                    return True
                # a name whose only definition is a row selection of the tested variable (w = tested[mask]) is
                # None exactly when the tested variable is; any other derivation may replace None by a default
                if isinstance(v, ast.Name):
                    ds = [d for d in ast.walk(f.node) if isinstance(d, ast.Assign) and len(d.targets) == 1
                          and isinstance(d.targets[0], ast.Name) and d.targets[0].id == v.id]
                    if len(ds) == 1 and isinstance(ds[0].value, ast.Subscript) and ast.unparse(ds[0].value.value) == tested:
                        return True
                return False
            ok = all(derives(k.value) for k in extra)
            n += 1
            report.add(rule, f.qual, f"`if {norm_stmt(st.test, 40)}` guards the optional argument of {site_id(with_, 40)}",
                       f"{f.file}:{st.lineno}", ok, detail="the tested variable is the one passed" if ok else
                       f"the test reads `{tested}` but the call passes `{ast.unparse(extra[0].value)}`: a value computed "
                       "for the optional argument is dropped whenever the other variable is None")
    return n


def check_unique_selector(p, report, rule="R19.8"):
    from .c02 import _value_names
    ci = p.get_class("IndexClassifierWrapper")
    n = 0
    for m in ci.methods.values():
        for st in ast.walk(m.node):
            if not (isinstance(st, ast.If) and "enforce_unique_samples" in ast.unparse(st.test)):
                continue
            for a in st.body:
                if isinstance(a, ast.Assign) and len(a.targets) == 1 and isinstance(a.targets[0], ast.Name):
                    vals = set()
                    for x in ast.walk(a.value):
                        pass
                    txt_names = _value_names(a.value)
                    attrs = {ast.unparse(x) for x in ast.walk(a.value) if isinstance(x, ast.Attribute)
                             and isinstance(x.value, ast.Name) and x.value.id == "self"}
                    # value uses of self.idx_: occurrences not under len()/shape
                    val_idx = False
                    parents = {}
                    for x in ast.walk(a.value):
                        for ch in ast.iter_child_nodes(x):
                            parents[ch] = x
                    for x in ast.walk(a.value):
                        if isinstance(x, ast.Attribute) and ast.unparse(x) == "self.idx_":
                            par = parents.get(x)
                            if isinstance(par, ast.Call) and c01.callname(par) in ("len",):
                                continue
                            if isinstance(par, ast.Attribute) and par.attr in ("shape", "size"):
                                continue
                            val_idx = True
                    # "the added ones": anything computed from the method's own parameters
                    pedges = dep_edges(m.node.body)
                    from ..deps import forward_closure
                    par = {a for a in m.params() if a != "self"}
                    derived = forward_closure(par, pedges) | par
                    uses_added = bool(txt_names & derived)
                    n += 1
                    report.add(rule, m.qual, f"unique-sample selector `{norm_stmt(a, 70)}`", f"{m.file}:{a.lineno}",
                               val_idx and uses_added,
                               detail="membership of the current index values in the added ones" if (val_idx and uses_added) else
                               "the selector is computed from positions (len(self.idx_)) instead of the index values: it "
                               "drops whatever entry sits at the position numbered like the new sample")
    return n


PROMOTING = {"concatenate", "append", "hstack", "vstack", "r_", "column_stack", "stack"}


def _promoting(p, ci, f, e, depth=0):
    if isinstance(e, ast.Constant) and e.value is None:
        return True
    if isinstance(e, ast.Subscript) and isinstance(e.value, ast.Attribute) and e.value.attr == "r_":
        return True
    if not isinstance(e, ast.Call):
        return False
    fn = (c01.callname(e) or "").split(".")[-1]
    if fn in PROMOTING:
        return True
    if depth < 2 and isinstance(e.func, ast.Attribute) and isinstance(e.func.value, ast.Name) \
            and e.func.value.id in ("self", ci.name, "cls"):
        h = p.find_method(ci, e.func.attr)
        if h is None:
            return False
        rets = [r for r in ast.walk(h.node) if isinstance(r, ast.Return) and r.value is not None]

        def ok_ret(v):
            if _promoting(p, ci, h, v, depth + 1):
                return True
            if isinstance(v, ast.Name):
                defs = [d for d in ast.walk(h.node) if isinstance(d, ast.Assign)
                        and any(isinstance(t, ast.Name) and t.id == v.id for t in d.targets)]
                stores = [d for d in ast.walk(h.node) if isinstance(d, (ast.Assign, ast.AugAssign))
                          and any(isinstance(t, ast.Subscript) and base_name(t) == v.id
                                  for t in (d.targets if isinstance(d, ast.Assign) else [d.target]))]
                return bool(defs) and not stores and all(_promoting(p, ci, h, d.value, depth + 1) for d in defs)
            return False
        return bool(rets) and all(ok_ret(r.value) for r in rets)
    return False


def check_promoting_growth(p, report):
    ci = p.get_class("IndexClassifierWrapper")
    f = ci.methods.get("partial_fit") if ci else None
    if f is None:
        raise AnalysisError("IndexClassifierWrapper.partial_fit vanished")
    triple = ("idx_", "y_", "sample_weight_")
    params = set(f.all_param_names()) - {"self"}
    # names derived from the added data
    added = set(params)
    for _ in range(3):
        for n in ast.walk(f.node):
            if isinstance(n, ast.Assign) and names_in(n.value) & added:
                for t in n.targets:
                    for x in (t.elts if isinstance(t, (ast.Tuple, ast.List)) else [t]):
                        if isinstance(x, ast.Name):
                            added.add(x.id)
    n_ = 0
    for st in ast.walk(f.node):
        if not (isinstance(st, ast.Assign) and len(st.targets) == 1 and isinstance(st.targets[0], ast.Attribute)
                and isinstance(st.targets[0].value, ast.Name) and st.targets[0].value.id == "self"
                and st.targets[0].attr in triple):
            continue
        a = st.targets[0].attr
        reads_old = any(isinstance(x, ast.Attribute) and isinstance(x.value, ast.Name) and x.value.id == "self" and x.attr == a
                        for x in ast.walk(st.value))
        if not (reads_old and names_in(st.value) & added):
            continue   # a restore / a plain store, not a growth
        n_ += 1
        ok = _promoting(p, ci, f, st.value)
        report.add("R19.13", f.qual, f"growth `{norm_stmt(st, 60)}` promotes the dtype", f"{f.file}:{st.lineno}", ok,
                   detail="np.concatenate (or a helper that returns one)" if ok else
                   f"`{ast.unparse(st.value)[:70]}` is not a concatenation: a result buffer with the dtype of the stored array "
                   f"casts the added entries (0.5 -> 0 for integer weights)")
    if n_ == 0:
        raise AnalysisError("no growth statement of the training triple found in IndexClassifierWrapper.partial_fit")


def check_kernel_arms_agree(p, report):
    ci = p.get_class("ParzenWindowClassifier")
    f = ci.methods.get("predict_freq") if ci else None
    if f is None:
        raise AnalysisError("ParzenWindowClassifier.predict_freq vanished")
    tree = FuncTree(f.node)
    splits = [n for n in ast.walk(f.node) if isinstance(n, ast.If) and "precomputed" in ast.unparse(n.test)
              and "metric" in ast.unparse(n.test)]
    if not splits:
        raise AnalysisError("precomputed / plain split of predict_freq not found")
    for sp in splits:
        def bound(stmts):
            out = set()
            for s_ in stmts:
                for n in ast.walk(s_):
                    if isinstance(n, ast.Name) and isinstance(n.ctx, ast.Store):
                        out.add(n.id)
                    if isinstance(n, (ast.Assign, ast.AugAssign)):
                        for t in (n.targets if isinstance(n, ast.Assign) else [n.target]):
                            if isinstance(t, ast.Attribute) and isinstance(t.value, ast.Name) and t.value.id == "self":
                                out.add("self." + t.attr)
            return out
        a, b = bound(sp.body), bound(sp.orelse)
        one_sided = (a ^ b)
        # live after the split: read in a statement that follows the split in an enclosing block
        later = set()
        blk = tree.block_of.get(sp)
        cur = sp
        while blk is not None:
            owner, field, idx = blk
            for s_ in getattr(owner, field)[idx + 1:]:
                later |= {n.id for n in ast.walk(s_) if isinstance(n, ast.Name) and isinstance(n.ctx, ast.Load)}
                later |= {"self." + n.attr for n in ast.walk(s_) if isinstance(n, ast.Attribute) and isinstance(n.ctx, ast.Load)
                          and isinstance(n.value, ast.Name) and n.value.id == "self"}
            cur = owner
            blk = tree.block_of.get(cur) if isinstance(cur, ast.stmt) else None
        # the kernel block itself: bound in both arms by construction; one-sided names that are dead afterwards are local
        bad = sorted(x for x in one_sided if x in later)
        report.add("R19.14", f.qual, f"arms of `{norm_stmt(sp, 50)}` agree on everything but the kernel block",
                   f"{f.file}:{sp.lineno}", not bad,
                   detail=f"bound in both arms: {sorted(a & b)}" if not bad else
                   f"`{bad[0]}` is (re)bound in one arm only and read afterwards: the frequency estimate is then computed from "
                   f"different training rows / votes depending on whether the kernel was precomputed - the speed-up of the index "
                   f"wrapper (which precomputes K) no longer predicts what the plain classifier predicts")


def check_triple_whole_stores(p, report):
    ci = p.get_class("IndexClassifierWrapper")
    if ci is None:
        raise AnalysisError("IndexClassifierWrapper vanished")
    triple = {"idx_", "y_", "sample_weight_", "base_idx_", "base_y_", "base_sample_weight_"}
    INPLACE = {"sort", "fill", "put", "resize", "itemset", "partition"}
    for mn, f in sorted(ci.methods.items()):
        # local aliases of the triple (`y = self.y_`)
        alias = {}
        for n in ast.walk(f.node):
            if isinstance(n, ast.Assign) and isinstance(n.value, ast.Attribute) and isinstance(n.value.value, ast.Name) \
                    and n.value.value.id == "self" and n.value.attr in triple:
                for t in n.targets:
                    if isinstance(t, ast.Name):
                        alias[t.id] = n.value.attr
        whole = 0
        bad = None
        for n in ast.walk(f.node):
            tgs = n.targets if isinstance(n, ast.Assign) else ([n.target] if isinstance(n, ast.AugAssign) else [])
            for t in tgs:
                if isinstance(t, ast.Attribute) and isinstance(t.value, ast.Name) and t.value.id == "self" and t.attr in triple:
                    if isinstance(n, ast.AugAssign):
                        bad = bad or (n, t.attr)
                    else:
                        whole += 1
                b = t
                sub = False
                while isinstance(b, ast.Subscript):
                    b = b.value
                    sub = True
                if sub and isinstance(b, ast.Attribute) and isinstance(b.value, ast.Name) and b.value.id == "self" and b.attr in triple:
                    bad = bad or (n, b.attr)
                if (sub or isinstance(n, ast.AugAssign)) and isinstance(b, ast.Name) and b.id in alias:
                    bad = bad or (n, alias[b.id])
            if isinstance(n, ast.Call) and isinstance(n.func, ast.Attribute) and n.func.attr in INPLACE:
                b = n.func.value
                if isinstance(b, ast.Attribute) and isinstance(b.value, ast.Name) and b.value.id == "self" and b.attr in triple:
                    bad = bad or (n, b.attr)
        if whole or bad:
            report.add("R19.15", f.qual, "training triple replaced as a whole only", f"{f.file}:{(bad[0] if bad else f.node).lineno}",
                       bad is None, detail=f"{whole} whole-attribute store(s)" if bad is None else
                       f"`{norm_stmt(bad[0], 60)}` writes into self.{bad[1]} element-wise: the array may be the very array the "
                       f"caller passed to fit / the constructor (stored without a copy), which is thereby relabelled")
