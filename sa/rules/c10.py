"""C10 - stream update commits exactly what query simulated."""
import ast
import copy

from ..absint import Interp
from ..astutil import FuncTree, dominates
from ..common import norm_stmt, site_id
from ..deps import names_in, base_name, index_names, dep_edges, closure
from ..effects import writes, stmt_in_frame
from ..index import ClassInfo, AnalysisError
from ..paths import MustAnalysis, describe
from .c03 import is_abstract
from . import c04

CHUNK_INVARIANT = {"FixedUncertaintyBudgetManager", "VariableUncertaintyBudgetManager", "SplitBudgetManager",
                   "RandomBudgetManager", "BalancedIncrementalQuantileFilter", "DensityBasedSplitBudgetManager"}


class CountAppends(MustAnalysis):
    """tokens: 'a1' = at least one append in this iteration, 'a2' = a second
    append may have happened."""

    def __init__(self, fnode, loop, lname):
        super().__init__(fnode)
        self.loop = loop
        self.lname = lname
        self.out = None

    def _is_append(self, stmt):
        return isinstance(stmt, ast.Expr) and isinstance(stmt.value, ast.Call) \
            and isinstance(stmt.value.func, ast.Attribute) and stmt.value.func.attr == "append" \
            and base_name(stmt.value.func.value) == self.lname

    def transfer(self, stmt, tokens):
        if self._is_append(stmt):
            if "a1" in tokens:
                return tokens | {"a2"}
            return tokens | {"a1"}
        return None

    def loop_iter_kill(self, loop):
        return ("a1", "a2") if loop is self.loop else ()

    def on_loop_body_exit(self, loop, states_in, states_out):
        if loop is self.loop:
            self.out = states_out


def norm_rhs(e, state_names):
    """Normalise an update expression: state variable -> $X; every maximal
    sub-expression that mentions neither the state variable nor a self
    attribute (i.e. the per-instance indicator, however it is spelled) -> $I;
    constants and self.<param> are kept."""
    def is_state(n):
        if isinstance(n, ast.Name) and n.id in state_names:
            return True
        if isinstance(n, ast.Attribute) and isinstance(n.value, ast.Name) and n.value.id == "self" \
                and "self." + n.attr in state_names:
            return True
        return False

    def anchored(n):
        for x in ast.walk(n):
            if is_state(x):
                return True
            if isinstance(x, ast.Attribute) and isinstance(x.value, ast.Name) and x.value.id == "self":
                return True
        return False

    def rec(n):
        if is_state(n):
            return "$X"
        if isinstance(n, ast.Constant):
            return repr(n.value)
        if not anchored(n):
            return "$I"
        if isinstance(n, ast.BinOp):
            return f"({rec(n.left)} {type(n.op).__name__} {rec(n.right)})"
        if isinstance(n, ast.UnaryOp):
            return f"({type(n.op).__name__} {rec(n.operand)})"
        if isinstance(n, ast.Attribute):
            return ast.unparse(n)
        if isinstance(n, ast.Call):
            return f"{ast.unparse(n.func)}({', '.join(rec(a) for a in n.args)})"
        if isinstance(n, ast.BoolOp):
            return "(" + f" {type(n.op).__name__} ".join(rec(v) for v in n.values) + ")"
        if isinstance(n, ast.Compare):
            return "(" + rec(n.left) + " " + " ".join(type(o).__name__ + " " + rec(c) for o, c in zip(n.ops, n.comparators)) + ")"
        return ast.unparse(n)
    return rec(e)


def polarity(tree, stmt, within):
    """'T'/'F' if stmt sits in the body/orelse of the innermost enclosing If
    (inside `within`) whose test is a plain indicator (name / not name),
    else '-'."""
    for (s, owner, field, idx) in tree.ancestors(stmt):
        if isinstance(owner, ast.If) and tree.contains(within, owner):
            t = owner.test
            neg = False
            if isinstance(t, ast.UnaryOp) and isinstance(t.op, ast.Not):
                t = t.operand
                neg = True
            if isinstance(t, ast.Name):
                if _is_budget_guard_name(tree.fnode, t.id):
                    continue   # a named budget guard (`budget_left = budget > est`) is context, not the indicator
                pol = field == "body"
                return "T" if pol != neg else "F"
            return "-"
    return "-"


def _is_budget_guard_name(fnode, name):
    defs = [n for n in ast.walk(fnode) if isinstance(n, ast.Assign)
            and any(isinstance(t, ast.Name) and t.id == name for t in n.targets)]
    return bool(defs) and all(isinstance(d.value, (ast.Compare, ast.BoolOp)) and "budget" in ast.unparse(d.value) for d in defs)


def _hoisted_defs(fnode):
    """Locals with exactly one binding in the function whose value is built
    from self attributes, constants and other such locals only (a hoisted
    loop-invariant such as `decay = (self.w - 1) / self.w`)."""
    stores = {}
    for n in ast.walk(fnode):
        if isinstance(n, ast.Name) and isinstance(n.ctx, ast.Store):
            stores[n.id] = stores.get(n.id, 0) + 1
    for a in fnode.args.args + fnode.args.kwonlyargs:
        stores[a.arg] = stores.get(a.arg, 0) + 1
    defs = {}
    for n in ast.walk(fnode):
        if isinstance(n, ast.Assign) and len(n.targets) == 1 and isinstance(n.targets[0], ast.Name) \
                and stores.get(n.targets[0].id) == 1:
            defs[n.targets[0].id] = n.value
    ok = {}
    changed = True
    while changed:
        changed = False
        for k, v in defs.items():
            if k in ok:
                continue
            good = True
            for x in ast.walk(v):
                if isinstance(x, ast.Name) and x.id not in ("self", "np") and x.id not in ok:
                    good = False
                if isinstance(x, ast.Call):
                    good = False
            if good:
                ok[k] = v
                changed = True
    return ok


class _Inline(ast.NodeTransformer):
    def __init__(self, defs):
        self.defs = defs

    def visit_Name(self, n):
        if isinstance(n.ctx, ast.Load) and n.id in self.defs:
            import copy as _c
            return self.visit(_c.deepcopy(self.defs[n.id]))
        return n


def inline_hoisted(fnode, e, keep=()):
    defs = {k: v for k, v in _hoisted_defs(fnode).items() if k not in keep}
    if not defs:
        return e
    import copy as _c
    return ast.fix_missing_locations(_Inline(defs).visit(_c.deepcopy(e)))


def update_ops(fnode, targets, within=None):
    """{(target, op, normalised rhs, polarity)} for updates of the given state
    variables (names or 'self.attr') inside `within` (default: whole fn)."""
    tree = FuncTree(fnode)
    region = within if within is not None else fnode
    out = set()
    for n in ast.walk(region):
        if isinstance(n, ast.AugAssign):
            b = _tname(n.target)
            if b in targets:
                v = n.value
                if isinstance(v, ast.IfExp) and isinstance(v.test, (ast.Name, ast.UnaryOp)):
                    # x op= A if ind else B   ==   if ind: x op= A  else: x op= B
                    neg = isinstance(v.test, ast.UnaryOp) and isinstance(v.test.op, ast.Not)
                    for part, pol in ((v.body, "F" if neg else "T"), (v.orelse, "T" if neg else "F")):
                        out.add((b, type(n.op).__name__ + "=", norm_rhs(inline_hoisted(fnode, part, targets), {b}), pol))
                    continue
                out.add((b, type(n.op).__name__ + "=", norm_rhs(inline_hoisted(fnode, n.value, targets), {b}),
                         polarity(tree, n, region)))
        elif isinstance(n, ast.Assign) and len(n.targets) == 1:
            b = _tname(n.targets[0])
            if b in targets and (b in names_in(n.value) or (b.startswith("self.") and b in names_in(n.value))):
                out.add((b, "=", norm_rhs(inline_hoisted(fnode, n.value, targets), {b}), polarity(tree, n, region)))
        elif isinstance(n, ast.Expr) and isinstance(n.value, ast.Call) and isinstance(n.value.func, ast.Attribute) \
                and n.value.func.attr in ("append", "extend"):
            b = _tname(n.value.func.value)
            if b in targets:
                # a history window is order-sensitive (FIFO eviction): the committed sequence has to be the
                # simulated one, not a re-ordering / de-duplication of it
                arg = n.value.args[0] if n.value.args else None
                out.add((b, "." + n.value.func.attr, "REORDERED" if arg is not None and _reorders(arg) else "", "-"))
    return out


REORDERING_CALLS = {"sort", "sorted", "unique", "flip", "flipud", "fliplr", "reversed", "shuffle", "permutation",
                    "set", "frozenset", "partition", "roll"}


def _reorders(e):
    for x in ast.walk(e):
        if isinstance(x, ast.Call):
            f = x.func
            nm = f.attr if isinstance(f, ast.Attribute) else (f.id if isinstance(f, ast.Name) else "")
            if nm in REORDERING_CALLS:
                return True
        if isinstance(x, ast.Slice) and x.step is not None and isinstance(x.step, ast.UnaryOp) \
                and isinstance(x.step.op, ast.USub):
            return True
    return False


def _tname(t):
    if isinstance(t, ast.Name):
        return t.id
    if isinstance(t, ast.Attribute) and isinstance(t.value, ast.Name) and t.value.id == "self":
        return "self." + t.attr
    return None


def update_chain(p, ci):
    """update methods executed for class ci: own + super().update parents."""
    out = []
    f = p.find_method(ci, "update")
    seen = set()
    while f is not None and id(f.node) not in seen and not is_abstract(f):
        seen.add(id(f.node))
        # normal form: extracted per-sample procedures (`_adapt(self, s)`) are inlined back
        from ..astutil import inline_statement_calls
        from ..index import FuncInfo
        nf = FuncInfo(f.name, inline_statement_calls(p, f), f.module, cls=f.cls, parent=f.parent)
        nf.qual = f.qual
        out.append(nf)
        calls_super = any(isinstance(n, ast.Call) and isinstance(n.func, ast.Attribute) and n.func.attr == "update"
                          and isinstance(n.func.value, ast.Call) and isinstance(n.func.value.func, ast.Name)
                          and n.func.value.func.id == "super" for n in ast.walk(f.node))
        if not calls_super:
            break
        f = p.find_method(ci, "update", after=f.cls)
    return out


# per-instance form -> equivalent bulk commits (presence only for counters)
BULK = {("Add=", "1"): {("Add=", "$I"), ("Add=", "1")},
        ("Add=", "$I"): {("Add=", "$I")},
        (".append", ""): {(".extend", ""), (".append", "")}}


def c01_proxy(report, mapping):
    from .c01 import Report_proxy
    return Report_proxy(report, mapping)


def run(p, report, tier):
    report.rule("R10.1", "a list that a strategy's update builds in a loop over the candidates and hands to "
                "budget_manager_.update together with the caller's queried_indices receives exactly one append on "
                "every path through the loop body (length-preserving hand-over)", floor=2)
    report.rule("R10.2", "in update of the managers for which chunking invariance is claimed, a budget guard evaluated "
                "inside the per-instance loop reads a spent-estimate that is redefined inside that loop (directly or "
                "through super().update)", floor=2)
    report.rule("R10.3", "for every state variable seeded in the simulation (tmp = self.x_), the set of update "
                "operators (normalised right-hand sides with their indicator polarity) applied to tmp in the "
                "simulation loop equals the set applied to self.x_ in update (bulk counter forms are equivalent)", floor=10)
    report.rule("R10.6", "inside the per-instance simulation loop the committed attributes that were copied into "
                "running locals are not read again, and a simulation copy made by a converting constructor "
                "(list(x), deque(x)) preserves the kind of container the attribute is created as", floor=8)
    report.rule("R10.7", "the indicator by which the simulated spent-estimate advances is the condition under which the "
                "label is granted in that iteration (same test / same recorded value, not rebound in between), so what "
                "the simulation accounts for is what update later commits", floor=6)
    report.analysed["accounting_sites"] = check_accounting_is_granting(p, report)
    report.rule("R10.8", "strategies that simulate by mutating their own state inside query's per-candidate loop: every "
                "such transition is applied inside update's per-candidate loop too (not in bulk afterwards)", floor=1)
    report.analysed["direct_simulation_transitions"] = check_direct_simulation(p, report)
    report.rule("R10.9", "the utilities a stream strategy returns are the ones its budget manager saw in "
                "query_by_utility (same variable without rebinding, or its elements)", floor=4)
    report.analysed["returned_utilities_sites"] = check_returned_utilities(p, report)
    report.rule("R10.4", "queried indices are built only by appending the enumerate counter at most once per "
                "iteration, by np.where(mask)[0], or are the budget manager's own result", floor=13)
    report.rule("R10.5", "if the simulation draws from self.random_state_ under get_state/set_state, update advances "
                "the same generator (a draw sized by / looped over the candidates)", floor=4)
    stream = p.exported_classes("skactiveml.stream")
    bms = [c for c in p.exported_classes("skactiveml.stream.budgetmanager")]
    # ---------------- R10.1
    n1 = 0
    for ci in stream:
        f = p.find_method(ci, "update")
        if f is None or is_abstract(f):
            continue
        ent = f"{ci.name}.update"
        for call in ast.walk(f.node):
            if not isinstance(call, ast.Call):
                continue
            cand = qi = None
            if isinstance(call.func, ast.Name) and call.func.id == "call_func" and call.args \
                    and isinstance(call.args[0], ast.Attribute) and call.args[0].attr == "update":
                for k in call.keywords:
                    if k.arg == "candidates":
                        cand = k.value
                    if k.arg == "queried_indices":
                        qi = k.value
            elif isinstance(call.func, ast.Attribute) and call.func.attr == "update" and \
                    "budget_manager_" in ast.unparse(call.func.value):
                if call.args:
                    cand = call.args[0]
                if len(call.args) > 1:
                    qi = call.args[1]
                for k in call.keywords:
                    if k.arg == "candidates":
                        cand = k.value
                    if k.arg == "queried_indices":
                        qi = k.value
            if cand is None:
                continue
            n1 += 1
            site = f"hand-over `{site_id(call, 70)}`"
            if isinstance(cand, ast.Name) and cand.id == "candidates":
                report.add("R10.1", ent, site, f"{f.file}:{call.lineno}", True,
                           detail="the caller's candidates are handed over unfiltered", nontrivial=False)
                continue
            if not isinstance(cand, ast.Name):
                report.add("R10.1", ent, site, f"{f.file}:{call.lineno}", False, detail="candidates argument is not a tracked list")
                continue
            raw_qi = isinstance(qi, ast.Name) and qi.id == "queried_indices"
            loops = [L for L in ast.walk(f.node) if isinstance(L, ast.For) and "candidates" in names_in(L.iter)
                     and any(isinstance(x, ast.Call) and isinstance(x.func, ast.Attribute) and x.func.attr == "append"
                             and base_name(x.func.value) == cand.id for x in ast.walk(L))]
            if not loops:
                report.add("R10.1", ent, site, f"{f.file}:{call.lineno}", False,
                           detail=f"`{cand.id}` is not built by appends in a loop over the candidates")
                continue
            for L in loops:
                ca = CountAppends(f.node, L, cand.id).run()
                bad = [s for s in (ca.out or []) if "a1" not in s.tokens or "a2" in s.tokens]
                ok = not bad or not raw_qi
                why = "exactly one append per candidate on every path"
                if bad and not raw_qi:
                    # the list is a filtered one: the indices handed over have to be re-numbered in the same loop:
                    # every `idx.append(E)` has E == len(<list>) and is followed, in the same block, by the
                    # list's own append (so the index is the position the candidate is about to take)
                    tr_ok = isinstance(qi, ast.Name)
                    n_tr = 0
                    if tr_ok:
                        for x in ast.walk(L):
                            if isinstance(x, ast.Call) and isinstance(x.func, ast.Attribute) and x.func.attr == "append" \
                                    and base_name(x.func.value) == qi.id:
                                n_tr += 1
                                arg = ast.unparse(x.args[0]).replace(" ", "") if x.args else ""
                                if arg != f"len({cand.id})":
                                    tr_ok = False
                                    continue
                                # position: an append to the list follows on the same path (dominated by this statement's
                                # enclosing branch) before the iteration ends
                                tr = FuncTree(f.node)
                                xs = tr.stmt_of(x)
                                follows = False
                                cur = xs
                                while cur is not None and cur is not L:
                                    blk = tr.block_of.get(cur)
                                    if blk is None:
                                        break
                                    owner_, field_, idx_ = blk
                                    for later in getattr(owner_, field_)[idx_ + 1:]:
                                        if any(isinstance(y, ast.Call) and isinstance(y.func, ast.Attribute) and y.func.attr == "append"
                                               and base_name(y.func.value) == cand.id for y in ast.walk(later)):
                                            follows = True
                                    if follows or owner_ is L:
                                        break
                                    cur = owner_
                                if not follows:
                                    tr_ok = False
                        tr_ok = tr_ok and n_tr > 0
                        # the re-numbered list is what is handed over, and it starts empty
                        tr_ok = tr_ok and any(isinstance(d, ast.Assign) and any(isinstance(t, ast.Name) and t.id == qi.id for t in d.targets)
                                              and isinstance(d.value, ast.List) and not d.value.elts for d in ast.walk(f.node))
                    ok = tr_ok
                    why = ("a filtered list; the indices handed over are re-numbered in the same loop (`" + qi.id +
                           ".append(len(" + cand.id + "))` before the list's own append)") if tr_ok else \
                        "a filtered list, and the indices handed over are not the positions in that list"
                if bad and raw_qi:
                    kind = "no append" if "a1" not in bad[0].tokens else "two appends"
                    why = (f"{kind} on the path where: {describe(bad[0].facts)} - the list is shorter/longer than the "
                           "candidates while queried_indices still index the unfiltered candidates")
                report.add("R10.1", ent, site + " list built in `" + norm_stmt(L, 50) + "`", f"{f.file}:{L.lineno}", ok,
                           detail=f"`{cand.id}`: " + why)
    # ---------------- R10.2
    for ci in bms:
        if ci.name not in CHUNK_INVARIANT:
            continue
        f = p.find_method(ci, "update")
        if f is None or is_abstract(f):
            continue
        ent = f"{ci.name}.update"
        it = Interp(p)
        it.run_entity(ci, f)
        found = False
        for L in [n for n in ast.walk(f.node) if isinstance(n, (ast.For, ast.While))]:
            for cmp_ in [n for n in ast.walk(L) if isinstance(n, ast.Compare)]:
                ns = names_in(cmp_)
                if c04.BUDGET_ATTR not in ns:
                    continue
                attrs = {x[5:] for x in ns if x.startswith("self.") and x.endswith("_") and x != c04.BUDGET_ATTR}
                if not attrs:
                    continue
                found = True
                for a in sorted(attrs):
                    # stored inside the loop (directly or through a callee)?
                    inside = False
                    for ev in it.events:
                        if ev.kind == "attr_store" and ev.data["attr"] == a and \
                                ("self", ()) in ev.data["base"].origins:
                            _, st0 = stmt_in_frame(ev, 0)
                            if st0 is not None and any(x is st0 for x in ast.walk(L)):
                                inside = True
                    report.add("R10.2", ent, f"guard `{norm_stmt(cmp_, 60)}` reads self.{a}", f"{f.file}:{cmp_.lineno}",
                               inside, detail="self." + a + " is redefined inside the per-instance loop" if inside else
                               f"self.{a} is loop-invariant here: instance k of a chunk is judged with the budget state "
                               "from before the chunk, unlike the simulation in query_by_utility")
        if not found:
            report.add("R10.2", ent, "no budget guard inside an update loop", f"{f.file}:{f.node.lineno}", True,
                       detail="update has no per-instance budget guard", nontrivial=False)
    # ---------------- R10.3
    pairs = [(ci, p.find_method(ci, "query_by_utility")) for ci in bms]
    pairs += [(p.get_class(c), p.get_method(c, "query")) for c in ("StreamRandomSampling", "PeriodicSampling")]
    check_transitions(p, report, pairs, "R10.3")
    # ---------------- R10.6 simulation works on its running copies
    from .c03 import creation_kinds, CONV_FUNCS
    for ci, q in pairs:
        if q is None or is_abstract(q):
            continue
        L = c04.instance_loop(q.node)
        if L is None:
            continue
        seeds = c04.seeds_of(q.node)
        copies = {}
        for n in ast.walk(q.node):
            if isinstance(n, ast.Assign) and len(n.targets) == 1 and isinstance(n.targets[0], ast.Name) \
                    and isinstance(n.value, ast.Call) and len(n.value.args) == 1 and \
                    isinstance(n.value.args[0], ast.Attribute) and isinstance(n.value.args[0].value, ast.Name) \
                    and n.value.args[0].value.id == "self" and n.value.args[0].attr.endswith("_"):
                copies[n.targets[0].id] = (n.value.args[0].attr, c04.callname_(n.value), n)
        ent = f"{ci.name}.{q.name}"
        seeded_attrs = set(seeds.values()) | {a for a, _, _ in copies.values()}
        stale = []
        for n in ast.walk(L):
            if isinstance(n, ast.Attribute) and isinstance(n.value, ast.Name) and n.value.id == "self" \
                    and n.attr in seeded_attrs and isinstance(n.ctx, ast.Load):
                stale.append(n)
        if seeded_attrs:
            report.add("R10.6", ent, "the per-instance loop reads the running copies, not the committed attributes",
                       f"{q.file}:{L.lineno}", not stale,
                       detail=f"running copies of {sorted(seeded_attrs)}" if not stale else
                       "; ".join(f"self.{n.attr} read at line {n.lineno} inside the loop although a running copy exists: "
                                 "instances granted earlier in the same chunk are not accounted" for n in stale[:3]))
        for tmp, (attr, fn, node) in sorted(copies.items()):
            if fn in CONV_FUNCS:
                ck = creation_kinds(p, ci, attr)
                ok = ck == {fn}
                report.add("R10.6", ent, f"simulation copy `{norm_stmt(node, 60)}` preserves the container", f"{q.file}:{node.lineno}",
                           ok, detail="same kind of container" if ok else
                           f"self.{attr} is created as {sorted(ck)} but the simulation works on {fn}(...): attributes such as "
                           "maxlen are lost, so a chunk is simulated on a different window than the one update commits to")
            else:
                report.add("R10.6", ent, f"simulation copy `{norm_stmt(node, 60)}` preserves the container", f"{q.file}:{node.lineno}",
                           True, detail=f"{fn} keeps type and attributes", nontrivial=False)
    # ---------------- R10.4
    ents = [(ci, p.find_method(ci, "query")) for ci in stream] + [(ci, p.find_method(ci, "query_by_utility")) for ci in bms]
    for ci, f in ents:
        if f is None or is_abstract(f):
            continue
        ent = f"{ci.name}.{f.name}"
        rets = []
        for n in ast.walk(f.node):
            if isinstance(n, ast.Return) and n.value is not None:
                v = n.value.elts[0] if isinstance(n.value, ast.Tuple) and n.value.elts else n.value
                rets.append((n, v))
        for n, v in rets:
            if not isinstance(v, ast.Name):
                report.add("R10.4", ent, f"returned indices `{norm_stmt(v, 50)}`", f"{f.file}:{n.lineno}", False,
                           detail="returned indices are not a tracked variable")
                continue
            ok, why = wellformed_indices(f.node, v.id)
            report.add("R10.4", ent, f"returned indices `{v.id}`", f"{f.file}:{n.lineno}", ok, detail=why)
    # ---------------- R10.5
    for ci, q in pairs:
        if q is None or is_abstract(q):
            continue
        it = Interp(p)
        it.run_entity(ci, q)
        qdraw = [ev for ev in it.events if ev.kind == "draw" and ("self", ("random_state_",)) in ev.data["gen"].origins]
        if not qdraw:
            continue
        u = p.find_method(ci, "update")
        it2 = Interp(p)
        it2.run_entity(ci, u)
        udraw = [ev for ev in it2.events if ev.kind == "draw" and ("self", ("random_state_",)) in ev.data["gen"].origins]
        sized = [ev for ev in udraw if any(isinstance(d, tuple) and d[0] == "p:candidates"
                                           for a in ev.data.get("args", []) for d in a.deps) or c04._in_param_loop(ev)]
        report.add("R10.5", f"{ci.name}.update", "update advances self.random_state_ like the simulated draws",
                   f"{u.file}:{u.node.lineno}", bool(sized),
                   detail=f"{len(qdraw)} simulated draw site(s); update: " + (norm_stmt(sized[0].node, 60) if sized else
                          "no draw sized by / looped over the candidates"))
    # ---------------- R10.10 (= C06 R6.5 restricted to update)
    report.rule("R10.10", "what update commits lives in the strategy's / manager's own objects: no store to, and no "
                "in-place mutation of, an object held by a constructor parameter (a budget manager handed to several "
                "strategies, or re-used for another chunking of the same stream, would carry state across runs); "
                "shared with C06 R6.5", floor=15)
    from . import c05
    for pkg in ("skactiveml.stream", "skactiveml.stream.budgetmanager"):
        for ci in p.exported_classes(pkg):
            f = p.find_method(ci, "update")
            if f is None or is_abstract(f):
                continue
            it = Interp(p)
            it.run_entity(ci, f)
            c05.check_entity(p, report, ci, f, it, r_param="R10.10", r_arr=None, r_est=None)
    # ---------------- R10.13 = R3: nothing a query leaves behind steers update
    report.rule("R10.13", "update commits what the query for THESE candidates simulated, whatever was queried in between: a "
                "stream query (and query_by_utility) leaves no state behind - in particular no memo of its simulation "
                "(a generator state, the utilities it saw) that a later update would adopt (shared with C03 R3)", floor=15)
    from . import c03 as _c03
    _sub3 = type(report)("C03")
    _c03.run(p, _sub3, "quick")
    for o in _sub3.obligations:
        if o.rule == "R3":
            report.add("R10.13", o.entity, o.construct, o.loc, o.ok, detail=o.detail, nontrivial=False)
    report.rule("R10.14", "a chunk is simulated as its instances one after the other: the strategy hands all utilities of the "
                "chunk to ONE query_by_utility call; per-candidate calls against the committed state make the grants depend "
                "on how the stream is cut into chunks (shared with C04 R4.11)", floor=2)
    c04.check_one_consultation_per_chunk(p, report, "R10.14")
    # ---------------- R10.12 premises shared with C04
    report.rule("R10.12", "what update commits is what the budget manager built for the configured budget accounts: the "
                "manager is built once and with self.budget on the query path and on the update path alike, query and "
                "update filter instances with the same tests, and the committed increments are counts of rows / of "
                "queried indices (shared with C04 R4.6 - R4.8)", floor=20)
    proxy12 = c01_proxy(report, {"R4.6": "R10.12", "R4.7": "R10.12", "R4.8": "R10.12"})
    c04.check_manager_construction(p, proxy12)
    c04.check_commit_counts(p, proxy12, c04.entities(p))
    # ---------------- R10.11
    report.rule("R10.11", "the utility of an instance is computed from its own row: a reduction along axis 1 of a "
                "(instances x classes) matrix that is recombined elementwise with such a matrix keeps the reduced axis "
                "(keepdims / [:, None] / reshape(-1, 1)); without it numpy aligns the per-instance vector with the class "
                "axis and instance i is scaled by the statistic of chunk neighbour j", floor=1)
    from ..shapes import Kinds
    for ci in p.exported_classes("skactiveml.stream"):
        f = p.find_method(ci, "query")
        if f is None or is_abstract(f):
            continue
        bad, good = Kinds(f.node).mismatches()
        for n in good:
            report.add("R10.11", f.qual, f"`{norm_stmt(n, 60)}` combines per-row quantities row by row", f"{f.file}:{n.lineno}", True,
                       detail="reduced axis kept")
        for n in bad:
            report.add("R10.11", f.qual, f"`{norm_stmt(n, 60)}` combines per-row quantities row by row", f"{f.file}:{n.lineno}", False,
                       detail="a 1-d vector over the instances is broadcast against the columns of an (instances x classes) "
                              "matrix: for a chunk of exactly n_classes instances the utilities silently mix instances, "
                              "for other chunk lengths the query raises")
    report.assumptions += [
        "chunking invariance as an equality of whole runs is not decided; R10.1-R10.5 are necessary structural conditions",
        "RandomVariableUncertaintyBudgetManager is outside the chunking-invariance claim (normally distributed draws) and is not judged by R10.2",
    ]


def check_transitions(p, report, pairs, rule):
    for ci, q in pairs:
        if q is None or is_abstract(q):
            continue
        seeds = c04.seeds_of(q.node)
        # also copies: tmp = copy(self.x_)
        for n in ast.walk(q.node):
            if isinstance(n, ast.Assign) and len(n.targets) == 1 and isinstance(n.targets[0], ast.Name) \
                    and isinstance(n.value, ast.Call) and len(n.value.args) == 1 and \
                    isinstance(n.value.args[0], ast.Attribute) and isinstance(n.value.args[0].value, ast.Name) \
                    and n.value.args[0].value.id == "self" and n.value.args[0].attr.endswith("_") \
                    and c04.callname_(n.value) in ("copy", "deepcopy", "list", "deque"):
                seeds[n.targets[0].id] = n.value.args[0].attr
        L = c04.instance_loop(q.node)
        if L is None or not seeds:
            continue
        ups = update_chain(p, ci)
        for tmp, attr in sorted(seeds.items()):
            sim = {(op, rhs, pol) for (_, op, rhs, pol) in update_ops(q.node, {tmp}, within=L)}
            if not sim:
                continue  # read-only seed
            com = set()
            for u in ups:
                com |= {(op, rhs, pol) for (_, op, rhs, pol) in update_ops(u.node, {"self." + attr})}
            ent = f"{ci.name}.{q.name}/update"
            # bulk-equivalent forms
            def covered(a, other):
                op, rhs, pol = a
                if a in other:
                    return True
                eq = BULK.get((op, rhs))
                if eq and any((o, r) in eq for (o, r, _) in other):
                    return True
                return False
            def covered_rev(b, other):
                op, rhs, pol = b
                if b in other:
                    return True
                for (k, vs) in BULK.items():
                    if (op, rhs) in vs and any((o, r) == k for (o, r, _) in other):
                        return True
                return False
            miss = [a for a in sim if not covered(a, com)]
            extra = [b for b in com if not covered_rev(b, sim)]
            ok = not miss and not extra
            report.add(rule, ent, f"transition of `{tmp}` (simulation) vs self.{attr} (commit)",
                       f"{q.file}:{L.lineno}", ok,
                       detail=("operators agree: " + "; ".join(f"{o} {r} [{pl}]" for o, r, pl in sorted(sim))) if ok else
                       ("simulated only: " + str(sorted(miss)) + " committed only: " + str(sorted(extra))))
            # conditions under which an indicator-guarded transition runs
            from ..astutil import inline_temporaries
            committed = set()
            for u in ups:
                for x in ast.walk(u.node):
                    if isinstance(x, ast.Attribute) and isinstance(x.ctx, ast.Store) and isinstance(x.value, ast.Name) \
                            and x.value.id == "self":
                        committed.add(x.attr)
            from ..astutil import nest_guard_clauses
            qn = nest_guard_clauses(inline_temporaries(q.node, keep=lambda a: isinstance(a.value, ast.Attribute)
                                                       and isinstance(a.value.value, ast.Name) and a.value.value.id == "self"
                                                       and a.value.attr in committed))
            Ln = c04.instance_loop(qn)
            if Ln is None:
                continue
            sctx = transition_contexts(qn, {tmp}, c04.seeds_of(qn), within=Ln)
            cctx = {}
            for u in ups:
                for k, v in transition_contexts(nest_guard_clauses(inline_temporaries(u.node)), {"self." + attr}, {}).items():
                    cctx.setdefault(k, set()).update(v)
            for k in sorted(set(sctx) & set(cctx)):
                same = sctx[k] == cctx[k]
                report.add(rule, ent, f"conditions of `{k[0]} {k[1]}` on `{tmp}` (simulation) vs self.{attr} (commit)",
                           f"{q.file}:{L.lineno}", same,
                           detail="both run under " + str([sorted(x) for x in sctx[k]]) if same else
                           f"simulated under {[sorted(x) for x in sctx[k]]} but committed under {[sorted(x) for x in cctx[k]]}: "
                           "update adapts the state for instances the simulation did not (or vice versa), so the result "
                           "depends on the chunking")



def _indicator_of(stmt, tmp):
    """The per-instance indicator added to the running estimate `tmp` by
    `tmp = <f(tmp)> + E` / `tmp += E`, else None."""
    if isinstance(stmt, ast.AugAssign) and isinstance(stmt.op, ast.Add) and isinstance(stmt.target, ast.Name) \
            and stmt.target.id == tmp:
        return stmt.value
    if isinstance(stmt, ast.Assign) and len(stmt.targets) == 1 and isinstance(stmt.targets[0], ast.Name) \
            and stmt.targets[0].id == tmp and isinstance(stmt.value, ast.BinOp) and isinstance(stmt.value.op, ast.Add):
        l, r = stmt.value.left, stmt.value.right
        if tmp in names_in(l) and tmp not in names_in(r):
            return r
        if tmp in names_in(r) and tmp not in names_in(l):
            return l
    return None


def _exclusive(tree, a, b):
    """a and b sit in different branches of one If (never on one path of an iteration)"""
    def chain(n):
        sn = tree.stmt_of(n) if not isinstance(n, ast.stmt) else n
        return [(id(owner), field) for (s_, owner, field, idx) in tree.ancestors(sn) if isinstance(owner, ast.If)]
    ca, cb = dict(chain(a)), dict(chain(b))
    return any(k in cb and cb[k] != v for k, v in ca.items())


def check_accounting_is_granting(p, report, rule="R10.7"):
    """The indicator by which the simulated spent-estimate advances is the
    condition under which the label is granted (index appended / record
    stored) in the same iteration."""
    from ..astutil import inline_temporaries, FuncTree
    n = 0
    for ci, f in c04.entities(p):
        committed = set()
        for u in update_chain(p, ci):
            for x in ast.walk(u.node):
                if isinstance(x, ast.Attribute) and isinstance(x.ctx, ast.Store) and isinstance(x.value, ast.Name) \
                        and x.value.id == "self":
                    committed.add(x.attr)
        from ..astutil import nest_guard_clauses
        fnode = nest_guard_clauses(inline_temporaries(f.node, keep=lambda a: isinstance(a.value, ast.Attribute)
                                                      and isinstance(a.value.value, ast.Name) and a.value.value.id == "self"
                                                      and a.value.attr in committed))
        L = c04.instance_loop(fnode)
        if L is None:
            continue
        counter = c04.loop_counter(L)
        seeds = c04.seeds_of(fnode)
        gr = c04.grants(L, counter)
        if not gr:
            continue
        tree = FuncTree(fnode)
        ent = f"{ci.name}.{f.name}"
        for st in ast.walk(L):
            for tmp in seeds:
                E = _indicator_of(st, tmp) if isinstance(st, (ast.Assign, ast.AugAssign)) else None
                if E is None:
                    continue
                etxt = ast.unparse(E)
                if isinstance(E, ast.Constant):
                    continue        # observation counters (+= 1)
                verdicts = []
                for kind, g, arr in gr:
                    if kind == "store" and isinstance(E, ast.Subscript) and arr != base_name(E):
                        continue    # a store into another per-instance array (e.g. the utilities)
                    if kind == "store":
                        tgt = ast.unparse(g.targets[0])
                        ok = etxt == tgt or etxt == ast.unparse(g.value)
                        verdicts.append((ok, f"record `{norm_stmt(g, 50)}`"))
                    else:
                        cond = None
                        for (s_, owner, field, idx) in tree.ancestors(g):
                            if owner is L:
                                break
                            if isinstance(owner, ast.If) and field == "body":
                                cond = owner.test
                                break
                        if cond is None:
                            verdicts.append((False, "unconditional grant"))
                            continue
                        ctxt = ast.unparse(cond)
                        ok = ctxt == etxt or (isinstance(E, ast.IfExp) and False)
                        if ok and isinstance(E, ast.Name):
                            # the name must not be rebound between the two statements
                            lo, hi = sorted((st.lineno, g.lineno))
                            ok = not any(isinstance(x, ast.Name) and x.id == E.id and isinstance(x.ctx, ast.Store)
                                         and lo < x.lineno < hi and not _exclusive(tree, x, g) and not _exclusive(tree, x, st)
                                         for x in ast.walk(L))
                        verdicts.append((ok, f"grant under `{norm_stmt(cond, 50)}`"))
                good = all(v for v, _ in verdicts)
                n += 1
                report.add(rule, ent, f"estimate advanced by the grant indicator in `{norm_stmt(st, 70)}`", f"{f.file}:{st.lineno}",
                           good, detail="; ".join(w for _, w in verdicts) if good else
                           f"the running estimate advances by `{norm_stmt(E, 40)}` but the label is granted differently "
                           f"({'; '.join(w for v, w in verdicts if not v)}): simulation and the committed update disagree "
                           "within a chunk")
    return n


def check_direct_simulation(p, report, rule="R10.8"):
    """Strategies that simulate inside query by mutating their own state in the per-candidate loop (and
    restore it afterwards): every in-loop transition `self.a op= e` of query is applied, per candidate
    and inside the loop, by update as well."""
    n = 0
    for ci in p.exported_classes("skactiveml.stream"):
        q = p.find_method(ci, "query")
        u = p.find_method(ci, "update")
        if q is None or u is None or is_abstract(q) or is_abstract(u):
            continue

        def cand_loops(fn):
            return [L for L in ast.walk(fn.node) if isinstance(L, ast.For) and "candidates" in names_in(L.iter)]

        def direct_ops(L):
            out = set()
            for x in ast.walk(L):
                if isinstance(x, ast.AugAssign) and _tname(x.target) and _tname(x.target).startswith("self."):
                    out.add((_tname(x.target), type(x.op).__name__ + "=", norm_rhs(x.value, {_tname(x.target)})))
                elif isinstance(x, ast.Assign) and len(x.targets) == 1 and _tname(x.targets[0]) and \
                        _tname(x.targets[0]).startswith("self.") and _tname(x.targets[0]) in names_in(x.value):
                    out.add((_tname(x.targets[0]), "=", norm_rhs(x.value, {_tname(x.targets[0])})))
            return out
        ql, ul = cand_loops(q), cand_loops(u)
        if not ql:
            continue
        sim = set()
        for L in ql:
            sim |= direct_ops(L)
        if not sim:
            continue
        com = set()
        for L in ul:
            com |= direct_ops(L)
        for (attr, op, rhs) in sorted(sim):
            ok = (attr, op, rhs) in com
            n += 1
            report.add(rule, f"{ci.name}.query/update", f"per-candidate transition `{attr} {op} {rhs}` mirrored inside update's loop",
                       f"{u.file}:{u.node.lineno}", ok,
                       detail="same transition inside the per-candidate loop of update" if ok else
                       f"query advances {attr} once per candidate inside its loop, update does not do so inside its "
                       "per-candidate loop (e.g. in bulk afterwards): what the loop body reads (time stamps) differs "
                       "between simulation and commit for every chunk longer than one")
    return n


def check_returned_utilities(p, report, rule="R10.9"):
    """The utilities a strategy returns (and the caller hands to update) are the utilities the budget
    manager saw in query_by_utility: same variable, not rebound in between; element-wise calls use
    elements of the returned array."""
    n = 0
    seen = set()
    for ci in p.exported_classes("skactiveml.stream"):
        q = p.find_method(ci, "query")
        if q is None or is_abstract(q) or id(q.node) in seen:
            continue
        seen.add(id(q.node))
        calls = [c for c in ast.walk(q.node) if isinstance(c, ast.Call) and isinstance(c.func, ast.Attribute)
                 and c.func.attr == "query_by_utility" and c.args]
        rets = [r.value.elts[1] for r in ast.walk(q.node) if isinstance(r, ast.Return) and isinstance(r.value, ast.Tuple)
                and len(r.value.elts) == 2]
        if not calls or not rets or not all(isinstance(r, ast.Name) for r in rets):
            continue
        rname = rets[0].id
        for c in calls:
            a = c.args[0]
            ok = None
            if isinstance(a, ast.Name):
                rebinds = [x for x in ast.walk(q.node) if isinstance(x, (ast.Assign, ast.AugAssign)) and c.lineno < x.lineno
                           and any(isinstance(t, ast.Name) and t.id == rname for t in (
                               x.targets if isinstance(x, ast.Assign) else [x.target]))]
                ok = a.id == rname and not rebinds
            else:
                # np.array([u]) with u an element of the returned array (loop over it), or a NaN filler
                names = names_in(a) - {"np"}
                loops = [L for L in ast.walk(q.node) if isinstance(L, ast.For) and rname in names_in(L.iter)
                         and any(x is c for x in ast.walk(L))]
                tnames = set()
                for L in loops:
                    tnames |= {x.id for x in ast.walk(L.target) if isinstance(x, ast.Name)}
                ok = (not names) or bool(names & tnames) or c01_is_nan(a)
            n += 1
            report.add(rule, q.qual, f"budget manager sees the returned utilities: {site_id(c, 60)}", f"{q.file}:{c.lineno}", ok,
                       detail=f"argument is (an element of) `{rname}`" if ok else
                       f"query_by_utility is given `{ast.unparse(a)}` but `{rname}` is returned: update will commit other "
                       "utilities than the simulation used, so the history depends on the chunk borders")
    return n


def c01_is_nan(a):
    return "nan" in ast.unparse(a)


def wellformed_indices(fnode, name):
    defs = [n for n in ast.walk(fnode) if isinstance(n, ast.Assign)
            and any(isinstance(t, ast.Name) and t.id == name for t in n.targets)]
    tup = [n for n in ast.walk(fnode) if isinstance(n, ast.Assign) and any(
        isinstance(t, ast.Tuple) and any(isinstance(e, ast.Name) and e.id == name for e in t.elts) for t in n.targets)]
    if tup and not defs:
        return True, "unpacked from a validated tuple"
    if not defs:
        return False, "no definition found"
    for d in defs:
        v = d.value
        if isinstance(v, ast.List) and not v.elts:
            continue
        txt = ast.unparse(v)
        if isinstance(v, ast.Subscript) and isinstance(v.value, ast.Call) and c04.callname_(v.value) == "where" \
                and isinstance(v.slice, ast.Constant) and v.slice.value == 0:
            continue
        if isinstance(v, ast.Call) and isinstance(v.func, ast.Attribute) and v.func.attr == "query_by_utility":
            continue
        return False, f"defined by `{txt[:60]}`: not an append-only list / np.where(mask)[0] / manager result"
    # appends: only the enumerate counter, at most once per iteration
    for L in [n for n in ast.walk(fnode) if isinstance(n, ast.For)]:
        apps = [x for x in ast.walk(L) if isinstance(x, ast.Expr) and isinstance(x.value, ast.Call)
                and isinstance(x.value.func, ast.Attribute) and x.value.func.attr == "append"
                and base_name(x.value.func.value) == name]
        if not apps:
            continue
        counter = None
        if isinstance(L.iter, ast.Call) and isinstance(L.iter.func, ast.Name) and L.iter.func.id == "enumerate" \
                and isinstance(L.target, ast.Tuple) and isinstance(L.target.elts[0], ast.Name):
            counter = c04.loop_counter(L)
        for a in apps:
            arg = a.value.args[0] if a.value.args else None
            if not (isinstance(arg, ast.Name) and arg.id == counter):
                return False, f"`{norm_stmt(a, 50)}` appends something other than the enumerate counter"
        ca = CountAppends(fnode, L, name).run()
        if any("a2" in s.tokens for s in (ca.out or [])):
            return False, "the counter can be appended twice in one iteration (indices not strictly increasing)"
    return True, "append-only list of the enumerate counter (<= 1 per iteration) / np.where(mask)[0] / manager result"


# ---------------------------------------------------------------------------
# Contexts of guarded transitions (threshold adaptation): the conditions
# under which `theta *= 1 -/+ s` runs in the simulation are the conditions
# under which update commits it.
def _norm_test(test, branch, seed_map, tails):
    import copy as _c
    t = _c.deepcopy(test)
    neg = False
    while isinstance(t, ast.UnaryOp) and isinstance(t.op, ast.Not):
        t = t.operand
        neg = not neg

    class R(ast.NodeTransformer):
        def visit_Subscript(self, n):
            self.generic_visit(n)
            if isinstance(n.value, ast.Name) and n.value.id in tails and isinstance(n.slice, ast.UnaryOp) \
                    and isinstance(n.slice.op, ast.USub) and isinstance(n.slice.operand, ast.Constant) \
                    and n.slice.operand.value == 1:
                return self.visit(_c.deepcopy(tails[n.value.id]))
            return n

        def visit_Name(self, n):
            if n.id in seed_map and isinstance(n.ctx, ast.Load):
                return ast.Attribute(value=ast.Name(id="self", ctx=ast.Load()), attr=seed_map[n.id], ctx=ast.Load())
            return n
    t = R().visit(t)
    while isinstance(t, ast.UnaryOp) and isinstance(t.op, ast.Not):
        t = t.operand
        neg = not neg
    # one orientation for comparisons: a > b  ==  b < a
    if isinstance(t, ast.Compare) and len(t.ops) == 1 and isinstance(t.ops[0], (ast.Gt, ast.GtE)):
        t = ast.Compare(left=t.comparators[0], ops=[ast.Lt() if isinstance(t.ops[0], ast.Gt) else ast.LtE()],
                        comparators=[t.left])
    pos = (branch == "body") != neg
    txt = " ".join(ast.unparse(t).split())
    if "self.budget_" in txt:
        # the budget guard itself is judged by R4.1/R4.2/R10.2; here its presence, its branch and whether the
        # comparison is strict (simulation and commit must agree on what happens at an exact tie)
        strict = ""
        if isinstance(t, ast.Compare) and len(t.ops) == 1 and isinstance(t.ops[0], (ast.Lt, ast.LtE)):
            budget_right = "self.budget_" in ast.unparse(t.comparators[0])
            strict = ("[est<budget]" if isinstance(t.ops[0], ast.Lt) else "[est<=budget]") if budget_right else \
                ("[budget<est]" if isinstance(t.ops[0], ast.Lt) else "[budget<=est]")
        txt = "$BUDGET_GUARD" + strict
    return (txt, "T" if pos else "F")


def transition_contexts(fnode, targets, seed_map, within=None):
    """{(op, rhs, polarity): set(frozenset(contexts))} for indicator-guarded
    updates of `targets` (on the function with temporaries substituted back)."""
    tree = FuncTree(fnode)
    region = within if within is not None else fnode
    tails = {}
    for n in ast.walk(region):
        if isinstance(n, ast.Expr) and isinstance(n.value, ast.Call) and isinstance(n.value.func, ast.Attribute) \
                and n.value.func.attr == "append" and isinstance(n.value.func.value, ast.Name) and n.value.args:
            nm = n.value.func.value.id
            tails[nm] = None if nm in tails else n.value.args[0]
    tails = {k: v for k, v in tails.items() if v is not None}
    out = {}
    for n in ast.walk(region):
        if not isinstance(n, (ast.AugAssign, ast.Assign)):
            continue
        tg = n.target if isinstance(n, ast.AugAssign) else (n.targets[0] if len(n.targets) == 1 else None)
        b = _tname(tg) if tg is not None else None
        if b not in targets:
            continue
        op = (type(n.op).__name__ + "=") if isinstance(n, ast.AugAssign) else "="
        v = n.value
        ifexp = isinstance(n, ast.AugAssign) and isinstance(v, ast.IfExp) and isinstance(v.test, (ast.Name, ast.UnaryOp))
        if ifexp:
            neg = isinstance(v.test, ast.UnaryOp) and isinstance(v.test.op, ast.Not)
            parts = [(v.body, "F" if neg else "T"), (v.orelse, "T" if neg else "F")]
        else:
            pol = polarity(tree, n, region)
            if pol == "-":
                continue
            parts = [(v, pol)]
        ctx = []
        first = not ifexp      # with a conditional expression the indicator is in the expression itself
        for (s_, owner, field, idx) in tree.ancestors(n):
            if owner is region:
                break
            if isinstance(owner, ast.If) and field in ("body", "orelse"):
                if first:
                    first = False      # the indicator test itself (polarity)
                    continue
                ctx.append(_norm_test(owner.test, field, seed_map, tails))
        for part, pol in parts:
            rhs = norm_rhs(inline_hoisted(fnode, part, targets), {b})
            out.setdefault((op, rhs, pol), set()).add(frozenset(ctx))
    return out
