"""C12 - unlabeled samples do not influence supervised models (masked fit)."""
import ast

from ..common import norm_stmt, site_id
from ..deps import names_in, base_name, index_names
from ..astutil import FuncTree
from ..index import AnalysisError
from ..paths import MustAnalysis, describe, local_names
from . import c01

TARGETS = [
    ("SklearnClassifier", "_fit"),
    ("SklearnRegressor", "_fit"),
    ("NICKernelRegressor", "fit"),
    ("AnnotatorLogisticRegression", "fit"),
]
FIT_NAMES = {"fit", "partial_fit"}
TRAIN_ATTRS = {"X_", "y_", "weights_", "sample_weight_"}
STATISTICS = {"mean", "sum", "max", "min", "std", "var", "median", "nanmean", "nansum", "nanmax", "nanmin", "nanstd",
              "average", "norm", "ptp", "prod", "amax", "amin", "percentile", "quantile"}
WRAPPERS = {"astype", "inverse_transform", "insert", "ones_like", "zeros_like", "asarray", "array", "copy",
            "ravel", "reshape", "int64", "column_or_1d", "transform"}


class MaskFlow(MustAnalysis):
    """tokens: 'm:<name>' = the data array bound to <name> is restricted to
    the labeled rows;  'd:<name>' = <name> holds per-sample training data."""

    def __init__(self, fnode, ent, report, file):
        super().__init__(fnode)
        self.ent = ent
        self.report = report
        self.file = file
        self.mask_names = set()
        self.data0 = set()
        self.reported = set()
        for n in ast.walk(fnode):
            if isinstance(n, ast.Assign) and any(isinstance(c, ast.Call) and c01.callname(c) == "is_labeled"
                                                 for c in ast.walk(n.value)):
                for t in n.targets:
                    if isinstance(t, ast.Name):
                        self.mask_names.add(t.id)
            if isinstance(n, ast.Assign) and isinstance(n.value, ast.Call) and c01.callname(n.value) == "_validate_data":
                t = n.targets[0]
                if isinstance(t, (ast.Tuple, ast.List)):
                    for e in t.elts:
                        if isinstance(e, ast.Name):
                            self.data0.add(e.id)
        self.sinks = 0

    # -- classification of expressions under the current tokens
    def expr_state(self, e, tokens):
        """'masked' | 'raw' | 'none' (not per-sample data)."""
        if e is None:
            return "none"
        if isinstance(e, ast.Subscript):
            sl = e.slice
            if isinstance(sl, ast.Name) and sl.id in self.mask_names:
                inner = self.expr_state(e.value, tokens)
                return "stat" if inner == "stat" else ("masked" if inner in ("raw", "masked") else "none")
            if isinstance(sl, ast.Tuple) and sl.elts and isinstance(sl.elts[0], ast.Name) and sl.elts[0].id in self.mask_names:
                inner = self.expr_state(e.value, tokens)
                return "stat" if inner == "stat" else ("masked" if inner in ("raw", "masked") else "none")
            return self.expr_state(e.value, tokens)
        if isinstance(e, ast.Name):
            if f"s:{e.id}" in tokens:
                return "stat"
            if f"m:{e.id}" in tokens:
                return "masked"
            if f"d:{e.id}" in tokens:
                return "raw"
            return "none"
        if isinstance(e, ast.Call):
            n = c01.callname(e)
            if (n or "").split(".")[-1] in STATISTICS:
                # a statistic over ALL rows (labeled and unlabeled) of a per-sample array: masking the
                # value it is combined with afterwards does not remove the influence of the unlabeled rows
                operands = list(e.args[:1]) + ([e.func.value] if isinstance(e.func, ast.Attribute)
                                               and not (isinstance(e.func.value, ast.Name) and e.func.value.id in ("np", "numpy")) else [])
                sts = [self.expr_state(a, tokens) for a in operands]
                if "raw" in sts or "stat" in sts:
                    return "stat"
                return "none"
            if n in WRAPPERS:
                parts = [self.expr_state(a, tokens) for a in e.args]
                if isinstance(e.func, ast.Attribute):
                    parts.append(self.expr_state(e.func.value, tokens))
                if "stat" in parts:
                    return "stat"
                if "raw" in parts:
                    return "raw"
                if "masked" in parts:
                    return "masked"
            # any other call: a value computed from a statistic over ALL rows carries its influence
            parts = [self.expr_state(a, tokens) for a in list(e.args) + [k.value for k in e.keywords]]
            if "stat" in parts:
                return "stat"
            return "none"
        if isinstance(e, ast.IfExp):
            parts = {self.expr_state(e.body, tokens), self.expr_state(e.orelse, tokens)}
            if "stat" in parts:
                return "stat"
            if "raw" in parts:
                return "raw"
            if "masked" in parts:
                return "masked"
            return "none"
        if isinstance(e, ast.BinOp):
            parts = {self.expr_state(e.left, tokens), self.expr_state(e.right, tokens)}
            if "stat" in parts:
                return "stat"
            if "raw" in parts:
                return "raw"
            if "masked" in parts:
                return "masked"
        return "none"

    def transfer(self, stmt, tokens):
        if isinstance(stmt, ast.Assign):
            t0 = stmt.targets[0]
            if isinstance(stmt.value, ast.Call) and c01.callname(stmt.value) == "_validate_data" \
                    and isinstance(t0, (ast.Tuple, ast.List)):
                tk = set(tokens)
                for e in t0.elts:
                    if isinstance(e, ast.Name):
                        tk.discard(f"m:{e.id}")
                        tk.add(f"d:{e.id}")
                return tk
            if len(stmt.targets) == 1 and isinstance(t0, ast.Name) and t0.id not in self.mask_names:
                st = self.expr_state(stmt.value, tokens)
                tk = set(tokens)
                tk.discard(f"m:{t0.id}")
                tk.discard(f"d:{t0.id}")
                tk.discard(f"s:{t0.id}")
                if st == "stat":
                    tk.add(f"s:{t0.id}")
                elif st == "masked":
                    tk.add(f"m:{t0.id}")
                elif st == "raw":
                    tk.add(f"d:{t0.id}")
                return tk
        return None

    # -- sinks
    def use(self, expr, state, stmt):
        if isinstance(stmt, (ast.If, ast.While)) and expr is stmt.test:
            # a decision (raise / fallback / branch of the fit) taken from the
            # values of a per-sample array has to look at the labeled rows only
            raw = [n for n in self.unmasked_reads(expr, state.tokens) if not self._none_test(expr, n)]
            self.sinks += 1 if (raw or self.masked_reads(expr, state.tokens)) else 0
            if raw:
                self._report(stmt.test, raw[0], state, "branch condition computed from all rows")
        for n in ast.walk(expr):
            if not isinstance(n, ast.Call):
                continue
            args = list(n.args) + [k.value for k in n.keywords if k.arg is not None]
            states = [(a, self.expr_state(a, state.tokens)) for a in args]
            if (c01.callname(n) or "") in ("check_array", "assert_all_finite", "asarray_chkfinite", "check_X_y") and n.args \
                    and self.expr_state(n.args[0], state.tokens) == "raw":
                fin = next((ast.unparse(k.value) for k in n.keywords if k.arg in ("ensure_all_finite", "force_all_finite")), None)
                if (c01.callname(n) != "check_array") or fin not in ("False", "'allow-nan'", '"allow-nan"'):
                    self.sinks += 1
                    self._report(n, n.args[0], state, "a finiteness / value validation of ALL rows inside fit raises (or arms the "
                                                      "fallback) because of values at unlabeled samples")
            is_fit = self._is_estimator_fit(n)
            has_masked = any(s == "masked" for _, s in states)
            kw = self.fnode.args.kwarg.arg if self.fnode.args.kwarg is not None else None
            if kw and not is_fit and any(kw in names_in(a) for a in args) and (c01.callname(n) or "") not in ("dict", "len"):
                for a, s_ in states:
                    if s_ == "raw":
                        self.sinks += 1
                        self._report(n, a, state, f"the caller's **{kw} are processed together with the unmasked per-sample "
                                                  f"array (what reaches the estimator then depends on the number of ALL rows, "
                                                  f"e.g. sklearn's same-length-as-X heuristic)")
            if is_fit or has_masked:
                if c01.callname(n) in ("is_labeled", "is_unlabeled", "len", "sum", "check_consistent_length"):
                    continue
                for a, s in states:
                    if s == "raw":
                        self._report(n, a, state, "estimator fit" if is_fit else "call mixing masked and unmasked arrays")
                    elif s == "stat" and is_fit:
                        self._report(n, a, state, "estimator fit receives a value scaled by a statistic over ALL rows "
                                                  "(the weights / labels of unlabeled samples change the model)")
                self.sinks += 1

    def _is_estimator_fit(self, n):
        f = n.func
        if isinstance(f, ast.Attribute) and f.attr in FIT_NAMES and "estimator_" in ast.unparse(f.value):
            return True
        if isinstance(f, ast.Call) and "estimator_" in ast.unparse(f) and "fit_function" in ast.unparse(f):
            return True  # attrgetter(fit_function)(self.estimator_)(...)
        return False

    def check_store(self, stmt, state):
        """training data stored on self / put into the kwargs handed to fit"""
        if not isinstance(stmt, ast.Assign):
            return
        for t in stmt.targets:
            if isinstance(t, ast.Attribute) and isinstance(t.value, ast.Name) and t.value.id == "self" \
                    and t.attr in TRAIN_ATTRS:
                s = self.expr_state(stmt.value, state.tokens)
                self.sinks += 1
                if s == "raw":
                    self._report(stmt, stmt.value, state, f"stored as training data self.{t.attr}")
                elif s == "stat":
                    self._report(stmt, stmt.value, state, f"training data self.{t.attr} is scaled by a statistic over ALL rows")
            elif isinstance(t, ast.Attribute) and isinstance(t.value, ast.Name) and t.value.id == "self":
                # nothing kept on self is computed from the UNLABELED part (complement of the labeled mask,
                # is_unlabeled / unlabeled_indices): the number of unlabeled samples must not shape the model
                un = self._mentions_unlabeled(stmt.value)
                if un is not None:
                    self.sinks += 1
                    self._report(stmt, un, state, f"self.{t.attr} is computed from the unlabeled samples "
                                                  f"(`{ast.unparse(un)[:40]}`)")
                # statistics kept on self (label counts, fallback mean/std):
                # every read of a per-sample array inside has to be masked
                raw = self.unmasked_reads(stmt.value, state.tokens)
                if not raw and self.expr_state(stmt.value, state.tokens) == "stat":
                    self.sinks += 1
                    self._report(stmt, stmt.value, state, f"self.{t.attr} keeps a value computed from a statistic over ALL rows")
                if raw:
                    self.sinks += 1
                    self._report(stmt, raw[0], state, f"statistic self.{t.attr} computed from all rows")
                elif self.masked_reads(stmt.value, state.tokens):
                    self.sinks += 1
            if isinstance(t, ast.Subscript) and isinstance(t.value, ast.Attribute) and isinstance(t.value.value, ast.Name) \
                    and t.value.value.id == "self":
                s = self.expr_state(stmt.value, state.tokens)
                raw = self.unmasked_reads(stmt.value, state.tokens)
                if s == "stat" or raw:
                    self.sinks += 1
                    self._report(stmt, raw[0] if raw else stmt.value, state,
                                 f"self.{t.value.attr}[...] keeps a value computed from ALL rows (a statistic of the unlabeled "
                                 f"samples' features / weights shapes the model)")
            if isinstance(t, ast.Subscript) and isinstance(t.slice, ast.Constant) and t.slice.value == "sample_weight":
                s = self.expr_state(stmt.value, state.tokens)
                self.sinks += 1
                if s == "raw":
                    self._report(stmt, stmt.value, state, "sample_weight handed to the estimator's fit")
                elif s == "stat":
                    self._report(stmt, stmt.value, state, "sample_weight handed to the estimator's fit is scaled by a "
                                                          "statistic over ALL rows (unlabeled samples included)")

    def _mentions_unlabeled(self, e, depth=0):
        for x in ast.walk(e):
            if isinstance(x, ast.UnaryOp) and isinstance(x.op, ast.Invert) and isinstance(x.operand, ast.Name) \
                    and x.operand.id in self.mask_names:
                return x
            if isinstance(x, ast.Call) and c01.callname(x) in ("is_unlabeled", "unlabeled_indices"):
                return x
        if depth < 3:
            for nm in names_in(e):
                defs = [d for d in ast.walk(self.fnode) if isinstance(d, ast.Assign) and len(d.targets) == 1
                        and isinstance(d.targets[0], ast.Name) and d.targets[0].id == nm]
                if len(defs) == 1 and nm not in self.mask_names:
                    r = self._mentions_unlabeled(defs[0].value, depth + 1)
                    if r is not None:
                        return r
        return None

    def unmasked_reads(self, e, tokens):
        """Name nodes of raw (unmasked) per-sample arrays that are read in `e`
        other than as the base of a mask subscript or inside len()/shape."""
        parents = {}
        for n in ast.walk(e):
            for ch in ast.iter_child_nodes(n):
                parents[ch] = n
        out = []
        for n in ast.walk(e):
            if isinstance(n, ast.Name) and f"d:{n.id}" in tokens and f"m:{n.id}" not in tokens:
                par = parents.get(n)
                if isinstance(par, ast.Subscript) and par.value is n and self.expr_state(par, tokens) == "masked":
                    continue
                if isinstance(par, ast.Call) and c01.callname(par) == "len":
                    continue
                if isinstance(par, ast.Attribute) and par.attr in ("shape", "ndim", "dtype"):
                    continue
                out.append(n)
        return out

    @staticmethod
    def _none_test(expr, name):
        for n in ast.walk(expr):
            if isinstance(n, ast.Compare) and n.left is name and len(n.ops) == 1 \
                    and isinstance(n.ops[0], (ast.Is, ast.IsNot)):
                return True
        return False

    def masked_reads(self, e, tokens):
        return any(isinstance(n, ast.Subscript) and self.expr_state(n, tokens) == "masked" for n in ast.walk(e))

    def _report(self, node, arg, state, what):
        key = (norm_stmt(node, 80), ast.unparse(arg))
        if key in self.reported:
            return
        self.reported.add(key)
        self.report.add("R12.1", self.ent, f"`{ast.unparse(arg)}` in `{norm_stmt(node, 70)}`",
                        f"{self.file}:{getattr(node, 'lineno', 0)}", False,
                        detail=f"{what}: the array is not restricted to the labeled rows on the path where "
                               f"{describe(state.facts) or 'always'}")

    def _apply(self, stmt, states, pseudo=None):
        if pseudo is None:
            for s in states:
                self.check_store(stmt, s)
        return super()._apply(stmt, states, pseudo)


def check_label_dtype_kept(p, report, rule):
    """In the base validators the label array keeps its dtype until the missing-label mask has been
    computed: a numeric `dtype=` on a conversion of y turns the sentinel None into NaN (and a string
    sentinel into an error), after which is_labeled(y, missing_label) sees no unlabeled sample."""
    n = 0
    for cname in ("SkactivemlClassifier", "SkactivemlRegressor"):
        ci = p.get_class(cname)
        f = ci.methods.get("_validate_data") if ci is not None else None
        if f is None:
            raise AnalysisError(f"{cname}._validate_data vanished")
        ps = [a for a in f.params() if a != "self"]
        yname = ps[1] if len(ps) > 1 else "y"
        for c in ast.walk(f.node):
            if isinstance(c, ast.Call) and c.args and isinstance(c.args[0], ast.Name) and c.args[0].id == yname:
                dt = [k.value for k in c.keywords if k.arg == "dtype"]
                n += 1
                bad = bool(dt) and not (isinstance(dt[0], ast.Constant) and dt[0].value is None)
                report.add(rule, f.qual, f"`{site_id(c, 60)}` keeps the dtype of the labels", f"{f.file}:{c.lineno}", not bad,
                           detail="no dtype conversion" if not bad else
                           f"dtype={ast.unparse(dt[0])}: the sentinel None becomes NaN before the missing-label mask is "
                           f"computed, so every sample counts as labeled")
            if isinstance(c, ast.Call) and isinstance(c.func, ast.Attribute) and c.func.attr == "astype" \
                    and isinstance(c.func.value, ast.Name) and c.func.value.id == yname:
                n += 1
                report.add(rule, f.qual, f"`{site_id(c, 60)}` keeps the dtype of the labels", f"{f.file}:{c.lineno}", False,
                           detail="astype on the raw label array changes the sentinel")
            if isinstance(c, ast.Dict):
                for k, v in zip(c.keys, c.values):
                    if isinstance(k, ast.Constant) and k.value == "dtype" and any(
                            isinstance(kk, ast.Constant) and kk.value == "ensure_all_finite" for kk in c.keys):
                        n += 1
                        okd = isinstance(v, ast.Constant) and v.value is None
                        report.add(rule, f.qual, "default check dict of the labels has dtype None", f"{f.file}:{c.lineno}", okd,
                                   detail="dtype None" if okd else f"dtype={ast.unparse(v)} converts the labels")
    return n


def run(p, report, tier):
    report.rule("R12.6", "the base validators keep the dtype of the label array until the missing-label mask is computed "
                "(no numeric dtype= on check_array / column_or_1d / asarray of y, no astype): a coerced sentinel "
                "(None -> NaN) makes every unlabeled sample count as labeled", floor=6)
    check_label_dtype_kept(p, report, "R12.6")
    report.rule("R12.7", "the mask every fit restricts its training data with is right for every legal sentinel: "
                "is_unlabeled answers by a NaN test exactly when the sentinel is NaN and by equality (after the cast to "
                "the common dtype) otherwise (shared with C16 R16.2)", floor=3)
    from ..common import Report
    from . import c16 as _c16
    sub = Report("C16")
    _c16.run(p, sub, "quick")
    for o in sub.obligations:
        if o.rule == "R16.2":
            report.add("R12.7", o.entity, o.construct, o.loc, o.ok, detail=o.detail)
    report.rule("R12.1", "in the fit functions of the supervised wrappers every per-sample array (X, y, sample_weight "
                "from _validate_data, and what is derived from them) that reaches the wrapped estimator's fit / "
                "partial_fit, is stored as training data, or is passed to a call together with a masked array, is "
                "subscripted by the labeled mask computed from is_labeled - on every path; the same holds for statistics "
                "stored on self and for branch conditions (raise / fallback decisions) computed from such arrays", floor=4)
    report.rule("R12.2", "ParzenWindowClassifier.fit / MixtureModelClassifier.fit obtain their label statistics only "
                "through compute_vote_vectors on the encoded labels with the encoder's sentinel (zero weight for "
                "missing labels is decided under C17)", floor=2)
    for cname, mname in TARGETS:
        ci = p.get_class(cname)
        f = ci.methods.get(mname)
        if f is None:
            raise AnalysisError(f"{cname}.{mname} vanished")
        ent = f"{cname}.{mname}"
        mf = MaskFlow(f.node, ent, report, f.file)
        if not mf.mask_names:
            report.add("R12.1", ent, "labeled mask computed", f"{f.file}:{f.node.lineno}", False,
                       detail="no mask computed from is_labeled in the fit function")
            continue
        mf.run()
        if not mf.reported:
            report.add("R12.1", ent, f"all training sinks masked by {sorted(mf.mask_names)}", f"{f.file}:{f.node.lineno}",
                       mf.sinks > 0, detail=f"{mf.sinks} sink evaluations, all restricted to labeled rows"
                       if mf.sinks else "no training sink found (estimator fit / stored data)")
    report.rule("R12.8", "the NUMBER of rows handed to fit (labeled and unlabeled together) never enters the model: the length "
                "of the labeled mask (`len(m)`, `m.size`, `m.shape[0]`) is not an operand of arithmetic in the fit functions - a "
                "tolerance / learning rate / prior scaled by it makes the fitted model depend on how many unlabeled rows "
                "accompany the labeled ones", floor=4)
    for cname, mname in TARGETS:
        ci = p.get_class(cname)
        f = ci.methods.get(mname)
        mf = MaskFlow(f.node, f"{cname}.{mname}", report, f.file)
        tree_ = FuncTree(f.node)
        bad = None
        n_sz = 0
        for e in ast.walk(f.node):
            is_size = (isinstance(e, ast.Call) and (c01.callname(e) or "") in ("len", "size") and e.args
                       and isinstance(e.args[0], ast.Name) and e.args[0].id in mf.mask_names) \
                or (isinstance(e, ast.Attribute) and e.attr == "size" and isinstance(e.value, ast.Name) and e.value.id in mf.mask_names) \
                or (isinstance(e, ast.Subscript) and isinstance(e.value, ast.Attribute) and e.value.attr == "shape"
                    and isinstance(e.value.value, ast.Name) and e.value.value.id in mf.mask_names)
            if not is_size:
                continue
            n_sz += 1
            par = tree_.parent.get(e)
            if isinstance(par, (ast.BinOp, ast.AugAssign)) and bad is None:
                bad = par
        report.add("R12.8", f"{cname}.{mname}", "the total number of rows is no operand of the fit arithmetic",
                   f"{f.file}:{(bad or f.node).lineno}", bad is None, nontrivial=n_sz > 0,
                   detail=f"{n_sz} size read(s) of the labeled mask, none in arithmetic" if bad is None else
                   f"`{ast.unparse(bad)[:70]}` computes with the length of the labeled MASK, i.e. the number of all rows including "
                   f"the unlabeled ones: adding unlabeled rows changes the result of fit")
    for cname in ("ParzenWindowClassifier", "MixtureModelClassifier"):
        f = p.get_class(cname).methods.get("fit")
        if f is None:
            raise AnalysisError(f"{cname}.fit vanished")
        calls = [n for n in ast.walk(f.node) if isinstance(n, ast.Call) and c01.callname(n) == "compute_vote_vectors"]
        ok = len(calls) == 1
        why = f"{len(calls)} compute_vote_vectors call(s)"
        if ok:
            c = calls[0]
            kw = {k.arg: k.value for k in c.keywords}
            ok = ("y" in kw and isinstance(kw["y"], ast.Name) and kw["y"].id == "y") or \
                 (c.args and isinstance(c.args[0], ast.Name) and c.args[0].id == "y")
            sent = kw.get("missing_label")
            ok = ok and sent is not None and ast.unparse(sent) == "-1"
            w = kw.get("w")
            ok = ok and w is not None and isinstance(w, ast.Name) and w.id == "sample_weight"
            why = "vote vectors from (y, sample_weight) with sentinel -1" if ok else "arguments are not (y, w=sample_weight, missing_label=-1)"
            # y must not be used for statistics elsewhere (other than validation / is_labeled count for gamma)
            other = [n for n in ast.walk(f.node) if isinstance(n, ast.Name) and n.id == "y" and isinstance(n.ctx, ast.Load)
                     and not any(x is n for x in ast.walk(c))]
            other = [n for n in other if not _in_call(f.node, n, ("_validate_data", "is_labeled"))
                     and not _handed_to_benign_helper(p, p.get_class(cname), f.node, n)]
            if other:
                ok = False
                why = f"labels are also read at line(s) {sorted({n.lineno for n in other})}"
        report.add("R12.2", f"{cname}.fit", "label statistics only via compute_vote_vectors(y, w, missing_label=-1)",
                   f"{f.file}:{f.node.lineno}", ok, detail=why)
    report.rule("R12.4", "fit of the supervised learners is a function of its arguments only: every fitted attribute "
                "read during fit was stored earlier in the same fit call (a wrapped estimator that survives from an "
                "earlier fit makes the model depend on the order in which labels were revealed; shared with C13 R13.2)",
                floor=4)
    from . import c13_fit
    ents12 = []
    for cname in ("SklearnClassifier", "SklearnRegressor", "SklearnNormalRegressor", "ParzenWindowClassifier",
                  "NICKernelRegressor", "AnnotatorLogisticRegression"):
        ci = p.get_class(cname)
        fm = p.find_method(ci, "fit")
        if fm is None:
            raise AnalysisError(f"{cname}.fit vanished")
        ents12.append((ci, fm))
    # n_features_in_ is input-shape bookkeeping (its precomputed-metric read is a known finding of C13); it does
    # not enter the fitted model and is not judged here
    c13_fit.check_fit_recomputes(p, report, ents12, "R12.4", skip_attrs=("n_features_in_",))
    report.rule("R12.5", "fit never writes into the arrays it is given (X, y, sample_weight; callees inlined): a weight "
                "array zeroed in place at the currently unlabeled samples would change a later fit after those "
                "labels are revealed", floor=12)
    from ..absint import Interp
    from . import c05
    for ci, fm in ents12:
        it = Interp(p)
        it.run_entity(ci, fm)
        c05.check_entity(p, report, ci, fm, it, r_param=None, r_arr="R12.5", r_est=None, ent=f"{ci.name}.fit",
                          only_params=("X", "y", "sample_weight"))
    # the labeled mask is computed with the configured sentinel
    for cname, mname in TARGETS:
        ci = p.get_class(cname)
        f = ci.methods.get(mname)
        if f is None:
            continue
        for n in ast.walk(f.node):
            if isinstance(n, ast.Call) and c01.callname(n) in ("is_labeled", "is_unlabeled"):
                sent = [k.value for k in n.keywords if k.arg == "missing_label"] + list(n.args[1:2])
                ok = bool(sent) and (("missing_label" in ast.unparse(sent[0])) or ast.unparse(sent[0]) == "-1")
                report.add("R12.1", f"{cname}.{mname}", f"labeled mask {site_id(n, 70)} uses the configured sentinel",
                           f"{f.file}:{n.lineno}", ok,
                           detail="sentinel passed" if ok else
                           "the mask is computed with the NaN default: with another missing_label every sample counts "
                           "as labeled and unlabeled samples are fitted")
    # per-annotator column reads of the multi-annotator model are masked by that annotator's labeled mask
    alr = p.get_class("AnnotatorLogisticRegression").methods.get("fit")
    n_col = 0
    if alr is not None:
        masks2 = {t.id for n in ast.walk(alr.node) if isinstance(n, ast.Assign) and isinstance(n.value, ast.Call)
                  and c01.callname(n.value) == "is_labeled" for t in n.targets if isinstance(t, ast.Name)}
        data2 = {"y", "sample_weight"}
        for L in ast.walk(alr.node):
            if not (isinstance(L, ast.For) and isinstance(L.target, ast.Name) and "n_annotators" in ast.unparse(L.iter)):
                continue
            jv = L.target.id
            for x in ast.walk(L):
                if isinstance(x, ast.Subscript) and isinstance(x.ctx, ast.Load) and isinstance(x.value, ast.Name) \
                        and x.value.id in data2 and isinstance(x.slice, ast.Tuple) and len(x.slice.elts) == 2 \
                        and isinstance(x.slice.elts[1], ast.Name) and x.slice.elts[1].id == jv:
                    rows = x.slice.elts[0]
                    ok = bool(names_in(rows) & masks2)
                    n_col += 1
                    report.add("R12.1", "AnnotatorLogisticRegression.fit", f"column read `{norm_stmt(x, 50)}` of the loop annotator",
                               f"{alr.file}:{x.lineno}", ok, detail="rows restricted by the annotator's labeled mask" if ok else
                               "all rows of the annotator's column are read: a missing label (code -1) enters the "
                               "statistics (as a vote for the last class) unless its weight happens to be zero")
    if n_col < 2:
        raise AnalysisError("AnnotatorLogisticRegression.fit: per-annotator column reads vanished")
    report.rule("R12.3", "compute_vote_vectors gives zero weight to missing labels by an assignment (not by arithmetic "
                "that can turn inf into NaN) that dominates the count (shared with C17 R17.2)", floor=3)
    from . import c17
    sub = c01.Report_proxy(report, {"R17.2": "R12.3"})
    c17.check_vote_weights(p, sub)
    report.assumptions += ["equality of predictions of the two fits as numbers is not decided",
                           "the wrapped estimator's fit is trusted to depend only on the arrays it is given"]


def _handed_to_benign_helper(p, ci, fnode, node):
    """`node` (a read of y) is an argument of self.<private helper>(...) whose own reads of that parameter are
    confined to _validate_data / is_labeled (moving the bandwidth heuristic into a helper changes nothing)."""
    for c in ast.walk(fnode):
        if isinstance(c, ast.Call) and isinstance(c.func, ast.Attribute) and isinstance(c.func.value, ast.Name) \
                and c.func.value.id == "self" and any(a is node for a in c.args):
            g = p.find_method(ci, c.func.attr)
            if g is None:
                return False
            params = [a for a in g.params() if a != "self"]
            pos = [i for i, a in enumerate(c.args) if a is node][0]
            if pos >= len(params):
                return False
            pn = params[pos]
            reads = [x for x in ast.walk(g.node) if isinstance(x, ast.Name) and x.id == pn and isinstance(x.ctx, ast.Load)]
            return all(_in_call(g.node, x, ("_validate_data", "is_labeled")) for x in reads)
    return False


def _in_call(fnode, node, names):
    for c in ast.walk(fnode):
        if isinstance(c, ast.Call) and c01.callname(c) in names and any(x is node for x in ast.walk(c)):
            return True
    return False
