"""C07 - multi-annotator query returns distinct available pairs."""
import ast
from ..astutil import inline_temporaries as _it

from ..astutil import FuncTree, dominates
from ..common import norm_stmt, site_id
from ..deps import names_in, base_name, index_names, dep_edges, closure
from ..index import AnalysisError
from ..paths import DefiniteAssignment, MustAnalysis, describe
from . import c01, c02

BOOL_FILL = {"True", "False"}


def is_bool_def(e, bool_names):
    """Does the expression produce a boolean array by construction?"""
    if isinstance(e, ast.Call):
        n = c01.callname(e)
        if n == "full":
            fill = e.args[1] if len(e.args) > 1 else None
            for k in e.keywords:
                if k.arg == "fill_value":
                    fill = k.value
            return fill is not None and ast.unparse(fill) in BOOL_FILL
        if n in ("full_like", "zeros_like", "ones_like", "zeros", "ones", "empty"):
            for k in e.keywords:
                if k.arg == "dtype" and ast.unparse(k.value) in ("bool", "np.bool_", "numpy.bool_"):
                    return True
            return False
        if n in ("is_unlabeled", "is_labeled", "isnan", "isin", "logical_and", "logical_or", "logical_not", "any", "all"):
            return True
        if n == "check_array":
            return any(k.arg == "dtype" and ast.unparse(k.value) in ("bool", "np.bool_") for k in e.keywords)
        if n in ("astype",):
            return e.args and ast.unparse(e.args[0]) in ("bool", "np.bool_")
        if n in ("repeat", "reshape", "tile") and isinstance(e.func, ast.Attribute):
            return is_bool_def(e.func.value, bool_names) or (e.args and is_bool_def(e.args[0], bool_names))
        return False
    if isinstance(e, ast.Compare):
        return True
    if isinstance(e, ast.UnaryOp) and isinstance(e.op, ast.Invert):
        return is_bool_def(e.operand, bool_names)
    if isinstance(e, ast.Subscript):
        return is_bool_def(e.value, bool_names)
    if isinstance(e, ast.Name):
        return e.id in bool_names
    return False


def while_class(w, fnode):
    """V1: condition bounds a counter increased by a positive constant on every
    non-exiting path against a loop-invariant bound; V2: body contains an exit
    guarded by a no-progress / bound-reached test where the tested quantity is
    monotonically pushed towards the bound ... only V1 and the explicit
    stall-exit are recognised."""
    t = w.test
    if isinstance(t, ast.Compare) and len(t.ops) == 1 and isinstance(t.ops[0], (ast.Lt, ast.LtE)) \
            and isinstance(t.left, ast.Name):
        c = t.left.id
        bound_names = names_in(t.comparators[0])
        assigned = {n.id for n in ast.walk(w) if isinstance(n, ast.Name) and isinstance(n.ctx, ast.Store)}
        if not (bound_names & assigned):
            # counter += positive const on every path through the body
            class Inc(MustAnalysis):
                def __init__(self, fnode, loop):
                    super().__init__(fnode)
                    self.loop = loop
                    self.miss = None

                def gen(self, s):
                    if isinstance(s, ast.AugAssign) and isinstance(s.target, ast.Name) and s.target.id == c \
                            and isinstance(s.op, ast.Add) and isinstance(s.value, ast.Constant) \
                            and isinstance(s.value.value, (int, float)) and s.value.value > 0:
                        return ("inc",)
                    return ()

                def loop_iter_kill(self, loop):
                    return ("inc",) if loop is self.loop else ()

                def on_loop_body_exit(self, loop, si, so):
                    if loop is self.loop:
                        self.miss = [s for s in so if "inc" not in s.tokens]
            inc = Inc(fnode, w).run()
            if inc.miss is not None and not inc.miss:
                return "V1", f"counter `{c}` += positive constant on every path, bound loop-invariant"
    # V2: explicit exit when no progress is made: `if new == old: break`
    for n in ast.walk(w):
        if isinstance(n, ast.If) and any(isinstance(s, (ast.Break, ast.Return, ast.Raise)) for s in n.body):
            tt = n.test
            if isinstance(tt, ast.Compare) and len(tt.ops) == 1 and isinstance(tt.ops[0], ast.Eq):
                txt = ast.unparse(tt)
                if "prev" in txt or "old" in txt or "array_equal" in txt:
                    return "V2", f"exit on no progress `{txt}`"
            if isinstance(tt, ast.Call) and c01.callname(tt) in ("array_equal", "allclose"):
                return "V2", f"exit on no progress `{ast.unparse(tt)}`"
    return None, "neither a bounded counter (V1) nor an exit on no-progress (V2): termination is not established"


def _is_len_of(expr, name):
    for n in ast.walk(expr):
        if isinstance(n, ast.Call) and c01.callname(n) == "len" and n.args and isinstance(n.args[0], ast.Name) \
                and n.args[0].id == name:
            return True
    return False


def _factor_kind(e, xname, defs=None, depth=0):
    txt = ast.unparse(e).replace(" ", "")
    if txt in (f"len({xname})", "len(candidates)", f"{xname}.shape[0]", "candidates.shape[0]", "len(y)", "y.shape[0]"):
        return "samples"
    if txt in ("len(y.T)", "y.shape[1]", "len(annotators)", "n_annotators", "y.T.shape[0]"):
        return "annotators"
    if isinstance(e, ast.Name) and defs and depth < 4 and len(defs.get(e.id, ())) == 1:
        return _factor_kind(defs[e.id][0], xname, defs, depth + 1)
    if isinstance(e, ast.IfExp) and isinstance(e.test, ast.Compare) and len(e.test.ops) == 1 \
            and isinstance(e.test.left, ast.Name) and e.test.left.id == "candidates" \
            and isinstance(e.test.comparators[0], ast.Constant) and e.test.comparators[0].value is None:
        none_arm, given_arm = (e.body, e.orelse) if isinstance(e.test.ops[0], ast.Is) else (e.orelse, e.body)
        kn, kg = _factor_kind(none_arm, xname, defs, depth + 1), _factor_kind(given_arm, xname, defs, depth + 1)
        if kn == kg == "samples" and not _is_len_of(none_arm, "candidates") and not _is_len_of(given_arm, xname):
            return "samples"
        if kn == kg == "annotators":
            return "annotators"
        return "case-mismatch"
    return None


def _local_defs(fnode):
    out = {}
    for n in ast.walk(fnode):
        if isinstance(n, ast.Assign) and len(n.targets) == 1 and isinstance(n.targets[0], ast.Name):
            out.setdefault(n.targets[0].id, []).append(n.value)
        elif isinstance(n, (ast.AugAssign, ast.For)):
            for t in ast.walk(n.target):
                if isinstance(t, ast.Name):
                    out.setdefault(t.id, []).extend([None, None])
    return out


# ---------------------------------------------------------------------------
# 3-valued evaluation of the candidates x annotators case split
KINDS = ("none", "1d", "2d")


def eval3(t, env):
    """True / False / None(unknown) for a test over the argument kinds in env
    (name -> "none" | "1d" | "2d" | "array")."""
    if isinstance(t, ast.UnaryOp) and isinstance(t.op, ast.Not):
        v = eval3(t.operand, env)
        return None if v is None else (not v)
    if isinstance(t, ast.BoolOp):
        vals = []
        for v in t.values:
            r = eval3(v, env)
            if isinstance(t.op, ast.And) and r is False:
                return False
            if isinstance(t.op, ast.Or) and r is True:
                return True
            vals.append(r)
        if any(v is None for v in vals):
            return None
        return all(vals) if isinstance(t.op, ast.And) else any(vals)
    if isinstance(t, ast.Name) and isinstance(env.get(t.id), tuple) and env[t.id][0] == "bool":
        return env[t.id][1]
    if isinstance(t, ast.Constant) and isinstance(t.value, bool):
        return t.value
    if isinstance(t, ast.Compare) and len(t.ops) == 1:
        l, r, op = t.left, t.comparators[0], t.ops[0]
        if isinstance(l, ast.Name) and l.id in env and isinstance(r, ast.Constant) and r.value is None \
                and isinstance(op, (ast.Is, ast.IsNot, ast.Eq, ast.NotEq)):
            isn = env[l.id] == "none"
            return isn if isinstance(op, (ast.Is, ast.Eq)) else not isn
        if isinstance(l, ast.Attribute) and l.attr == "ndim" and isinstance(l.value, ast.Name) and l.value.id in env \
                and isinstance(r, ast.Constant) and isinstance(r.value, int) and isinstance(op, (ast.Eq, ast.NotEq)):
            k = env[l.value.id]
            if k in ("1d", "2d"):
                eq = int(k[0]) == r.value
                return eq if isinstance(op, ast.Eq) else not eq
            return None
    return None


def _terminates(body):
    return bool(body) and isinstance(body[-1], (ast.Return, ast.Raise))


def run_cases(stmts, env, outcomes, depth=0):
    """Execute a statement list over one argument case, path by path; record for every
    reachable `return a, b, c` whether b is None.  Returns the environments that fall
    through the end of the list."""
    envs = [dict(env)]
    for st in stmts:
        nxt = []
        for env in envs:
            if isinstance(st, ast.Return):
                if isinstance(st.value, ast.Tuple) and len(st.value.elts) == 3:
                    e = st.value.elts[1]
                    if isinstance(e, ast.Constant) and e.value is None:
                        outcomes.add("none")
                    elif isinstance(e, ast.Name) and env.get(e.id) == "none":
                        outcomes.add("none")
                    else:
                        outcomes.add("exists")
                else:
                    outcomes.add("?")
                continue
            if isinstance(st, ast.Raise):
                continue
            if isinstance(st, ast.Assign) and len(st.targets) == 1 and isinstance(st.targets[0], ast.Name):
                v = st.value
                env = dict(env)
                b3 = eval3(v, env) if isinstance(v, (ast.Compare, ast.BoolOp, ast.UnaryOp)) else None
                if b3 is not None:
                    env[st.targets[0].id] = ("bool", b3)
                elif isinstance(v, ast.Constant) and v.value is None:
                    env[st.targets[0].id] = "none"
                elif isinstance(v, ast.Name) and v.id in env:
                    env[st.targets[0].id] = env[v.id]
                elif st.targets[0].id in env:
                    env[st.targets[0].id] = "array"
                nxt.append(env)
                continue
            if isinstance(st, ast.If):
                r = eval3(st.test, env)
                if r is not False:
                    nxt += run_cases(st.body, env, outcomes, depth + 1)
                if r is not True:
                    nxt += run_cases(st.orelse, env, outcomes, depth + 1)
                continue
            nxt.append(env)
        # de-duplicate
        seen, envs = set(), []
        for e in nxt:
            k = tuple(sorted(e.items()))
            if k not in seen:
                seen.add(k)
                envs.append(e)
        if not envs:
            break
    return envs


def mapping_table(tc):
    ps = [a for a in tc.params() if a != "self"]
    cn, an = ps[0], ps[1]
    table = {}
    for c in KINDS:
        for a in KINDS:
            out = set()
            run_cases(tc.node.body, {cn: c, an: a}, out)
            table[(c, a)] = out
    return table


def path_condition(tree, stmt):
    """[(test, polarity)] under which stmt executes: enclosing If branches and
    preceding sibling `if t: ...return/raise` guards."""
    conds = []
    cur = stmt
    while True:
        blk = tree.block_of.get(cur)
        if blk is None:
            break
        owner, field, idx = blk
        sibs = getattr(owner, field) if not isinstance(owner, ast.FunctionDef) or field == "body" else []
        for prev in sibs[:idx]:
            if isinstance(prev, ast.If) and _terminates(prev.body) and not prev.orelse:
                conds.append((prev.test, False))
            elif isinstance(prev, ast.If) and prev.orelse and _terminates(prev.orelse) and not _terminates(prev.body):
                conds.append((prev.test, True))
        if isinstance(owner, ast.If):
            conds.append((owner.test, field == "body"))
        if isinstance(owner, ast.FunctionDef):
            break
        cur = owner
    return conds


def check_translation_cases(report, rule, tc, fq, roles, call):
    """Every statement that indexes with / through the mapping runs on exactly the
    argument cases in which _transform_cand_annot returns a mapping."""
    table = mapping_table(tc)
    bad_table = {k: v for k, v in table.items() if v not in ({"none"}, {"exists"})}
    mp = roles[1]
    args = call.args
    kw = {k.arg: k.value for k in call.keywords}
    ps = [a for a in tc.params() if a != "self"]
    cexpr = args[0] if args else kw.get(ps[0])
    aexpr = args[1] if len(args) > 1 else kw.get(ps[1])
    if not isinstance(cexpr, ast.Name) or not isinstance(aexpr, ast.Name) or bad_table:
        report.add(rule, fq.qual, "mapping case table derivable", f"{fq.file}:{call.lineno}", False,
                   detail=f"table={ {k: sorted(v) for k, v in bad_table.items()} } call={ast.unparse(call)[:80]}")
        return
    tree = FuncTree(fq.node)
    sites = []
    for n in ast.walk(fq.node):
        if isinstance(n, ast.Assign) and n.lineno > call.lineno:
            # results leave candidate space by a scatter `out[.., mapping, ..] = res` or an index
            # translation `mapping[idx]`; gathers INTO candidate space (A_perf rows) are not judged here
            uses = [x for x in ast.walk(n.value) if isinstance(x, ast.Subscript) and isinstance(x.value, ast.Name)
                    and x.value.id == mp]
            uses += [t for t in n.targets if isinstance(t, ast.Subscript) and mp in names_in(t.slice)]
            if uses:
                sites.append(n)
    for n in sites:
        conds = path_condition(tree, n)
        wrong = []
        for (c, a), out in sorted(table.items()):
            env = {cexpr.id: c, aexpr.id: a, mp: "none" if out == {"none"} else "array"}
            vals = [(eval3(t, env), pol) for t, pol in conds]
            definitely_not = any(v is not None and v != pol for v, pol in vals)
            definitely = all(v is not None and v == pol for v, pol in vals)
            if out == {"exists"} and definitely_not:
                wrong.append(f"candidates={c}, annotators={a}: a mapping exists but the translation is skipped")
            if out == {"none"} and definitely and conds:
                wrong.append(f"candidates={c}, annotators={a}: there is no mapping but the translation runs")
        report.add(rule, fq.qual, f"`{norm_stmt(n, 60)}` runs exactly when a mapping exists", f"{fq.file}:{n.lineno}",
                   not wrong, detail="; ".join(wrong[:3]) if wrong else
                   "guard agrees with _transform_cand_annot on all 9 candidates x annotators cases")



def check_inner_candidates_available(p, report, rule):
    sq = p.get_method("SingleAnnotatorWrapper", "query")
    if sq is None:
        raise AnalysisError("SingleAnnotatorWrapper.query vanished")
    roles = None
    for n in ast.walk(sq.node):
        if isinstance(n, ast.Assign) and isinstance(n.value, ast.Call) and c01.callname(n.value) == "_transform_cand_annot" \
                and isinstance(n.targets[0], (ast.Tuple, ast.List)) and len(n.targets[0].elts) == 3:
            roles = [e.id if isinstance(e, ast.Name) else None for e in n.targets[0].elts]
    if roles is None or roles[2] is None:
        raise AnalysisError("SingleAnnotatorWrapper.query: _transform_cand_annot unpacking vanished")
    avail = roles[2]
    masks = set()
    for n in ast.walk(sq.node):
        if isinstance(n, ast.Assign) and len(n.targets) == 1 and isinstance(n.targets[0], ast.Name) \
                and avail in names_in(n.value) and any(isinstance(c, ast.Call) and (c01.callname(c) or "").split(".")[-1] in ("any", "sum")
                                                        for c in ast.walk(n.value)):
            masks.add(n.targets[0].id)
    inner = [c for c in ast.walk(sq.node) if isinstance(c, ast.Call) and isinstance(c.func, ast.Attribute) and c.func.attr == "query"
             and "strategy" in ast.unparse(c.func.value)]
    if not inner:
        raise AnalysisError("SingleAnnotatorWrapper.query: call of the wrapped strategy vanished")
    ck = next((k.value for k in inner[0].keywords if k.arg == "candidates"), None)
    defs = []
    if isinstance(ck, ast.Name):
        defs = [n.value for n in ast.walk(sq.node) if isinstance(n, ast.Assign)
                and any(isinstance(t, ast.Name) and t.id == ck.id for t in n.targets)]
    elif ck is not None:
        defs = [ck]
    flat = []
    for d in defs:
        flat += [d.body, d.orelse] if isinstance(d, ast.IfExp) else [d]
    if not flat:
        report.add(rule, sq.qual, "candidates of the wrapped strategy", f"{sq.file}:{inner[0].lineno}", False, detail="not found")
    for d in flat:
        okd = isinstance(d, ast.Subscript) and bool(names_in(d.slice) & masks)
        report.add(rule, sq.qual, f"candidates `{norm_stmt(d, 50)}` have an available annotator", f"{sq.file}:{d.lineno}", okd,
                   detail=f"selected by `{sorted(masks)[0] if masks else '?'}`" if okd else
                   "samples without any available annotator are offered to the wrapped strategy: if it picks one, fewer pairs are "
                   "reachable than the batch needs (same pair returned twice / IndexError / the former endless loop)")


def check_assignment_capped(p, report, rule):
    """The number of annotators assigned to a chosen sample never exceeds the number available for
    it: every definition of the returned per-sample count is np.minimum(<available count>, ...)."""
    sa = p.get_class("SingleAnnotatorWrapper")
    na = c01.method_by_role(sa, "_n_to_assign_annotators", lambda n: c01._calls(n, {"minimum"}) and any(
        isinstance(x, (ast.For, ast.While)) for x in ast.walk(n)))
    if na is None:
        raise AnalysisError("SingleAnnotatorWrapper: annotator-assignment helper vanished")
    # the count vector: what is returned, or (helper inlined into its caller) what the selection loop indexes
    rets = {n.value.id for n in ast.walk(na.node) if isinstance(n, ast.Return) and isinstance(n.value, ast.Name)}
    mins = {t.id for n in ast.walk(na.node) if isinstance(n, ast.Assign) and isinstance(n.value, ast.Call)
            and c01.callname(n.value) in ("minimum", "np.minimum") for t in n.targets if isinstance(t, ast.Name)}
    names = (rets & mins) or mins
    # available counts: np.sum(A, axis=1) and what is selected from it
    avail = set()
    for _ in range(3):
        for n in ast.walk(na.node):
            if isinstance(n, ast.Assign) and len(n.targets) == 1 and isinstance(n.targets[0], ast.Name):
                v = n.value
                txt = ast.unparse(v).replace(" ", "")
                if ("sum(" in txt and "axis=1" in txt) or (names_in(v) & avail and isinstance(v, (ast.Subscript, ast.Name))):
                    avail.add(n.targets[0].id)
    k = 0
    for n in ast.walk(na.node):
        if isinstance(n, ast.Assign) and any(isinstance(t, ast.Name) and t.id in names for t in n.targets):
            v = n.value
            capped = isinstance(v, ast.Call) and c01.callname(v) in ("minimum", "np.minimum") and any(
                (names_in(a) & avail) or ("sum(" in ast.unparse(a) and "axis=1" in ast.unparse(a).replace(" ", "")) for a in v.args)
            k += 1
            report.add(rule, na.qual, f"`{norm_stmt(n, 60)}` is capped by the available annotators", f"{na.file}:{n.lineno}", capped,
                       detail="np.minimum(<available>, ...)" if capped else
                       "the per-sample annotator count is not limited by the number of available annotators: a sample is "
                       "assigned more annotators than it has, the selection loop then falls through to another sample's pairs")
    if k == 0:
        raise AnalysisError("annotator-assignment helper: no definition of the per-sample count found")
    # the number of pairs compared with the batch size is the sum of the (capped) per-sample counts
    cmp_names = set()
    for n in ast.walk(na.node):
        if isinstance(n, (ast.If, ast.While)) and isinstance(n.test, ast.Compare) and "batch_size" in names_in(n.test):
            cmp_names |= {x for x in names_in(n.test) if x != "batch_size"}
    for nm in sorted(cmp_names):
        for n in ast.walk(na.node):
            if isinstance(n, ast.Assign) and any(isinstance(t, ast.Name) and t.id == nm for t in n.targets):
                v = n.value
                oks = isinstance(v, ast.Call) and c01.callname(v) in ("sum", "np.sum") and bool(names_in(v) & names)
                report.add(rule, na.qual, f"pair count `{norm_stmt(n, 60)}` sums the capped counts", f"{na.file}:{n.lineno}", oks,
                           detail="sum of the per-sample counts" if oks else
                           "the number compared with the batch size is not the sum of the capped per-sample counts: the raising "
                           "loop is skipped although fewer pairs are assigned than the batch needs (IndexError in the selection loop)")


def avail_names_early(tc):
    out = set()
    for n in ast.walk(tc.node):
        if isinstance(n, ast.Return) and isinstance(n.value, ast.Tuple) and len(n.value.elts) == 3 \
                and isinstance(n.value.elts[2], ast.Name):
            out.add(n.value.elts[2].id)
    return out


def run(p, report, tier):
    report.rule("R7.6", "in the candidates x annotators case split, a size expression uses len(candidates) exactly on "
                "the paths where candidates are given and never len(X) there (path facts decide which case a "
                "statement belongs to)", floor=6)
    report.rule("R7.1", "both base-class methods (_validate_data, _transform_cand_annot) definitely assign their "
                "results on every feasible combination of candidates (None/1-d/2-d) x annotators (None/1-d/2-d), and "
                "the batch size is clipped to the number of candidate pairs", floor=4)
    report.rule("R7.2", "every definition of the availability mask A_cand has a boolean element type by construction "
                "(np.full(shape, True|False), comparison, is_unlabeled, boolean slice, dtype=bool); a constructor "
                "inheriting the dtype of y is reported", floor=6)
    report.rule("R7.3", "unavailable pairs are NaN before utilities are combined; in _query_annotators every chosen "
                "pair is NaN in all later steps and the mask precedes the next selection (R1.4/R2.1)", floor=3)
    report.rule("R7.4", "every while loop of the package is in the syntactically terminating class (V1 bounded "
                "counter / V2 exit on no progress)", floor=2)
    report.rule("R7.5", "returned sample indices are translated CAND->XROW through the mapping exactly on the mapping "
                "path; the annotator column is never translated", floor=3)
    base = p.get_class("MultiAnnotatorPoolQueryStrategy")
    vd = base.methods.get("_validate_data")
    tc = base.methods.get("_transform_cand_annot")
    if vd is None or tc is None:
        raise AnalysisError("MultiAnnotatorPoolQueryStrategy helpers vanished")
    # ---------------- R7.1
    for f in (vd, tc):
        da = DefiniteAssignment(_it(f.node)).run()
        report.add("R7.1", f.qual, "results definitely assigned on all 3x3 argument combinations", f"{f.file}:{f.node.lineno}",
                   not da.reports, detail="; ".join(f"{k} unbound where {v[1]}" for k, v in da.reports.items()))
    ok, why = c01.has_clip(vd.node, "batch_size", resolve=c01.helper_resolver(p, vd))
    report.add("R7.1", vd.qual, "batch_size clipped to the number of candidate pairs", f"{vd.file}:{vd.node.lineno}", ok, detail=why)
    c01.check_clip_bound_counts_rows(report, "R7.1", vd, "batch_size", two_d=("candidates", "X", "y"))
    c01.check_indices_results(p, report, "R7.1")
    # the clip bound is assigned in every branch of the annotators x candidates split
    # case-split agreement: both methods test the same atoms on candidates/annotators
    def atoms(fn):
        out = set()
        for n in ast.walk(fn.node):
            if isinstance(n, ast.If):
                for c in ast.walk(n.test):
                    if isinstance(c, ast.Compare) and (names_in(c) & {"candidates", "annotators"}):
                        txt = ast.unparse(c).replace("is not None", "is None")
                        out.add(txt)
        return out
    a1, a2 = atoms(vd), atoms(tc)
    need = {"candidates is None", "annotators is None", "annotators.ndim == 1"}
    report.add("R7.1", "MultiAnnotatorPoolQueryStrategy", "siblings split on the same atoms", f"{vd.file}:{vd.node.lineno}",
               need <= a1 and need <= a2, detail=f"_validate_data: {sorted(a1)}; _transform_cand_annot: {sorted(a2)}")
    # ---------------- R7.6 case consistency of size expressions
    report_rule = "R7.6"
    xname = vd.params()[1] if len(vd.params()) > 1 else "X"

    class SizeCases(MustAnalysis):
        def __init__(self, fnode, targets):
            super().__init__(fnode)
            self.targets = targets
            self.seen = []

        def _apply(self, stmt, states, pseudo=None):
            if pseudo is None and isinstance(stmt, ast.Assign) and any(
                    isinstance(t, ast.Name) and t.id in self.targets for t in stmt.targets):
                for st in states:
                    self.seen.append((stmt, st.facts))
            return super()._apply(stmt, states, pseudo)
    from ..paths import Const
    for fn, targets in ((vd, {"n_candidate_pairs"}), (tc, avail_names_early(tc))):
        clipn = None
        if fn is vd:
            # the clip bound: the name compared with batch_size in the clip
            for n in ast.walk(fn.node):
                if isinstance(n, ast.If) and isinstance(n.test, ast.Compare) and "batch_size" in names_in(n.test):
                    others = [x for x in names_in(n.test) if x != "batch_size"]
                    if others:
                        clipn = others[0]
            targets = {clipn} if clipn else targets
        sc = SizeCases(fn.node, targets).run()
        judged = set()
        for stmt, facts in sc.seen:
            cand_none = facts.allowed.get("candidates") == frozenset([Const(None)])
            cand_given = Const(None) in facts.excluded.get("candidates", frozenset())
            ns = names_in(stmt.value)
            bad = None
            if cand_given and xname in ns and "candidates" not in ns and _is_len_of(stmt.value, xname):
                bad = f"candidates are given on this path but the size is taken from len({xname})"
            if cand_none and _is_len_of(stmt.value, "candidates"):
                bad = "candidates is None on this path but len(candidates) is used"
            if bad is None and fn is vd and isinstance(stmt.value, ast.BinOp) and isinstance(stmt.value.op, ast.Mult):
                defs = _local_defs(fn.node)
                kinds = [_factor_kind(stmt.value.left, xname, defs), _factor_kind(stmt.value.right, xname, defs)]
                if sorted(k for k in kinds if k) != ["annotators", "samples"]:
                    bad = f"a pair count is (number of samples) x (number of annotators); found factors {kinds}"
            key = (id(stmt))
            if key in judged and bad is None:
                continue
            judged.add(key)
            report.add(report_rule, fn.qual, f"size expression `{norm_stmt(stmt, 70)}`", f"{fn.file}:{stmt.lineno}",
                       bad is None, detail=bad or "sample factor agrees with the candidates case of its branch")
    # ---------------- R7.2
    avail_names = set()
    for n in ast.walk(tc.node):
        if isinstance(n, ast.Return) and isinstance(n.value, ast.Tuple) and len(n.value.elts) == 3 \
                and isinstance(n.value.elts[2], ast.Name):
            avail_names.add(n.value.elts[2].id)
    if not avail_names:
        raise AnalysisError("_transform_cand_annot: availability result not found")
    unl_names = {t.id for n in ast.walk(tc.node) if isinstance(n, ast.Assign) and isinstance(n.value, ast.Call)
                 and c01.callname(n.value) == "is_unlabeled" for t in n.targets if isinstance(t, ast.Name)}
    bool_names = {"annotators"} | unl_names
    # annotators (2-d) is validated with dtype=bool in _validate_data
    ann_ok = any(isinstance(n, ast.Assign) and isinstance(n.value, ast.Call) and c01.callname(n.value) == "check_array"
                 and any(k.arg == "dtype" and ast.unparse(k.value) == "bool" for k in n.value.keywords)
                 and any(isinstance(t, ast.Name) and t.id == "annotators" for t in n.targets) for n in ast.walk(vd.node))
    report.add("R7.2", vd.qual, "2-d annotators validated as boolean", f"{vd.file}:{vd.node.lineno}", ann_ok)
    for n in ast.walk(tc.node):
        if isinstance(n, ast.Assign) and any(isinstance(t, ast.Name) and t.id in avail_names for t in n.targets):
            okb = is_bool_def(n.value, bool_names)
            report.add("R7.2", tc.qual, f"`{norm_stmt(n, 70)}`", f"{tc.file}:{n.lineno}", okb,
                       detail="boolean by construction" if okb else
                       "the availability mask inherits a non-boolean dtype (e.g. of y): `~A` raises for float arrays")
    # ---------------- R7.3 / R7.5 on the wrapper and IntervalEstimationThreshold
    sa = p.get_class("SingleAnnotatorWrapper")
    q = c01.method_by_role(sa, "_query_annotators", lambda n: c01._calls(n, {"rand_argmax"}) and any(isinstance(x, (ast.For, ast.While)) for x in ast.walk(n)))
    g = c01.method_by_role(sa, "_get_order_preserving_s_query", lambda n: c01._calls(n, {"rankdata"}))
    sq = sa.methods.get("query")
    ie = p.get_method("IntervalEstimationThreshold", "query")
    funcs = [q]
    facts = {id(q.node): c01.FnFacts(q)}
    before = len(report.obligations)
    c02.check_loops(p, report, funcs, facts, rule21="R7.3", rule22="R7.3")
    for rec in c01.loop_records(funcs, facts):
        f, ff, L, S, rnames, acc, edges, fw = rec
        carried = closure(c01.operand_names(S, ff.locs), edges) & fw
        report.add("R7.3", f.qual, f"operand of {site_id(S, 50)} depends on earlier picks", f"{f.file}:{S.lineno}",
                   bool(carried), detail=", ".join(sorted(carried)))
        # the chosen pair is NaN afterwards: a NaN store indexed by the picks
        nan_masks = [n for n in ast.walk(L) if isinstance(n, ast.Assign) and c01.is_nan_expr(n.value)
                     and isinstance(n.targets[0], ast.Subscript) and (index_names(n.targets[0]) & c01.pick_derived(L, ff, rnames | acc))]
        report.add("R7.3", f.qual, f"chosen pair set to NaN after {site_id(S, 40)}", f"{f.file}:{S.lineno}", bool(nan_masks),
                   detail="NaN store indexed by the picks" if nan_masks else
                   "no NaN store indexed by the chosen pair: the pair can be selected again / is not NaN in later rows")
        # the mask covers all later steps: first index is a full slice
        for n in ast.walk(L):
            if isinstance(n, ast.Assign) and c01.is_nan_expr(n.value) and isinstance(n.targets[0], ast.Subscript):
                sl = n.targets[0].slice
                full = isinstance(sl, ast.Tuple) and isinstance(sl.elts[0], ast.Slice) and sl.elts[0].lower is None \
                    and sl.elts[0].upper is None
                report.add("R7.3", f.qual, f"mask `{norm_stmt(n, 60)}` covers all later steps", f"{f.file}:{n.lineno}", full)
    def tca_roles(fnode):
        """(candidates, mapping, availability) names bound from _transform_cand_annot(...)"""
        for n in ast.walk(fnode):
            if isinstance(n, ast.Assign) and isinstance(n.value, ast.Call) and c01.callname(n.value) == "_transform_cand_annot" \
                    and isinstance(n.targets[0], ast.Tuple) and len(n.targets[0].elts) == 3 \
                    and all(isinstance(e, ast.Name) for e in n.targets[0].elts):
                return tuple(e.id for e in n.targets[0].elts)
        return (None, None, None)
    ie_roles = tca_roles(ie.node)
    sq_roles = tca_roles(sq.node)
    if ie_roles[2] is None or sq_roles[1] is None:
        raise AnalysisError("C07: _transform_cand_annot result unpacking vanished")
    gparams = [a for a in g.params() if a != "self"]
    for f, avail in ((g, gparams[0] if gparams else "A"), (ie, ie_roles[2])):
        tree = FuncTree(f.node)
        masks = [n for n in ast.walk(f.node) if isinstance(n, ast.Assign) and c01.is_nan_expr(n.value)
                 and isinstance(n.targets[0], ast.Subscript) and ("~" + avail) in ast.unparse(n.targets[0].slice).replace(" ", "")]
        report.add("R7.3", f.qual, "unavailable pairs are set to NaN", f"{f.file}:{f.node.lineno}", bool(masks),
                   detail=norm_stmt(masks[0], 60) if masks else "no NaN store at ~" + avail)
    # R7.5 translation in SingleAnnotatorWrapper.query and IntervalEstimationThreshold.query
    mp = sq_roles[1]
    ret_names = {x.id for n in ast.walk(sq.node) if isinstance(n, ast.Return) and n.value is not None
                 for x in ast.walk(n.value) if isinstance(x, ast.Name)}

    def col_stores(k):
        out = []
        for n in ast.walk(sq.node):
            if isinstance(n, ast.Assign) and isinstance(n.targets[0], ast.Subscript) and isinstance(n.targets[0].value, ast.Name) \
                    and n.targets[0].value.id in ret_names and isinstance(n.targets[0].slice, ast.Tuple) \
                    and len(n.targets[0].slice.elts) == 2 and isinstance(n.targets[0].slice.elts[0], ast.Slice) \
                    and isinstance(n.targets[0].slice.elts[1], ast.Constant) and n.targets[0].slice.elts[1].value == k:
                out.append(n)
        return out
    tr = col_stores(0)
    ok_tr = bool(tr) and all(any(isinstance(x, ast.Subscript) and isinstance(x.value, ast.Name) and x.value.id == mp
                                 for x in ast.walk(n.value)) for n in tr)
    col = col_stores(1)
    ok_col = bool(col) and all(mp not in names_in(n.value) for n in col)
    report.add("R7.5", sq.qual, "sample column translated through mapping, annotator column copied", f"{sq.file}:{sq.node.lineno}",
               ok_tr and ok_col and len(tr) == len(col))
    stree = FuncTree(sq.node)
    inner_res = {t.id for n in ast.walk(sq.node) if isinstance(n, ast.Assign) and isinstance(n.value, ast.Call)
                 and c01.callname(n.value) == q.name for t in n.targets if isinstance(t, ast.Name)}
    none_ret = [n for n in ast.walk(sq.node) if isinstance(n, ast.Return) and isinstance(n.value, ast.Name)
                and n.value.id in inner_res]
    guarded = False
    for n in none_ret:
        for (s_, owner, field, idx) in stree.ancestors(n):
            if isinstance(owner, ast.If) and field == "body" and ast.unparse(owner.test) == f"{mp} is None":
                guarded = True
    report.add("R7.5", sq.qual, "untranslated result is returned only when there is no mapping", f"{sq.file}:{sq.node.lineno}",
               guarded or not none_ret)
    for fq, roles in ((ie, ie_roles), (sq, sq_roles)):
        tcall = next((n.value for n in ast.walk(fq.node) if isinstance(n, ast.Assign) and isinstance(n.value, ast.Call)
                      and c01.callname(n.value) == "_transform_cand_annot"), None)
        if tcall is not None and roles[1] is not None:
            check_translation_cases(report, "R7.5", tc, fq, roles, tcall)
    for fq in (ie, sq):
        ff = c01.FnFacts(fq)
        before = len(report.obligations)
        c01.check_nan_discipline(p, report, fq, ff)
        for o in report.obligations[before:]:
            o.rule = "R7.5"
        if len(report.obligations) == before:
            report.add("R7.5", fq.qual, "utilities scattered through the mapping into a NaN-filled array",
                       f"{fq.file}:{fq.node.lineno}", False, detail="no scatter site found")
    # ---------------- R7.4 whole package
    nwhile = 0
    for f in p.all_functions():
        for w in [n for n in ast.walk(f.node) if isinstance(n, ast.While)]:
            nwhile += 1
            cls, why = while_class(w, f.node)
            # keyed by the owning class / module (not the method): moving the loop between methods of
            # one class neither hides nor re-reports it
            owner = (f.cls if isinstance(f.cls, str) else getattr(f.cls, "name", None)) or f.module.name.split(".")[-1]
            report.add("R7.4", owner, f"`{norm_stmt(w, 70)}`", f"{f.file}:{w.lineno}", cls is not None,
                       detail=f"in {f.qual}: " + (cls + ": " if cls else "") + why)
    # the annotator-assignment step (role: the helper that raises the per-sample annotator count with
    # np.minimum in a loop) iterates a bounded `for`, or a `while` of a terminating class
    na = c01.method_by_role(sa, "_n_to_assign_annotators", lambda n: c01._calls(n, {"minimum"}) and any(
        isinstance(x, (ast.For, ast.While)) for x in ast.walk(n)))
    if na is None:
        raise AnalysisError("SingleAnnotatorWrapper: annotator-assignment helper vanished")
    loops = [x for x in ast.walk(na.node) if isinstance(x, (ast.For, ast.While))]
    bad_loops = [x for x in loops if isinstance(x, ast.While) and while_class(x, na.node)[0] is None]
    report.add("R7.4", "SingleAnnotatorWrapper", "annotator-assignment step iterates a bounded loop", f"{na.file}:{na.node.lineno}",
               bool(loops) and not bad_loops,
               detail="; ".join(f"`{norm_stmt(x, 50)}` has no progress test" for x in bad_loops) or
               "for-loop over a finite range / while loop of a terminating class")
    report.rule("R7.7", "a requested number of annotators per sample is honoured up to what is available: every "
                "definition of the per-sample count in the annotator-assignment step is np.minimum(<available count>, ...)",
                floor=2)
    check_assignment_capped(p, report, "R7.7")
    report.rule("R7.8", "the multi-annotator base class and strategies partition labels with their own sentinel, never with "
                "the NaN default (shared with C09 R9.1): `is_unlabeled(y)` without the sentinel sees no missing pair for "
                "missing_label=-1", floor=3)
    from ..common import Report as _Report
    from . import c09 as _c09
    sub9 = _Report("C09")
    _c09.run(p, sub9, "quick")
    for o in sub9.obligations:
        if o.rule == "R9.1" and any(t in o.entity for t in ("MultiAnnotatorPoolQueryStrategy", "SingleAnnotatorWrapper",
                                                             "IntervalEstimationThreshold", "IntervalEstimationAnnotModel")):
            report.add("R7.8", o.entity, o.construct, o.loc, o.ok, detail=o.detail)
    report.rule("R7.9", "the wrapped strategy is only offered samples that have an available annotator, on the index path and "
                "on the feature-row path alike: every definition of the candidates handed to it is a selection by a mask "
                "derived from the availability matrix", floor=2)
    check_inner_candidates_available(p, report, "R7.9")
    for f in (sq, q, g, na, ie):
        if f is None:
            continue
        da = DefiniteAssignment(_it(f.node)).run()
        report.add("R7.1", f.qual, "all locals bound before use", f"{f.file}:{f.node.lineno}", not da.reports,
                   detail="; ".join(da.reports), nontrivial=False)
    report.rule("R7.10", "the sample the wrapped strategy chose is on top of its step on EVERY input: the store that forces it "
                "to the row maximum before the ordinal rank transform is unconditional (np.argmax breaks ties towards the first, "
                "the ordinal ranks towards the last entry, so `only if it is not the arg-max yet` picks another sample under "
                "ties and the per-sample annotator counts go wrong; shared with C20 R20.3)", floor=1)
    from . import c20 as _c20
    _sub20 = type(report)("C20")
    _c20.run(p, _sub20, "quick")
    for o in _sub20.obligations:
        if o.rule == "R20.3" and "forced to the row maximum" in o.construct:
            report.add("R7.10", o.entity, o.construct, o.loc, o.ok, detail=o.detail)
    report.assumptions += ["that n_annotators_per_sample is honoured numerically is not decided",
                           "R7.4 is a proof obligation, not a proof of divergence"]
