"""C01 - pool query returns a valid batch (size, distinct, only candidates).

Static clauses decided (see DESIGN.md section 3 C01):
  R1.1 validate-and-clip first, R1.3 NaN discipline of scatter targets,
  R1.4 loop-carried exclusion, R1.5 the masked picks are the returned picks,
  R1.7 definite assignment on every feasible path, R1.8 sampling without
  replacement.
"""
import ast
from ..astutil import inline_temporaries as _it

from ..astutil import FuncTree, dominates
from ..common import norm_stmt, site_id
from ..deps import names_in, base_name, index_names, dep_edges, closure, forward_closure
from ..index import ClassInfo, AnalysisError
from ..paths import DefiniteAssignment, local_names

SEL_ALWAYS = {"rand_argmax", "rand_argmin", "argmax", "argmin", "nanargmax", "nanargmin"}
CONVERSIONS = {"array", "asarray", "append", "concatenate", "list", "tuple", "astype", "flatten",
               "ravel", "reshape", "copy", "unravel_index", "atleast_1d", "int", "squeeze", "hstack",
               "sort", "unique", "delete"}

# R1.7: reads that are infeasible for a reason the path facts cannot see.
# One symbol per line, with the reason (confirmed by reading the code).
DA_EXCEPTIONS = {
    # key: (file, canonical texts of the statements that bind the local) - independent of the names of the
    # function and of its locals, so a renaming neither drops nor widens an exception
    ("skactiveml/pool/_expected_error_reduction.py",
     ("v1 = self._logloss_estimation(v2, v2)", "v1 = self._risk_estimation(v2, v3, self.cost_matrix_, v4[v5])")):
        "self.method is validated to one of the two literals in _validate_init_params before any estimate",
    ("skactiveml/pool/_badge.py", ("v1 = np.minimum(v2, np.square(v3))",)):
        "every call with a non-empty index list passes d_latest (Badge.query)",
    ("skactiveml/pool/_cost_embedding_al.py",
     ("v1 /= 2", "v1 = (v2.ravel() * (v3.ravel() - v4.ravel()) ** 2).sum()")):
        "max_iter >= 1 in the fixed parameter dict built by _alce",
    ("skactiveml/pool/_cost_embedding_al.py", ("for v1 in range(v2)",)):
        "max_iter >= 1 in the fixed parameter dict built by _alce (loop counter read after the loop)",
    ("skactiveml/pool/_cost_embedding_al.py", ("v1 = v2", "v1 = v2[v3]")):
        "n_init >= 1 in the fixed parameter dict built by _alce",
}


def binding_key(node, name):
    out = set()
    for a in ast.walk(node):
        if isinstance(a, ast.Assign) and any(isinstance(x, ast.Name) and x.id == name for t in a.targets for x in (
                t.elts if isinstance(t, (ast.Tuple, ast.List)) else [t])):
            out.add(norm_stmt(a, 100))
        elif isinstance(a, (ast.AugAssign, ast.AnnAssign)) and isinstance(a.target, ast.Name) and a.target.id == name:
            out.add(norm_stmt(a, 100))
        elif isinstance(a, ast.For) and any(isinstance(x, ast.Name) and x.id == name for x in ast.walk(a.target)):
            out.add(norm_stmt(a, 100))
    return tuple(sorted(out))


def callname(c):
    f = c.func
    return f.id if isinstance(f, ast.Name) else (f.attr if isinstance(f, ast.Attribute) else None)


def is_selection_call(c):
    n = callname(c)
    if n in SEL_ALWAYS:
        return True
    if n == "choice" and isinstance(c.func, ast.Attribute):
        pop = c.args[0] if c.args else None
        for k in c.keywords:
            if k.arg == "a":
                pop = k.value
        if isinstance(pop, (ast.List, ast.Tuple)) and all(isinstance(e, ast.Constant) for e in pop.elts):
            return False  # e.g. a Bernoulli mask choice([True, False], ...)
        return True
    return False


def pool_functions(p):
    out = []
    for f in p.all_functions():
        fl = f.file
        if (fl.startswith("skactiveml/pool/") and "/multiannotator/" not in fl) or fl.endswith("utils/_selection.py") \
                or (fl == "skactiveml/base.py" and f.cls is not None and f.cls.name in (
                    "PoolQueryStrategy", "SingleAnnotatorPoolQueryStrategy")):
            out.append(f)
    return out


def pool_query_entities(p):
    out = []
    for ci in p.exported_classes("skactiveml.pool"):
        f = p.find_method(ci, "query")
        if f is None:
            raise AnalysisError(f"{ci.name} has no query")
        out.append((ci, f))
    return out


# ---------------------------------------------------------------------------
# value flow (the returned indices ARE the picks, not merely depend on them)
# ---------------------------------------------------------------------------
def value_sources(e, locs):
    """Local names whose *value* (possibly converted / index-translated) is
    the value of expression e."""
    out = set()
    if e is None:
        return out
    if isinstance(e, ast.Name):
        if e.id in locs:
            out.add(e.id)
    elif isinstance(e, ast.Subscript):
        out |= value_sources(e.value, locs)
        out |= value_sources(e.slice, locs)  # mapping[picks]
    elif isinstance(e, ast.Tuple) or isinstance(e, ast.List):
        for x in e.elts:
            out |= value_sources(x, locs)
    elif isinstance(e, ast.Starred):
        out |= value_sources(e.value, locs)
    elif isinstance(e, ast.Call):
        n = callname(e)
        if n in CONVERSIONS:
            for a in e.args:
                out |= value_sources(a, locs)
            if isinstance(e.func, ast.Attribute):
                out |= value_sources(e.func.value, locs)
    elif isinstance(e, ast.IfExp):
        out |= value_sources(e.body, locs) | value_sources(e.orelse, locs)
    elif isinstance(e, ast.BinOp):
        out |= value_sources(e.left, locs) | value_sources(e.right, locs)
    elif isinstance(e, ast.ListComp):
        out |= value_sources(e.elt, locs)
        for g in e.generators:
            out |= value_sources(g.iter, locs)
    return out


def value_edges(fnode, locs):
    """name -> names it takes its value from; plus project calls feeding it."""
    edges = {}
    calls = {}  # name -> [(call node, tuple position or None)]

    def add(v, srcs):
        if v is not None:
            edges.setdefault(v, set()).update(srcs)

    def bind(t, value, pos=None):
        if isinstance(t, (ast.Tuple, ast.List)):
            if isinstance(value, (ast.Tuple, ast.List)) and len(value.elts) == len(t.elts):
                for a, b in zip(t.elts, value.elts):
                    bind(a, b)
            else:
                for i, a in enumerate(t.elts):
                    bind(a, value, pos=i)
            return
        b = base_name(t)
        if b is None:
            return
        add(b, value_sources(value, locs))
        if isinstance(value, ast.Call):
            calls.setdefault(b, []).append((value, pos))
        if isinstance(value, ast.Subscript) and isinstance(value.value, ast.Call):
            calls.setdefault(b, []).append((value.value, None))

    for n in ast.walk(fnode):
        if isinstance(n, ast.Assign):
            for t in n.targets:
                bind(t, n.value)
        elif isinstance(n, ast.AugAssign):
            bind(n.target, n.value)
        elif isinstance(n, ast.Call) and isinstance(n.func, ast.Attribute) and n.func.attr in (
                "append", "extend", "insert") and n.args:
            b = base_name(n.func.value)
            add(b, value_sources(n.args[-1], locs))
            if isinstance(n.args[-1], ast.Call):
                calls.setdefault(b, []).append((n.args[-1], None))
            if isinstance(n.args[-1], ast.Subscript) and isinstance(n.args[-1].value, ast.Call):
                calls.setdefault(b, []).append((n.args[-1].value, None))
    return edges, calls


def returned_index_exprs(fnode):
    out = []
    for n in ast.walk(fnode):
        if isinstance(n, ast.Return) and n.value is not None:
            if _in_nested(fnode, n):
                continue
            v = n.value
            if isinstance(v, ast.Tuple) and v.elts:
                out.append((n, v.elts[0]))
            else:
                out.append((n, v))
    return out


def _in_nested(fnode, node):
    for sub in ast.walk(fnode):
        if isinstance(sub, (ast.FunctionDef, ast.AsyncFunctionDef, ast.Lambda)) and sub is not fnode:
            for x in ast.walk(sub):
                if x is node:
                    return True
    return False


class FnFacts:
    def __init__(self, fi):
        self.fi = fi
        self.locs = local_names(fi.node) | set(fi.all_param_names())
        self.vedges, self.vcalls = value_edges(fi.node, self.locs)
        self.rets = returned_index_exprs(fi.node)
        seeds = set()
        self.ret_calls = []
        for _, e in self.rets:
            seeds |= value_sources(e, self.locs)
            if isinstance(e, ast.Call):
                self.ret_calls.append(e)
        # `return f(...)` whole-call returns
        for n in ast.walk(fi.node):
            if isinstance(n, ast.Return) and isinstance(n.value, ast.Call) and not _in_nested(fi.node, n):
                self.ret_calls.append(n.value)
        self.ret_closure = closure(seeds, self.vedges)


# ---------------------------------------------------------------------------
def selection_loops(fi, facts):
    """[(loop, selection call, result names)] for index-producing selection
    calls inside loops whose result is accumulated."""
    fnode = fi.node
    loops = [n for n in ast.walk(fnode) if isinstance(n, (ast.For, ast.While))]
    out = []
    for L in loops:
        for n in ast.walk(L):
            if not (isinstance(n, ast.Call) and is_selection_call(n)):
                continue
            inner = [l for l in loops if l is not L and any(x is n for x in ast.walk(l))
                     and any(x is l for x in ast.walk(L))]
            if inner:
                continue
            rnames = set()
            for st in ast.walk(L):
                if isinstance(st, ast.Assign) and any(x is n for x in ast.walk(st.value)):
                    for t in st.targets:
                        for e in (t.elts if isinstance(t, (ast.Tuple, ast.List)) else [t]):
                            b = base_name(e)
                            if b:
                                rnames.add(b)
                elif isinstance(st, ast.Expr) and isinstance(st.value, ast.Call) \
                        and isinstance(st.value.func, ast.Attribute) \
                        and st.value.func.attr in ("append", "extend", "insert") \
                        and any(x is n for x in ast.walk(st.value)):
                    b = base_name(st.value.func.value)
                    if b:
                        rnames.add(b)
            out.append((L, n, rnames))
    return out


def operand_names(S, locs):
    ops = set()
    if S.args:
        ops |= names_in(S.args[0])
    for k in S.keywords:
        if k.arg in ("a", "p"):
            ops |= names_in(k.value)
    n = callname(S)
    if n == "choice":
        for k in S.keywords:
            if k.arg == "p":
                ops |= names_in(k.value)
        if len(S.args) > 3:
            ops |= names_in(S.args[3])
    return {o for o in ops if o in locs}


def run(p, report, tier):
    report.rule("R1.1", "every exported pool query obtains its batch size from the unpacked result of _validate_data "
                "(which is the only place that clips to the number of candidates) before any other use of batch_size; "
                "the base-class validator contains the clip `if n_candidates < batch_size: batch_size = n_candidates`",
                floor=28)
    report.rule("R1.3", "every array that is scattered through the candidate mapping (U[..., mapping-derived index] = v) "
                "is allocated NaN-filled, so a non-candidate can never carry a number; other stores into such an "
                "array write NaN/-inf, whole rows, or use mapping-derived / accumulator indices", floor=25)
    report.rule("R1.4", "in every sequential selection loop the operand of the selection call depends, through a "
                "loop-carried definition, on the picks of earlier iterations (otherwise earlier picks cannot be "
                "excluded and an all-ties input returns duplicates)", floor=12)
    report.rule("R1.4m", "the exclusion of earlier picks is by an explicit mechanism: (M1) a NaN/0/False store indexed by "
                "the picks into the operand (or what it is computed from), also inside a project callee that receives "
                "the picks; (M2) shrinking the pool by the pick (np.delete / pool mask); (M3, sampling only) zero "
                "probability mass at distance-to-selected", floor=12)
    report.rule("R1.5", "the accumulator of picks that is used for masking is the value that flows to the returned "
                "indices (a function that masks with one tie-break and lets the caller re-derive the picks is reported)",
                floor=12)
    report.rule("R1.6", "index translation: positions selected over a pool that was shrunk by np.delete reach the "
                "returned indices only through a translating subscript T[positions]", floor=2)
    report.rule("R1.7", "no local is read before it is bound on any feasible path (branch-correlated) of any "
                "function of the pool package and the selection utilities", floor=150)
    report.rule("R1.8", "a generator .choice whose result flows to returned indices draws without replacement "
                "(replace=False literal) unless size is 1", floor=4)
    funcs = pool_functions(p)
    report.analysed["functions"] = len(funcs)
    facts = {id(f.node): FnFacts(f) for f in funcs}

    # ---- R1.7 ------------------------------------------------------------
    for f in funcs:
        nodes = [(f.qual, f.node)]
        for sub in ast.walk(f.node):
            if isinstance(sub, (ast.FunctionDef, ast.AsyncFunctionDef)) and sub is not f.node:
                nodes.append((f"{f.qual}.<locals>.{sub.name}", sub))
        for qual, node in nodes:
            da = DefiniteAssignment(_it(node)).run()
            if not da.reports:
                report.add("R1.7", qual, "all locals bound before use", f"{f.file}:{node.lineno}", True,
                           nontrivial=len(local_names(node)) > 3)
            for name, (n, why) in sorted(da.reports.items()):
                exc = DA_EXCEPTIONS.get((f.file, binding_key(node, name)))
                report.add("R1.7", qual, f"local '{name}' read before assignment", f"{f.file}:{n.lineno}",
                           exc is not None,
                           detail=("infeasible: " + exc) if exc else f"unbound on the path where: {why}")

    # ---- R1.1 ------------------------------------------------------------
    check_indices_results(p, report, "R1.1")
    check_clip(p, report)
    for ci, f in pool_query_entities(p):
        check_validate_first(p, report, ci, f)

    # ---- R1.4 / R1.5 -------------------------------------------------------
    n_loops = 0
    for rec in loop_records(funcs, facts):
        f, ff, L, S, rnames, acc, edges, fw = rec
        n_loops += 1
        ops = operand_names(S, ff.locs)
        back = closure(ops, edges)
        carried = back & fw
        ent = f.qual
        construct = f"loop `{norm_stmt(L, 60)}` selection {site_id(S, 70)}"
        report.add("R1.4", ent, construct, f"{f.file}:{S.lineno}", bool(carried),
                   detail=("operand depends on earlier picks via " + ", ".join(sorted(carried)[:5])) if carried
                   else "the operand of the selection never depends on the accumulator of earlier picks: "
                        "they cannot be excluded (duplicates under ties)")
        # R1.5: picks flow (as values) to the returned indices
        vfw = forward_closure(rnames, ff.vedges)
        flows = bool((vfw | rnames) & ff.ret_closure)
        recovered = False
        if not flows:
            recovered = picks_recovered_from_marks(p, f)
        report.add("R1.5", ent, construct, f"{f.file}:{S.lineno}", flows or recovered,
                   detail="picks flow to the returned indices" if flows else
                   "the function returns only the marked utility rows; every caller reads the picks off the marks "
                   "(position that is NaN in row i+1 but not in row i)" if recovered else
                   "the picks used for masking are not what the function returns; the caller has to re-derive "
                   "them from the utility rows with an independent tie-break")
    report.analysed["selection_loops"] = n_loops
    check_exclusion_mechanisms(p, report, funcs, facts)
    report.rule("R1.4c", "a callee that is handed only the latest pick (one-element list / subscript of the accumulator) "
                "together with the previous row carries that row's values into its result on every path "
                "(must value-flow through marker-propagating operations; shape-only constructors and NaN-erasing "
                "reductions do not carry), otherwise older picks lose their exclusion", floor=2)
    check_carried_exclusion(p, report, funcs, facts)
    # a zero-mass mask is not undone by a later power / shift before the draw (shared with C02 R2.3)
    from . import c02
    c02.check_zero_mask_preserved(p, Report_proxy(report, {"R2.3": "R1.4m"}), funcs, facts)
    report.analysed["nan_marked_reductions"] = check_nan_reductions(p, report, funcs, "R1.3")
    check_full_length_constants(p, report, funcs, facts, "R1.3")

    # ---- R1.3 ------------------------------------------------------------
    for f in funcs:
        check_nan_discipline(p, report, f, facts[id(f.node)])

    # ---- R1.6 ------------------------------------------------------------
    from . import c08
    c08.check_shrinking_pool(p, report, funcs, "R1.6")

    from . import c20
    sw = p.get_method("SubSamplingWrapper", "query")
    c20.check_subsampling_translation(p, report, sw, sw.qual, FuncTree(sw.node), "R1.6")

    # ---- R1.8 ------------------------------------------------------------
    check_choice_replace(p, report, funcs, facts)
    report.rule("R1.10", "what a query returns as indices is a one-dimensional ndarray on every path: not the python "
                "list the picks were collected in (a list survives on the feature-row path when only the mapping path "
                "converts it by fancy indexing), and not a (k, 1) array built from one-element arrays "
                "(`rand_argmax(...)` appended without `[0]`)", floor=30)
    from ..retkind import RetKinds, BAD
    for ci_, f_ in pool_query_entities(p):
        rk = RetKinds(f_.node).run()
        if not rk.returns:
            continue
        for st_, kinds, v_ in rk.returns:
            wrong = sorted((kinds & set(BAD)) - {"LIST_E"})
            report.add("R1.10", f"{ci_.name}.query", f"`{norm_stmt(st_, 50)}` returns a 1-d index array", f"{f_.file}:{st_.lineno}",
                       not wrong, detail=("kinds on the paths to this return: " + ", ".join(sorted(kinds))) if not wrong else
                       "on some path the returned indices are " + " / ".join(BAD[w] for w in wrong) +
                       f" (all kinds: {', '.join(sorted(kinds))})")
    report.rule("R1.9", "no utility row can become all-NaN through a 0/0 normalisation (rand_argmax then returns position 0 "
                "in every remaining step: duplicates): min-max denominators carry a positive constant (shared with C02 R2.7)",
                floor=2)
    from . import c02 as _c02
    _c02.check_minmax_offsets(p, report, funcs, "R1.9")
    # ---------------- round 6
    report.rule("R1.11", "what simple_batch returns was chosen by a selection primitive: every store into its returned index "
                "array is an allocation, rand_argmax / a generator draw, or a reshaping of itself - an `argsort`-based "
                "shortcut ranks NaN (non-candidates) among the numbers (shared with C18 R18.2)", floor=3)
    from . import c18 as _c18
    _sub18 = type(report)("C18")
    _c18.run(p, _sub18, "quick")
    for o in _sub18.obligations:
        if o.rule == "R18.2" and "returned indices" in o.construct:
            report.add("R1.11", o.entity, o.construct, o.loc, o.ok, detail=o.detail)
    report.rule("R1.14", "distinct picks need sequential selection: the indices a pool query returns are not the row-wise "
                "optimum of several utility rows taken in one call (shared with C02 R2.12)", floor=20)
    from . import c02 as _c02b
    _c02b.check_no_parallel_selection(p, Report_proxy(report, {"R2.12": "R1.14"}), funcs)
    report.rule("R1.12", "after the scatter through the candidate mapping nothing removes OFFERED samples from the utilities "
                "handed to simple_batch: a constant NaN / -inf store into that array (outside a selection loop) is indexed by "
                "the mapping role (its complement), never by labels or other data - the batch size was clipped to the number "
                "of candidates, so every masked candidate makes the batch shorter than min(batch_size, n_candidates)", floor=15)
    check_no_candidate_removal(p, report, funcs)
    report.rule("R1.13", "a utility is never the quotient by a count that may be zero: where an error / score is divided by a "
                "counter that starts at 0 and grows only under emptiness tests (or by the sum / length of a list filled "
                "that way), the division is guarded by a zero test of that counter (0/0 raises for python numbers and is "
                "NaN for numpy ones: the query fails, or the last remaining candidate gets NaN and is never returned)", floor=2)
    check_zero_guarded_quotients(p, report, funcs)
    report.assumptions += [
        "dependence is flow-insensitive inside a loop body (over-approximates real dependence: R1.4 is a necessary condition)",
        "custom loops filling all batch_size slots, termination of numerical subroutines and dtype of the result are not decided",
    ]


def pick_derived(L, ff, picks):
    """picks plus the locals that receive their values inside the loop
    (`i, j = picked[k]`, `idx = picked[k, 0]`)"""
    lv, _ = value_edges(L, ff.locs)
    out = set(picks) | forward_closure(set(picks), lv)
    for n in ast.walk(L):
        if isinstance(n, ast.Assign) and names_in(n.value) & out and isinstance(n.value, (ast.Subscript, ast.Name)):
            for t in n.targets:
                for e in (t.elts if isinstance(t, (ast.Tuple, ast.List)) else [t]):
                    if isinstance(e, ast.Name):
                        out.add(e.id)
    return out


def loop_records(funcs, facts):
    """Sequential selection loops: (f, facts, loop, selection call, result
    names, accumulators of picks, dependence edges of the body, forward
    dependence closure of the result)."""
    out = []
    for f in funcs:
        ff = facts[id(f.node)]
        for (L, S, rnames) in selection_loops(f, ff):
            edges = dep_edges(L.body)
            for k in list(edges):
                edges[k] = {x for x in edges[k] if x in ff.locs}
            fw = forward_closure(rnames, edges) if rnames else set()
            outside = outside_defs(f.node, L)
            # accumulator of picks: receives the *value* of the selection
            # result (append / store / conversion), defined before the loop
            lvedges, _ = value_edges(L, ff.locs)
            vacc = (forward_closure(rnames, lvedges) | rnames) if rnames else set()
            acc = {v for v in vacc if v in outside}
            if not rnames or not acc:
                continue  # not an accumulating selection (e.g. a local arg-max)
            out.append((f, ff, L, S, rnames, acc, edges, fw))
    return out


EXCL_VALUES = {"np.nan", "numpy.nan", "0", "0.0", "False", "True", "-np.inf", "np.inf", "-numpy.inf", "numpy.inf",
               "float('nan')", "np.NaN"}


def exclusion_statements(region, pick_names):
    """M1: stores of NaN/0/False/inf (or a mask flip) indexed by a
    pick-derived name;  M2: np.delete(..., <pick-derived>)."""
    out = []
    for n in ast.walk(region):
        if isinstance(n, ast.Assign):
            for t in n.targets:
                if isinstance(t, ast.Subscript) and (index_names(t) & pick_names) \
                        and ast.unparse(n.value).replace(" ", "") in EXCL_VALUES:
                    out.append((n, base_name(t), "M1"))
        elif isinstance(n, ast.Call) and callname(n) == "delete" and len(n.args) >= 2 \
                and (names_in(n.args[1]) & pick_names):
            out.append((n, None, "M2"))
    # M2 result: v = np.delete(v0, picks)
    res = []
    for (n, b, kind) in out:
        if kind == "M2":
            for st in ast.walk(region):
                if isinstance(st, ast.Assign) and any(x is n for x in ast.walk(st.value)):
                    for t in st.targets:
                        bb = base_name(t)
                        if bb:
                            res.append((st, bb, "M2"))
        else:
            res.append((n, b, kind))
    return res


def cond_context(tree, stmt, loop, counters=()):
    """(If node id, branch) pairs that guard `stmt` inside `loop`; tests that
    only distinguish the first iteration (`i == 0`, `i > 0`, `b > 0`) do not
    count: on the first iteration there are no earlier picks to exclude."""
    out = set()
    for (s_, owner, field, idx) in tree.ancestors(stmt):
        if owner is loop:
            break
        if isinstance(owner, ast.If) and field in ("body", "orelse") and tree.contains(loop, owner):
            t = owner.test
            if isinstance(t, ast.Compare) and len(t.ops) == 1 and isinstance(t.left, ast.Name) \
                    and isinstance(t.comparators[0], ast.Constant) and t.comparators[0].value in (0, 1) \
                    and t.left.id in counters:
                continue
            out.add((id(owner), field))
    return out


def callee_masked_args(p, f, call, pick_names):
    """Caller-side names of array arguments that the project callee masks
    (M1 store) at positions given by a parameter that receives the picks."""
    r = p.resolve_expr(f.module, call.func) if isinstance(call.func, (ast.Name, ast.Attribute)) else None
    if r is None or r[0] != "func":
        return set()
    g = r[1]
    params = g.params()
    bind = {}
    for i, a in enumerate(call.args):
        if i < len(params):
            bind[params[i]] = a
    for k in call.keywords:
        if k.arg:
            bind[k.arg] = k.value
    recv = {pn for pn, a in bind.items() if names_in(a) & pick_names}
    if not recv:
        return set()
    glocs = local_names(g.node) | set(g.all_param_names())
    gv, _ = value_edges(g.node, glocs)
    derived = forward_closure(recv, gv) | recv
    out = set()
    for (n, b, kind) in exclusion_statements(g.node, derived):
        if b in bind:
            bn = base_name(bind[b]) if not isinstance(bind[b], ast.Name) else bind[b].id
            if bn:
                out.add(bn)
    return out


def callee_exclusions(p, f, call, pick_names):
    """Does a project callee that receives a pick-derived argument exclude by
    M1/M2 on something that flows to its return value?"""
    r = p.resolve_expr(f.module, call.func) if isinstance(call.func, (ast.Name, ast.Attribute)) else None
    if r is None or r[0] != "func":
        return False
    g = r[1]
    params = g.params()
    recv = set()
    for i, a in enumerate(call.args):
        if (names_in(a) & pick_names) and i < len(params):
            recv.add(params[i])
    for k in call.keywords:
        if k.arg and (names_in(k.value) & pick_names):
            recv.add(k.arg)
    if not recv:
        return False
    gedges = dep_edges(g.node.body)
    glocs = local_names(g.node) | set(g.all_param_names())
    gv, _ = value_edges(g.node, glocs)
    derived_in_callee = forward_closure(recv, gv) | recv
    ex = exclusion_statements(g.node, derived_in_callee)
    if not ex:
        return False
    rets = set()
    for n in ast.walk(g.node):
        if isinstance(n, ast.Return) and n.value is not None:
            rets |= names_in(n.value)
    back = closure(rets, gedges)
    return any(b in back for (_, b, _) in ex)


def check_carried_exclusion(p, report, funcs, facts, rule="R1.4c"):
    """A project callee that is handed only the LATEST pick (a one-element
    list / a subscript of the accumulator) can mask only that one; older
    picks stay excluded only if the previous row it also receives is carried
    into its result on every path (NaN through minimum, zero through
    minimum).  Obligation: must value-flow from that parameter to every
    return of the callee."""
    from ..carry import MustCarry
    n = 0
    for rec in loop_records(funcs, facts):
        f, ff, L, S, rnames, acc, edges, fw = rec
        picks = rnames | acc
        for st in ast.walk(L):
            if not (isinstance(st, ast.Assign) and isinstance(st.value, ast.Call)):
                continue
            c = st.value
            if c is S or not isinstance(c.func, (ast.Name, ast.Attribute)):
                continue
            r = p.resolve_expr(f.module, c.func)
            if r is None or r[0] != "func":
                continue
            g = r[1]
            params = g.params()
            bind = {}
            for i, a in enumerate(c.args):
                if i < len(params):
                    bind[params[i]] = a
            for k in c.keywords:
                if k.arg:
                    bind[k.arg] = k.value
            latest = [pn for pn, a in bind.items() if (names_in(a) & picks) and (
                isinstance(a, ast.List) and len(a.elts) == 1 or
                (isinstance(a, ast.Subscript) and not isinstance(a.slice, ast.Slice)))]
            whole = [pn for pn, a in bind.items() if isinstance(a, ast.Name) and a.id in acc]
            if not latest or whole:
                continue
            res = {base_name(t) for t in st.targets if base_name(t)}
            carried_fw = forward_closure(res, edges) | res
            carry = [pn for pn, a in bind.items() if pn not in latest and (names_in(a) & carried_fw)
                     and not (names_in(a) & picks)]
            if not carry:
                continue
            # the call's result must feed the selection operand
            ops = operand_names(S, ff.locs)
            if not (res & (closure(ops, edges) | ops)):
                continue
            # the carried row lives in a container of the caller (`rows[i - 1]`): a store that replaces an
            # element of that container by a fresh constant array wipes the exclusion of ALL earlier picks,
            # unless the picks are marked again in the replaced element right away
            tree_c = FuncTree(f.node)
            for q in carry:
                a = bind[q]
                cont = base_name(a) if isinstance(a, ast.Subscript) else None
                if cont is None:
                    continue
                for rs in ast.walk(L):
                    if not (isinstance(rs, ast.Assign) and isinstance(rs.targets[0], ast.Subscript)
                            and isinstance(rs.targets[0].value, ast.Name) and rs.targets[0].value.id == cont
                            and isinstance(rs.value, ast.Call) and (callname(rs.value) or "").split(".")[-1] in (
                                "full", "ones", "zeros", "full_like", "ones_like", "zeros_like", "empty")):
                        continue
                    blk = tree_c.block_of.get(rs)
                    remarked = False
                    if blk is not None:
                        owner_, field_, idx_ = blk
                        for later in getattr(owner_, field_)[idx_ + 1:]:
                            if isinstance(later, ast.Assign) and isinstance(later.targets[0], ast.Subscript) \
                                    and base_name(later.targets[0]) == cont and (index_names(later.targets[0]) & picks) \
                                    and isinstance(later.value, ast.Constant) and later.value.value == 0 or (
                                        isinstance(later, ast.Assign) and isinstance(later.targets[0], ast.Subscript)
                                        and base_name(later.targets[0]) == cont and (index_names(later.targets[0]) & picks)
                                        and is_nan_expr(later.value)):
                                remarked = True
                    n += 1
                    report.add(rule, f.qual, f"carried row reset `{norm_stmt(rs, 60)}` keeps the earlier picks excluded",
                               f"{f.file}:{rs.lineno}", remarked,
                               detail="the picks are marked again in the fresh row" if remarked else
                               f"`{cont}` carries the exclusion of all earlier picks into the next step; replacing its element "
                               f"by a constant array forgets them: only the latest pick is excluded afterwards")
            for q in carry:
                nonempty = [pn for pn in latest if isinstance(bind[pn], ast.List)]
                mc = MustCarry(g.node, q, nonnull=[q], nonempty=nonempty)
                rets = mc.run()
                bad = [rn for rn, ok in rets if not ok]
                n += 1
                report.add(rule, f.qual, f"exclusion of older picks carried through `{q}` of {g.name} called as "
                           f"{site_id(c, 70)}", f"{g.file}:{(bad[0] if bad else g.node).lineno}", not bad,
                           detail=f"{len(rets)} return(s) of {g.name}: the value of `{q}` reaches each through "
                                  "marker-propagating operations" if not bad else
                           f"{g.name} receives only the latest pick; on a path to the return at line {bad[0].lineno} its "
                           f"result is not computed from the values of `{q}` (shape-only / NaN-erasing operation), so "
                           "the exclusion of older picks is lost")
    return n


PLAIN_REDUCTIONS = {"sum", "max", "min", "mean", "argmax", "argmin", "std", "var", "prod", "median", "amax", "amin",
                    "cumsum", "average", "ptp"}
NAN_AWARE_REDUCTIONS = {"nansum", "nanmax", "nanmin", "nanmean", "nanargmax", "nanargmin", "nanstd", "nanvar",
                        "nanmedian", "nanprod", "rand_argmax", "rand_argmin", "simple_batch"}


def _nan_carriers(fnode, seeds):
    """names holding (a row / copy / alias of) a NaN-marked array"""
    names = set(seeds)
    changed = True
    while changed:
        changed = False
        for n in ast.walk(fnode):
            if isinstance(n, ast.Assign) and len(n.targets) == 1 and isinstance(n.targets[0], ast.Name):
                v = n.value
                t = n.targets[0].id
                if t in names:
                    continue
                src = None
                if isinstance(v, (ast.Name, ast.Subscript)):
                    src = base_name(v)
                elif isinstance(v, ast.Call) and callname(v) in ("copy", "asarray", "array") :
                    src = base_name(v.func.value) if isinstance(v.func, ast.Attribute) and not (
                        isinstance(v.func.value, ast.Name) and v.func.value.id in ("np", "numpy")) else (
                        base_name(v.args[0]) if v.args else None)
                if src in names:
                    names.add(t)
                    changed = True
    return names


def check_nan_reductions(p, report, funcs, rule="R1.3"):
    """A reduction applied to an array that carries NaN markers (NaN-filled
    utilities, their rows and copies, also when received as a parameter from
    such a caller) is NaN-aware."""
    from . import c02
    local_seeds = {}
    for f in funcs:
        ff = FnFacts(f)
        _, seeds = c02.returned_utility_names(f.node, ff)
        # the arrays a function returns as utilities (NaN = not selectable)
        s = set()
        for nm in seeds:
            # only functions that return (indices, utilities) pairs or are row helpers of such
            s.add(nm)
        two = any(isinstance(n, ast.Return) and isinstance(n.value, ast.Tuple) and len(n.value.elts) >= 2
                  for n in ast.walk(f.node))
        local_seeds[id(f.node)] = s if two else set()
    param_seeds = {id(f.node): set() for f in funcs}
    for _ in range(3):
        for f in funcs:
            carriers = _nan_carriers(f.node, local_seeds[id(f.node)] | param_seeds[id(f.node)])
            if not carriers:
                continue
            for c in ast.walk(f.node):
                if not (isinstance(c, ast.Call) and isinstance(c.func, (ast.Name, ast.Attribute))):
                    continue
                r = p.resolve_expr(f.module, c.func)
                if r is None or r[0] != "func" or id(r[1].node) not in param_seeds:
                    continue
                g = r[1]
                params = g.params()
                for i, a in enumerate(c.args):
                    if i < len(params) and base_name(a) in carriers and isinstance(a, (ast.Name, ast.Subscript)):
                        param_seeds[id(g.node)].add(params[i])
                for k in c.keywords:
                    if k.arg and base_name(k.value) in carriers and isinstance(k.value, (ast.Name, ast.Subscript)):
                        param_seeds[id(g.node)].add(k.arg)
    n = 0
    for f in funcs:
        carriers = _nan_carriers(f.node, local_seeds[id(f.node)] | param_seeds[id(f.node)])
        if not carriers:
            continue
        for c in ast.walk(f.node):
            if not isinstance(c, ast.Call):
                continue
            cn = callname(c)
            if cn not in PLAIN_REDUCTIONS and cn not in NAN_AWARE_REDUCTIONS:
                continue
            ops = []
            if isinstance(c.func, ast.Attribute) and not (isinstance(c.func.value, ast.Name) and c.func.value.id in ("np", "numpy")):
                ops.append(c.func.value)
            elif c.args:
                ops.append(c.args[0])
            for o in ops:
                if isinstance(o, (ast.Name, ast.Subscript)) and base_name(o) in carriers:
                    # a boolean-mask subscript that removes the NaN entries first is fine
                    masked = isinstance(o, ast.Subscript) and any(
                        isinstance(x, ast.Call) and callname(x) in ("isnan", "isfinite") for x in ast.walk(o.slice))
                    ok = cn in NAN_AWARE_REDUCTIONS or masked
                    n += 1
                    report.add(rule, f.qual, f"reduction {site_id(c, 60)} over a NaN-marked array", f"{f.file}:{c.lineno}", ok,
                               detail="NaN-aware" if ok else
                               f"`{cn}` is not NaN-aware but its operand carries NaN markers (non-candidates / earlier "
                               "picks): the result is NaN whenever such an entry exists, e.g. for index candidates "
                               "that are a strict subset")
    return n


def check_full_length_constants(p, report, funcs, facts, rule="R1.3"):
    """A constant-filled array sized by the number of samples in X (ones /
    zeros / empty / full(non-NaN) of len(X)) never is the utilities handed to
    simple_batch or returned: with index candidates it gives every
    non-candidate a number (and sampling mass)."""
    from . import c02
    n = 0
    for f in funcs:
        ff = facts[id(f.node)]
        # the validated X of this function
        Xn = None
        for st in ast.walk(f.node):
            if isinstance(st, ast.Assign) and isinstance(st.value, ast.Call) and callname(st.value) == "_validate_data" \
                    and isinstance(st.targets[0], ast.Tuple) and st.targets[0].elts and isinstance(st.targets[0].elts[0], ast.Name):
                Xn = st.targets[0].elts[0].id
        if Xn is None:
            continue
        _, seeds = c02.returned_utility_names(f.node, ff)
        sinks = set(seeds)
        for c in ast.walk(f.node):
            if isinstance(c, ast.Call) and callname(c) == "simple_batch" and c.args and isinstance(c.args[0], ast.Name):
                sinks.add(c.args[0].id)
        for st in ast.walk(f.node):
            if not (isinstance(st, ast.Assign) and len(st.targets) == 1 and isinstance(st.targets[0], ast.Name)
                    and isinstance(st.value, ast.Call) and callname(st.value) in ("ones", "zeros", "empty", "full")):
                continue
            c = st.value
            shape = c.args[0] if c.args else next((k.value for k in c.keywords if k.arg == "shape"), None)
            full_len = (f"len({Xn})", f"{Xn}.shape[0]", f"({Xn}.shape[0],)", f"(len({Xn}),)")
            cands_ = [shape] + ([shape.body, shape.orelse] if isinstance(shape, ast.IfExp) else []) if shape is not None else []
            if not any(ast.unparse(x).replace(" ", "") in full_len for x in cands_):
                continue
            if callname(c) == "full":
                fv = c.args[1] if len(c.args) > 1 else next((k.value for k in c.keywords if k.arg == "fill_value"), None)
                if fv is not None and is_nan_expr(fv):
                    continue
                if fv is not None and isinstance(fv, ast.Constant) and isinstance(fv.value, bool):
                    continue
            U = st.targets[0].id
            if U not in sinks:
                continue
            # a later NaN store into U (masking the non-candidates) repairs it
            repaired = any(isinstance(m, ast.Assign) and is_nan_expr(m.value) and any(
                isinstance(t, ast.Subscript) and base_name(t) == U for t in m.targets) and m.lineno > st.lineno
                for m in ast.walk(f.node))
            n += 1
            report.add(rule, f.qual, f"utilities `{norm_stmt(st, 60)}` over all samples", f"{f.file}:{st.lineno}", repaired,
                       detail="non-candidates are set to NaN afterwards" if repaired else
                       "a constant-filled array over ALL samples of X is used as utilities: non-candidates (labeled samples, "
                       "samples outside an index candidate list) carry a number and can be selected")
    return n


def method_by_role(ci, name, predicate):
    """The method called `name`; if it was renamed, the unique method of the class whose body satisfies
    `predicate(FunctionDef)` (roles, not names: a renamed private helper keeps its rule)."""
    m = ci.methods.get(name)
    if m is not None:
        return m
    cands = [f for f in ci.methods.values() if predicate(f.node)]
    return cands[0] if len(cands) == 1 else None


def _calls(fnode, names):
    return any(isinstance(c, ast.Call) and callname(c) in names for c in ast.walk(fnode))


class Report_proxy:
    """Report wrapper that files obligations under other rule ids (rules
    shared between properties)."""

    def __init__(self, report, mapping):
        self.r = report
        self.m = mapping

    def add(self, rule, *a, **k):
        return self.r.add(self.m.get(rule, rule), *a, **k)


def check_exclusion_mechanisms(p, report, funcs, facts):
    for rec in loop_records(funcs, facts):
        f, ff, L, S, rnames, acc, edges, fw = rec
        ops = operand_names(S, ff.locs)
        back = closure(ops, edges)
        ent = f.qual
        construct = f"loop `{norm_stmt(L, 60)}` selection {site_id(S, 70)}"
        # R1.4m: the dependence goes through an exclusion mechanism
        lvedges, _ = value_edges(L, ff.locs)
        picks = forward_closure(rnames | acc, lvedges) | rnames | acc
        check_index_discipline(report, f, ff, L, S, acc, picks, back | ops, lvedges)
        # boolean pool masks flipped at the picks count as pick-derived indices
        for n in ast.walk(L):
            if isinstance(n, ast.Assign) and ast.unparse(n.value) in ("True", "False"):
                for t in n.targets:
                    if isinstance(t, ast.Subscript) and (index_names(t) & picks) and base_name(t):
                        picks = picks | {base_name(t)}
        ex = [(n, b, k) for (n, b, k) in exclusion_statements(L, picks) if b in back or b in ops]
        tree = FuncTree(f.node)
        s_stmt = tree.stmt_of(S)
        counters = {n.id for n in ast.walk(L.target) if isinstance(n, ast.Name)} if isinstance(L, ast.For) else set()
        s_ctx = cond_context(tree, s_stmt, L, counters)
        first_only = False
        for (s_, owner, field, idx) in tree.ancestors(s_stmt):
            if owner is L:
                break
            if isinstance(owner, ast.If) and field == "body":
                conj = owner.test.values if isinstance(owner.test, ast.BoolOp) and isinstance(owner.test.op, ast.And) \
                    else [owner.test]
                for c in conj:
                    if isinstance(c, ast.Compare) and len(c.ops) == 1 and isinstance(c.ops[0], ast.Eq) \
                            and isinstance(c.left, ast.Name) and c.left.id in counters \
                            and isinstance(c.comparators[0], ast.Constant) and c.comparators[0].value == 0:
                        first_only = True
        if first_only:
            report.add("R1.4m", ent, construct, f"{f.file}:{S.lineno}", True,
                       detail="selection happens in the first iteration only: there are no earlier picks", nontrivial=False)
            continue
        # the exclusion has to happen on every path on which the selection happens
        ex_all = [(n, b, k) for (n, b, k) in ex if cond_context(tree, n if isinstance(n, ast.stmt) else tree.stmt_of(n), L, counters) <= s_ctx]
        partial = bool(ex) and not ex_all
        ex = ex_all
        # a mask written into the row of THIS iteration (array indexed by the loop counter) after this
        # iteration's selection excludes nothing: the next iteration works on another row
        late_row = []
        for (n, b, k) in list(ex):
            n_st = n if isinstance(n, ast.stmt) else tree.stmt_of(n)
            if k == "M1" and isinstance(n_st, ast.Assign) and not dominates(tree, n_st, s_stmt):
                t = n_st.targets[0]
                inner = t
                while isinstance(inner, ast.Subscript) and isinstance(inner.value, ast.Subscript):
                    inner = inner.value
                first = inner.slice.elts[0] if isinstance(inner.slice, ast.Tuple) and inner.slice.elts else inner.slice
                if counters and (names_in(first) & counters) and (inner is not t or isinstance(inner.slice, ast.Tuple)):
                    late_row.append((n, b, k))
        if late_row:
            ex = [x for x in ex if x not in late_row]
        # a mask that is overwritten by a later store into the same array
        # before the selection does not exclude anything
        overwritten = []
        kept = []
        for (n, b, k) in ex:
            n_st = n if isinstance(n, ast.stmt) else tree.stmt_of(n)
            ow = None
            if k == "M1" and dominates(tree, n_st, s_stmt):
                for m in ast.walk(L):
                    if isinstance(m, ast.Assign) and m is not n_st and dominates(tree, n_st, m) and dominates(tree, m, s_stmt) \
                            and any(isinstance(t, ast.Subscript) and base_name(t) == b for t in m.targets) \
                            and ast.unparse(m.value).replace(" ", "") not in EXCL_VALUES \
                            and not (index_names(m.targets[0]) & picks):
                        ow = m
            (overwritten if ow is not None else kept).append((n, b, k))
        if ex and not kept:
            partial = False
        ex_overwritten = bool(ex) and not kept
        ex = kept
        # an auxiliary pool mask (not the operand itself) only excludes when the writes into the
        # operand are selected by the CURRENT mask: a selector computed from the mask before the
        # loop and never refreshed inside it is stale after the first pick
        stale = None
        loop_bound = {x.id for x in ast.walk(L) if isinstance(x, ast.Name) and isinstance(x.ctx, ast.Store)}
        for (n, b, k) in list(ex):
            if k != "M1" or b in ops:
                continue
            hoisted = set()
            for d in ast.walk(f.node):
                if isinstance(d, ast.Assign) and len(d.targets) == 1 and isinstance(d.targets[0], ast.Name) \
                        and d.lineno < L.lineno and b in names_in(d.value) and d.targets[0].id not in loop_bound \
                        and d.targets[0].id != b:
                    hoisted.add(d.targets[0].id)
            for m in ast.walk(L):
                if isinstance(m, ast.Assign) and isinstance(m.targets[0], ast.Subscript) and base_name(m.targets[0]) in ops:
                    idx = index_names(m.targets[0])
                    if (idx & hoisted) and b not in idx and not (idx & forward_closure({b}, lvedges) & loop_bound):
                        stale = (m, sorted(idx & hoisted)[0], b)
            if stale:
                ex = [x for x in ex if x != (n, b, k)]
        # (a) a mask written into THIS iteration's fresh row has to cover ALL earlier picks: indexing it with
        #     the tail of the accumulator (`acc[-1:]`, `acc[-1]`) marks only the latest one
        partial_mask = None
        for (n, b, k) in list(ex):
            n_st = n if isinstance(n, ast.stmt) else tree.stmt_of(n)
            if k != "M1" or not isinstance(n_st, ast.Assign):
                continue
            t = n_st.targets[0]
            chain = []
            cur = t
            while isinstance(cur, ast.Subscript):
                chain.append(cur.slice)
                cur = cur.value
            row_fresh = bool(counters) and any(names_in(sl) & counters for sl in chain[1:] + (
                [chain[0].elts[0]] if chain and isinstance(chain[0], ast.Tuple) and chain[0].elts else []))
            pick_sl = chain[0].elts[-1] if chain and isinstance(chain[0], ast.Tuple) and chain[0].elts else (chain[0] if chain else None)
            tail = pick_sl is not None and any(
                isinstance(x, ast.Subscript) and isinstance(x.value, ast.Name) and x.value.id in acc and (
                    (isinstance(x.slice, ast.Slice) and x.slice.lower is not None
                     and isinstance(x.slice.lower, ast.UnaryOp) and isinstance(x.slice.lower.op, ast.USub))
                    or (isinstance(x.slice, ast.UnaryOp) and isinstance(x.slice.op, ast.USub)))
                for x in ast.walk(pick_sl))
            if row_fresh and tail:
                partial_mask = n_st
                ex = [x for x in ex if x != (n, b, k)]
        # (b) a mask on the operand itself must survive to the selection on EVERY path: a branch that rebinds
        #     the operand to a fresh constant array (`p = np.ones_like(p)`) after the mask has to mask again
        unmasked_path = None
        for (n, b, k) in list(ex):
            n_st = n if isinstance(n, ast.stmt) else tree.stmt_of(n)
            if k != "M1" or b not in ops or not dominates(tree, n_st, s_stmt):
                continue
            mask_ids = {id(x if isinstance(x, ast.stmt) else tree.stmt_of(x))
                        for (x, bb, kk) in exclusion_statements(L, picks) if kk == "M1" and bb == b}

            from ..paths import MustAnalysis as _MA, describe as _describe

            class Survives(_MA):
                def __init__(self, fnode):
                    super().__init__(fnode)
                    self.bad = None

                def gen(self, stmt):
                    return ("m",) if id(stmt) in mask_ids else ()

                def kill_tokens(self, stmt):
                    if isinstance(stmt, ast.Assign) and len(stmt.targets) == 1 and isinstance(stmt.targets[0], ast.Name) \
                            and stmt.targets[0].id == b and isinstance(stmt.value, ast.Call) \
                            and (callname(stmt.value) or "").split(".")[-1] in (
                                "ones_like", "zeros_like", "full_like", "ones", "zeros", "full", "empty", "empty_like"):
                        return ("m",)
                    return ()

                def loop_iter_kill(self, loop):
                    return ("m",) if loop is L else ()

                def use(self, expr, state, stmt):
                    if stmt is s_stmt and "m" not in state.tokens and self.bad is None:
                        self.bad = _describe(state.facts)
            sv = Survives(f.node).run()
            if sv.bad is not None:
                unmasked_path = (n_st, b, sv.bad)
                ex = [x for x in ex if not (x[2] == "M1" and x[1] == b)]
        via_callee = False
        if not ex:
            for st in ast.walk(L):
                if isinstance(st, ast.Expr) and isinstance(st.value, ast.Call) and st.value is not S:
                    masked = callee_masked_args(p, f, st.value, picks)
                    if (masked & (back | ops)) and cond_context(tree, st, L, counters) <= s_ctx:
                        via_callee = True
        if not ex and not via_callee:
            for c in ast.walk(L):
                if isinstance(c, ast.Call) and c is not S and callee_exclusions(p, f, c, picks):
                    # the call's result must feed the operand
                    for st in ast.walk(L):
                        if isinstance(st, ast.Assign) and any(x is c for x in ast.walk(st.value)):
                            if any(base_name(t) in back for t in st.targets) and \
                                    cond_context(tree, st, L, counters) <= s_ctx:
                                via_callee = True
        sampling_m3 = False
        if not ex and not via_callee and callname(S) == "choice":
            txt = " ".join(ast.unparse(x) for x in ast.walk(L) if isinstance(x, ast.Call)
                           and callname(x) and "pairwise_distances" in callname(x))
            sampling_m3 = bool(txt)
            if not sampling_m3:
                # distance-to-selected computed in a project callee that receives the picks
                for c in ast.walk(L):
                    if isinstance(c, ast.Call) and c is not S:
                        r = p.resolve_expr(f.module, c.func) if isinstance(c.func, (ast.Name, ast.Attribute)) else None
                        if r is not None and r[0] == "func" and any(names_in(a) & picks for a in c.args) and any(
                                isinstance(x, ast.Call) and callname(x) and "pairwise_distances" in callname(x)
                                for x in ast.walk(r[1].node)):
                            sampling_m3 = True
        okm = bool(ex) or via_callee or sampling_m3
        mech = (ex[0][2] + ": `" + norm_stmt(ex[0][0], 60) + "`") if ex else (
            "M1/M2 inside a callee that receives the picks" if via_callee else
            ("M3: zero sampling mass at distance-to-selected" if sampling_m3 else ""))
        report.add("R1.4m", ent, construct, f"{f.file}:{S.lineno}", okm,
                   detail=("exclusion mechanism " + mech) if okm else
                   (f"`{norm_stmt(partial_mask, 60)}` marks only the LATEST pick in this iteration's fresh row: the picks before it "
                    f"keep a number and can be selected again" if (partial_mask is not None and not ex) else
                    f"on the path where {unmasked_path[2] or 'always'} `{unmasked_path[1]}` is rebound to a fresh constant array after "
                    f"the mask `{norm_stmt(unmasked_path[0], 50)}` and not masked again before the selection"
                    if (unmasked_path is not None and not ex) else
                    f"the operand is filled at positions `{stale[1]}`, computed from the pool mask `{stale[2]}` before the loop and "
                    f"never refreshed: after the first pick the selector is stale and earlier picks keep a number"
                    if (stale and not ex) else
                    "the mask of earlier picks is written into this iteration's own row after the selection: it never "
                    "takes part in a selection" if (late_row and not ex) else
                    "the mask of earlier picks is overwritten by a later store into the same array before the selection"
                    if ex_overwritten else
                    "the exclusion of earlier picks happens only on some paths to the selection (inside a branch the "
                    "selection is not under)" if partial else
                    "earlier picks are not excluded by a mask (NaN/0/False store indexed by the picks) or by shrinking "
                    "the pool; relying on distances/cluster cells alone fails for duplicated points and empty cells"))


FRESH_CONSTANT = ("ones_like", "zeros_like", "full_like", "ones", "zeros", "full", "empty", "empty_like")


def _fresh_constant_call(v):
    while isinstance(v, ast.UnaryOp):
        v = v.operand
    while isinstance(v, ast.Call) and isinstance(v.func, ast.Attribute) and v.func.attr == "astype":
        v = v.func.value
    while isinstance(v, ast.UnaryOp):
        v = v.operand
    return isinstance(v, ast.Call) and (callname(v) or "").split(".")[-1] in FRESH_CONSTANT


def preallocated_buffers(fnode, L, names):
    """Pick buffers of fixed length allocated before the loop (`np.full(k, -1)`, `np.empty(k, int)`) and filled
    one slot per iteration (`buf[i] = pick`): their unfilled slots hold -1 / 0 / garbage, all valid positions."""
    counters = {n.id for n in ast.walk(L.target) if isinstance(n, ast.Name)} if isinstance(L, ast.For) else set()
    out = set()
    for d in ast.walk(fnode):
        if isinstance(d, ast.Assign) and len(d.targets) == 1 and isinstance(d.targets[0], ast.Name) \
                and d.targets[0].id in names and d.lineno < L.lineno and _fresh_constant_call(d.value):
            nm = d.targets[0].id
            slot = any(isinstance(m, ast.Assign) and isinstance(m.targets[0], ast.Subscript)
                       and isinstance(m.targets[0].value, ast.Name) and m.targets[0].value.id == nm
                       and (names_in(m.targets[0].slice) & counters) for m in ast.walk(L))
            rebound = any(isinstance(m, ast.Assign) and any(isinstance(t, ast.Name) and t.id == nm for t in m.targets)
                          for m in ast.walk(L))
            if slot and not rebound:
                out.add(nm)
    return out


def whole_buffer_index(t, buffers):
    """the buffer NAME used bare as (a component of) the index of store target t"""
    comps = []
    cur = t
    while isinstance(cur, ast.Subscript):
        comps += list(cur.slice.elts) if isinstance(cur.slice, ast.Tuple) else [cur.slice]
        cur = cur.value
    for c in comps:
        if isinstance(c, ast.Name) and c.id in buffers:
            return c.id
    return None


def growing_accumulators(L, names):
    """names that GROW by the picks inside the loop (append / slot store / self-referential concatenation / mask
    flip), as opposed to names that are simply rebound to the latest pick"""
    out = set()
    for m in ast.walk(L):
        if isinstance(m, ast.Expr) and isinstance(m.value, ast.Call) and isinstance(m.value.func, ast.Attribute) \
                and m.value.func.attr in ("append", "extend", "insert", "add", "update"):
            b = base_name(m.value.func.value)
            if b in names:
                out.add(b)
        elif isinstance(m, ast.Assign):
            for t in m.targets:
                if isinstance(t, ast.Subscript) and base_name(t) in names:
                    out.add(base_name(t))
                elif isinstance(t, ast.Name) and t.id in names and t.id in names_in(m.value):
                    out.add(t.id)
        elif isinstance(m, ast.AugAssign) and base_name(m.target) in names:
            out.add(base_name(m.target))
    return out


def translated_picks(L, picks, counters, lvedges):
    """pick-derived names whose value went through a position table (`idx = mapping[pick]`): they live in another
    index space than the array the selection ran on"""
    seeds = set()
    for m in ast.walk(L):
        if isinstance(m, ast.Assign) and len(m.targets) == 1 and isinstance(m.targets[0], ast.Name) \
                and isinstance(m.value, ast.Subscript) and isinstance(m.value.value, ast.Name) \
                and m.value.value.id not in picks and m.value.value.id not in counters \
                and not isinstance(m.value.slice, (ast.Slice, ast.Tuple)) \
                and (names_in(m.value.slice) & picks) and not (names_in(m.value.slice) - picks - counters):
            seeds.add(m.targets[0].id)
    return (forward_closure(seeds, lvedges) | seeds) if seeds else set()


def indexed_by_foreign_table(L, b, picks, counters):
    """is `b` read in the loop through a position table (`b[mapping]`)?  Then its own index space cannot be told."""
    for m in ast.walk(L):
        if isinstance(m, ast.Subscript) and isinstance(m.ctx, ast.Load) and base_name(m) == b:
            comps = list(m.slice.elts) if isinstance(m.slice, ast.Tuple) else [m.slice]
            for c in comps:
                if isinstance(c, ast.Slice):
                    continue
                if names_in(c) - picks - counters:
                    return True
    return False


def check_index_discipline(report, f, ff, L, S, acc, picks, operand_side, lvedges):
    """Two obligations on HOW the picks index other arrays inside the selection loop.
    (c) a pre-allocated pick buffer (`np.full(k, -1)`, one slot filled per step) is never used whole as an index: its
        unfilled slots name valid positions (-1 = the last sample), which would be masked/read as if picked;
    (d) a mark (NaN/0/False store) on an array of the selection operand's side is indexed in the operand's index
        space: a pick translated through a position table (`idx = mapping[pick]`) names another sample there."""
    counters = {n.id for n in ast.walk(L.target) if isinstance(n, ast.Name)} if isinstance(L, ast.For) else set()
    for buf in sorted(preallocated_buffers(f.node, L, acc)):
        bad = None
        uses = 0
        for m in ast.walk(L):
            if isinstance(m, ast.Subscript):
                comps = list(m.slice.elts) if isinstance(m.slice, ast.Tuple) else [m.slice]
                for c in comps:
                    if buf in names_in(c):
                        uses += 1
                    if isinstance(c, ast.Name) and c.id == buf and bad is None:
                        bad = m
        report.add("R1.4m", f.qual, f"pick buffer `{buf}` of loop `{norm_stmt(L, 50)}` is only used by its filled slots "
                   f"as an index", f"{f.file}:{(bad or L).lineno}", bad is None, nontrivial=uses > 0,
                   detail=f"{uses} index use(s) inside the loop, each through a slot/slice" if bad is None else
                   f"`{ast.unparse(bad)[:70]}` is indexed by the whole pre-allocated buffer: its unfilled slots (-1 / 0 / "
                   f"uninitialised) are valid positions too, so samples never picked are marked or read as picks and the "
                   f"last steps run out of candidates")
    translated = translated_picks(L, picks, counters, lvedges)
    # (e) a branch of the loop that REBINDS an array of the operand's side to a fresh constant (`mass = np.ones(n)` as a
    #     fallback) forgets every earlier pick: the marks have to be written again right there, for ALL picks (indexed
    #     by the growing accumulator, not by the latest pick)
    growing = growing_accumulators(L, acc) - translated
    # views / copies of ALL picks so far (`selected = picks[:b]`, `np.asarray(picks)`) index like the accumulator itself
    changed = True
    while changed:
        changed = False
        for m in ast.walk(L):
            if isinstance(m, ast.Assign) and len(m.targets) == 1 and isinstance(m.targets[0], ast.Name) \
                    and m.targets[0].id not in growing and m.targets[0].id not in translated:
                v = m.value
                while isinstance(v, ast.Call) and (callname(v) or "").split(".")[-1] in ("asarray", "array", "copy", "list") \
                        and len(v.args) <= 1:
                    v = v.args[0] if v.args else (v.func.value if isinstance(v.func, ast.Attribute) else v)
                    if not isinstance(v, (ast.Call, ast.Name, ast.Subscript)):
                        break
                if isinstance(v, ast.Subscript) and isinstance(v.slice, ast.Slice) and v.slice.lower is None \
                        and isinstance(v.value, ast.Name):
                    v = v.value
                if isinstance(v, ast.Name) and v.id in growing:
                    growing.add(m.targets[0].id)
                    changed = True
    tree = FuncTree(f.node)
    for m in ast.walk(L):
        if not (isinstance(m, ast.Assign) and len(m.targets) == 1 and isinstance(m.targets[0], ast.Name)
                and m.targets[0].id in operand_side and _fresh_constant_call(m.value)):
            continue
        x = m.targets[0].id
        blk = tree.block_of.get(m)
        if blk is None or blk[0] is L:
            continue   # the per-step initialisation of a working array, not a fallback
        def _branches(st):
            return {(id(o), fld) for (_s, o, fld, _i) in tree.ancestors(st) if isinstance(o, ast.If)}
        mb = _branches(m)
        if not any(isinstance(d, ast.Assign) and d is not m and any(isinstance(t, ast.Name) and t.id == x for t in d.targets)
                   and d.lineno < m.lineno
                   and not any((i_, "orelse" if fl == "body" else "body") in mb for (i_, fl) in _branches(d))
                   for d in ast.walk(L)):
            continue   # one of several alternative sources of this step's array, nothing is overwritten
        owner_, field_, idx_ = blk
        s_stmt_ = tree.stmt_of(S)
        later = getattr(owner_, field_)[idx_ + 1:] + [
            st for st in ast.walk(L) if isinstance(st, ast.Assign) and st.lineno > m.lineno and tree.block_of.get(st) is not None
            and tree.block_of[st][0] is not owner_ and dominates(tree, st, s_stmt_)]
        remark = [st for st in later if isinstance(st, ast.Assign) and isinstance(st.targets[0], ast.Subscript)
                  and base_name(st.targets[0]) == x and ast.unparse(st.value).replace(" ", "") in EXCL_VALUES]
        full = [st for st in remark if index_names(st.targets[0]) & growing]
        report.add("R1.4m", f.qual, f"fallback `{norm_stmt(m, 50)}` marks ALL earlier picks again",
                   f"{f.file}:{m.lineno}", bool(full),
                   detail=f"`{norm_stmt(full[0], 50)}` indexed by the accumulator of all picks" if full else
                   (f"`{norm_stmt(remark[0], 50)}` marks only the latest pick (its index is not the accumulator "
                    f"{sorted(growing)}): the picks before it get positive mass again" if remark else
                    f"`{x}` feeds the selection and is replaced by a constant array without marking the picks "
                    f"{sorted(growing)} again"))
    if translated:
        marks = []
        for (n, b, k) in exclusion_statements(L, picks):
            if k == "M1" and isinstance(n, ast.Assign) and b in operand_side and isinstance(n.value, ast.Constant) is not None \
                    and ast.unparse(n.value) not in ("True",) and not indexed_by_foreign_table(L, b, picks, counters):
                marks.append((n, b))
        for (n, b) in marks:
            ix = index_names(n.targets[0])
            bad_ix = (ix & translated) if not (ix & (picks - translated)) else set()
            report.add("R1.4m", f.qual, f"mark `{norm_stmt(n, 60)}` is indexed in the index space of the selection operand",
                       f"{f.file}:{n.lineno}", not bad_ix,
                       detail="indexed by the raw picks" if not bad_ix else
                       f"`{sorted(bad_ix)[0]}` holds picks translated through a position table (`x = table[pick]`): in the "
                       f"index space of `{b}` it names other samples, so the real picks keep their mass/number and can be "
                       f"selected again")


def outside_defs(fnode, L):
    """Names bound outside loop L (before it) in the function, plus params."""
    inside = set()
    for n in ast.walk(L):
        inside.add(id(n))
    out = set()
    a = fnode.args
    for x in a.posonlyargs + a.args + a.kwonlyargs:
        out.add(x.arg)
    for n in ast.walk(fnode):
        if id(n) in inside:
            continue
        if isinstance(n, ast.Name) and isinstance(n.ctx, ast.Store):
            out.add(n.id)
    return out


# ---------------------------------------------------------------------------
def picks_recovered_from_marks(p, f):
    """f returns utility rows in which the pick of step i is NaN from step i+1 on.  True if every
    project caller of f derives its indices from these marks: some assignment in the caller combines
    `isnan(R[1:])` and `isnan(R[:-1])` (R the call's result or what it was scattered into) and the
    result of that is stored into the returned indices."""
    callers = []
    for g in p.all_functions():
        if g.node is f.node or "/tests/" in g.file:
            continue
        for c in ast.walk(g.node):
            if isinstance(c, ast.Call) and callname(c) == f.name:
                callers.append(g)
                break
    if not callers:
        return False
    for g in callers:
        txt_ok = False
        nan_names = set()
        for n in ast.walk(g.node):
            if isinstance(n, ast.Assign) and len(n.targets) == 1 and isinstance(n.targets[0], ast.Name) \
                    and isinstance(n.value, ast.Call) and callname(n.value) in ("isnan", "np.isnan"):
                nan_names.add(n.targets[0].id)
        for n in ast.walk(g.node):
            if not isinstance(n, ast.Assign):
                continue
            t = ast.unparse(n.value).replace(" ", "")
            later = any(f"{nm}[1:]" in t for nm in nan_names) or "isnan(" in t and "[1:]" in t
            earlier = any(f"~{nm}[:-1]" in t for nm in nan_names) or ("~" in t and "[:-1]" in t)
            if later and earlier and "&" in t:
                txt_ok = True
        if not txt_ok:
            return False
    return True


def check_indices_results(p, report, rule):
    """index candidates / annotators are de-duplicated by check_indices: its result must be the array that is used"""
    n_ci = 0
    for f in p.all_functions():
        if f.file.startswith("skactiveml/visualization") or "/tests/" in f.file:
            continue
        for st in ast.walk(f.node):
            c = st.value if isinstance(st, (ast.Expr, ast.Assign)) and isinstance(getattr(st, "value", None), ast.Call) else None
            if c is None or callname(c) != "check_indices":
                continue
            uq = next((k.value for k in c.keywords if k.arg == "unique"), c.args[3] if len(c.args) > 3 else None)
            pure_check = uq is not None and isinstance(uq, ast.Constant) and uq.value in ("check_unique", False)
            n_ci += 1
            ok = isinstance(st, ast.Assign) or pure_check
            report.add(rule, f.qual, f"result of {site_id(c, 60)} is used", f"{f.file}:{st.lineno}", ok,
                       detail="bound to a name" if isinstance(st, ast.Assign) else (
                           "pure uniqueness check" if pure_check else
                           "the de-duplicated, sorted index array is discarded: duplicated indices reach the "
                           "strategies: they can be selected twice and are counted twice by the batch-size clip"))
    report.analysed["check_indices_sites"] = n_ci


def helper_resolver(p, f):
    """Resolve a plain-name call inside f to a project function node."""
    def resolve(call):
        if isinstance(call.func, ast.Name):
            r = p.resolve_name(f.module, call.func.id)
            if r and r[0] == "func":
                return r[1].node
            return None
        return None
    return resolve


def check_clip(p, report):
    ci = p.get_class("SingleAnnotatorPoolQueryStrategy")
    f = ci.methods.get("_validate_data")
    if f is None:
        raise AnalysisError("SingleAnnotatorPoolQueryStrategy._validate_data vanished")
    ok, why = has_clip(f.node, "batch_size", resolve=helper_resolver(p, f))
    report.add("R1.1", "SingleAnnotatorPoolQueryStrategy._validate_data", "batch_size clipped to number of candidates",
               f"{f.file}:{f.node.lineno}", ok, detail=why)
    check_clip_bound_counts_rows(report, "R1.1", f, "batch_size")


def element_count_operand(e):
    """`np.size(E)` without axis, `E.size`, `np.prod(E.shape)`, `len(E.ravel())`/`len(E.flatten())`:
    the number of ELEMENTS of E (rows x columns for a 2-d array), not its number of rows.
    Returns E or None."""
    if isinstance(e, ast.Call) and callname(e) in ("int",) and e.args:
        return element_count_operand(e.args[0])
    if isinstance(e, ast.Call) and callname(e) in ("size", "np.size", "numpy.size") and e.args \
            and len(e.args) == 1 and not any(k.arg == "axis" for k in e.keywords):
        return e.args[0]
    if isinstance(e, ast.Attribute) and e.attr == "size":
        return e.value
    if isinstance(e, ast.Call) and callname(e) in ("prod", "np.prod") and e.args and isinstance(e.args[0], ast.Attribute) \
            and e.args[0].attr == "shape":
        return e.args[0].value
    if isinstance(e, ast.Call) and callname(e) == "len" and e.args and isinstance(e.args[0], ast.Call) \
            and isinstance(e.args[0].func, ast.Attribute) and e.args[0].func.attr in ("ravel", "flatten"):
        return e.args[0].func.value
    return None


def clip_bound_names(fnode, bname):
    out = set()
    for n in ast.walk(fnode):
        if isinstance(n, ast.If) and isinstance(n.test, ast.Compare) and bname in names_in(n.test):
            out |= {x for x in names_in(n.test) if x != bname}
        if isinstance(n, ast.Assign) and any(isinstance(t, ast.Name) and t.id == bname for t in n.targets) \
                and isinstance(n.value, ast.Call):
            for a in n.value.args[:2]:
                if isinstance(a, ast.Name) and a.id != bname:
                    out.add(a.id)
    return out


def check_clip_bound_counts_rows(report, rule, f, bname, two_d=("candidates", "X")):
    """The bound of the batch-size clip counts candidate ROWS: an element count of an
    array that can be 2-d (feature-row candidates, X) over-counts by the number of
    features and the clip is lost."""
    params = set(f.all_param_names())
    for nm in sorted(clip_bound_names(f.node, bname)):
        for d in ast.walk(f.node):
            if isinstance(d, ast.Assign) and any(isinstance(t, ast.Name) and t.id == nm for t in d.targets):
                bad = None
                for sub in ast.walk(d.value):
                    E = element_count_operand(sub)
                    if E is not None and isinstance(E, ast.Name) and E.id in params and E.id in two_d:
                        bad = (sub, E.id)
                report.add(rule, f.qual, f"clip bound `{norm_stmt(d, 60)}` counts rows", f"{f.file}:{d.lineno}", bad is None,
                           detail="row count" if bad is None else
                           f"`{ast.unparse(bad[0])}` is the number of ELEMENTS of `{bad[1]}`: for feature-row candidates of "
                           f"shape (n, d) the bound is n*d and batch sizes between n and n*d are not clipped")


def has_clip(fnode, bname, need_return=True, resolve=None):
    """`if a < b: ... b = a` (or `b > a`) followed by a return containing b;
    `a` must be defined from the candidate count on both arms."""
    for n in ast.walk(fnode):
        if isinstance(n, ast.If) and isinstance(n.test, ast.Compare) and len(n.test.ops) == 1:
            l, r = n.test.left, n.test.comparators[0]
            op = n.test.ops[0]
            small = None
            if isinstance(op, ast.Lt) and isinstance(r, ast.Name) and r.id == bname and isinstance(l, ast.Name):
                small = l.id
            if isinstance(op, ast.Gt) and isinstance(l, ast.Name) and l.id == bname and isinstance(r, ast.Name):
                small = r.id
            if small is None:
                continue
            for st in n.body:
                if isinstance(st, ast.Assign) and any(isinstance(t, ast.Name) and t.id == bname for t in st.targets) \
                        and isinstance(st.value, ast.Name) and st.value.id == small:
                    if not need_return:
                        return True, f"clip `{bname} = {small}` under `{norm_stmt(n.test)}`"
                    # returned afterwards?
                    for rn in ast.walk(fnode):
                        if isinstance(rn, ast.Return) and rn.value is not None and bname in names_in(rn.value) \
                                and rn.lineno > n.lineno:
                            return True, f"clip `{bname} = {small}` under `{norm_stmt(n.test)}`"
    # `b = min(b, n)` or `b = helper(b, n, ...)` with helper a project function whose
    # value is min(first, second)
    for n in ast.walk(fnode):
        if isinstance(n, ast.Assign) and any(isinstance(t, ast.Name) and t.id == bname for t in n.targets) \
                and isinstance(n.value, ast.Call) and len(n.value.args) >= 2 \
                and any(isinstance(a, ast.Name) and a.id == bname for a in n.value.args[:2]):
            cn = callname(n.value)
            is_min = cn == "min" and len(n.value.args) == 2
            if not is_min and resolve is not None:
                h = resolve(n.value)
                is_min = h is not None and _is_min_function(h)
            if is_min and (not need_return or any(
                    isinstance(rn, ast.Return) and rn.value is not None and bname in names_in(rn.value)
                    and rn.lineno > n.lineno for rn in ast.walk(fnode))):
                return True, f"clip `{norm_stmt(n, 70)}`"
    return False, "no `if n < batch_size: batch_size = n` clip reaching the return"


def _is_min_function(h):
    """Function of (a, b, ...) whose every return is min(a, b): `if b < a: ... return b`
    followed by `return a` (either orientation), or `return min(a, b)`."""
    ps = [a.arg for a in h.args.args]
    if len(ps) < 2:
        return False
    a, b = ps[0], ps[1]
    body = [st for st in h.body if not (isinstance(st, ast.Expr) and isinstance(st.value, ast.Constant))]
    if len(body) == 1 and isinstance(body[0], ast.Return) and isinstance(body[0].value, ast.Call) \
            and callname(body[0].value) == "min" and {ast.unparse(x) for x in body[0].value.args} == {a, b}:
        return True
    if any(isinstance(n, ast.Name) and isinstance(n.ctx, ast.Store) and n.id in (a, b) for n in ast.walk(h)):
        return False
    if len(body) == 2 and isinstance(body[0], ast.If) and not body[0].orelse and isinstance(body[1], ast.Return) \
            and isinstance(body[0].test, ast.Compare) and len(body[0].test.ops) == 1 \
            and isinstance(body[0].body[-1], ast.Return):
        t = body[0].test
        l, r, op = ast.unparse(t.left), ast.unparse(t.comparators[0]), t.ops[0]
        small = None
        if isinstance(op, (ast.Lt, ast.LtE)) and {l, r} == {a, b}:
            small = l
        if isinstance(op, (ast.Gt, ast.GtE)) and {l, r} == {a, b}:
            small = r
        if small is None:
            return False
        big = b if small == a else a
        inner_ret, outer_ret = body[0].body[-1].value, body[1].value
        return inner_ret is not None and outer_ret is not None and ast.unparse(inner_ret) == small \
            and ast.unparse(outer_ret) == big \
            and not any(isinstance(x, (ast.Return, ast.Raise)) for st in body[0].body[:-1] for x in ast.walk(st))
    return False


def check_validate_first(p, report, ci, f):
    """Token analysis: batch_size must not be read before it is rebound from
    the result of a *_validate_data call (or handed to an inner strategy /
    super().query unchanged)."""
    ent = f"{ci.name}.query"
    fnode = f.node
    params = f.all_param_names()
    if "batch_size" not in params:
        report.add("R1.1", ent, "batch_size parameter present", f"{f.file}:{fnode.lineno}", False,
                   detail="query has no batch_size parameter")
        return
    # delegation: query returns super().query(...) / inner query with batch_size forwarded
    validate_stmt = None
    for n in ast.walk(fnode):
        if isinstance(n, ast.Assign) and isinstance(n.value, ast.Call):
            cn = callname(n.value)
            if cn == "_validate_data" and isinstance(n.targets[0], (ast.Tuple, ast.List)):
                # which position is batch_size in the callee's return tuple?
                callee = resolve_validate(p, ci, f, n.value)
                pos = ret_position(callee, "batch_size") if callee else None
                tgt = n.targets[0].elts
                if pos is not None and pos < len(tgt) and isinstance(tgt[pos], ast.Name):
                    validate_stmt = (n, tgt[pos].id, n.value)
                    break
    if validate_stmt is None:
        # pure delegation to another query (ValueOfInformationEER -> super().query)
        for n in ast.walk(fnode):
            if isinstance(n, ast.Return) and isinstance(n.value, ast.Call) and callname(n.value) == "query":
                fw = any(k.arg == "batch_size" and isinstance(k.value, ast.Name) and k.value.id == "batch_size"
                         for k in n.value.keywords)
                report.add("R1.1", ent, "delegates to another query with batch_size forwarded",
                           f"{f.file}:{n.lineno}", fw,
                           detail="batch_size forwarded unchanged" if fw else "batch_size not forwarded")
                return
        report.add("R1.1", ent, "batch size taken from _validate_data", f"{f.file}:{fnode.lineno}", False,
                   detail="no unpacking of a _validate_data result that rebinds the batch size")
        return
    st, newname, call = validate_stmt
    tree = FuncTree(fnode)
    bad = []
    for n in ast.walk(fnode):
        if isinstance(n, ast.Name) and n.id == "batch_size" and isinstance(n.ctx, ast.Load):
            s = tree.stmt_of(n)
            if s is st:
                continue  # argument of the validate call
            if tree.contains(call, n):
                continue
            if newname == "batch_size" and dominates(tree, st, s):
                continue
            bad.append(n)
    # literal passed instead of the parameter (IntervalEstimation-style) is not a pool strategy here
    report.add("R1.1", ent, "batch size taken from _validate_data before any use", f"{f.file}:{st.lineno}",
               not bad, detail=("raw batch_size parameter read at line(s) " + ", ".join(str(b.lineno) for b in bad))
               if bad else f"clipped value bound to `{newname}` dominates all uses")


def resolve_validate(p, ci, f, call):
    fn = call.func
    if isinstance(fn, ast.Attribute):
        if isinstance(fn.value, ast.Name) and fn.value.id == "self":
            return p.find_method(ci, "_validate_data")
        if isinstance(fn.value, ast.Call) and isinstance(fn.value.func, ast.Name) and fn.value.func.id == "super":
            owner = f.cls
            return p.find_method(ci, "_validate_data", after=owner)
    return None


def ret_position(fi, name):
    for n in ast.walk(fi.node):
        if isinstance(n, ast.Return) and isinstance(n.value, ast.Tuple):
            for i, e in enumerate(n.value.elts):
                if isinstance(e, ast.Name) and e.id == name:
                    return i
    return None


# ---------------------------------------------------------------------------
def is_nan_expr(e):
    s = ast.unparse(e)
    return s in ("np.nan", "numpy.nan", "float('nan')", "np.NaN", "-np.inf", "-numpy.inf", "np.NINF", "nan")


def alloc_kind(e):
    """'nan' for NaN-filled allocation, 'num' for an allocation filled with
    numbers / uninitialised, None if not an allocation."""
    if not isinstance(e, ast.Call):
        return None
    n = callname(e)
    if n in ("full", "full_like"):
        fill = None
        if len(e.args) >= 2:
            fill = e.args[1]
        for k in e.keywords:
            if k.arg == "fill_value":
                fill = k.value
        if fill is not None and ast.unparse(fill) in ("np.nan", "numpy.nan", "np.NaN", "float('nan')"):
            if n == "full_like":
                # the dtype is inherited from the prototype: NaN exists only if that is a float array, which the
                # call does not establish (an integer weight / label array gives INT_MIN and truncated utilities)
                dt = next((ast.unparse(k.value) for k in e.keywords if k.arg == "dtype"), None)
                if dt not in ("float", "np.float64", "numpy.float64", "np.float_", "'float'", "'float64'", "np.double"):
                    return "nan_like"
            return "nan"
        return "num"
    if n in ("zeros", "ones", "empty", "zeros_like", "ones_like", "empty_like"):
        return "num"
    return None


def mapping_roles(fnode, locs):
    """Names holding the candidate mapping: second result of
    _transform_candidates (third of _transform_cand_annot too), parameters
    named by call sites are handled by the caller."""
    roles = set()
    for n in ast.walk(fnode):
        if isinstance(n, ast.Assign) and isinstance(n.value, ast.Call) and callname(n.value) in (
                "_transform_candidates", "_transform_cand_annot"):
            t = n.targets[0]
            if isinstance(t, (ast.Tuple, ast.List)) and len(t.elts) >= 2 and isinstance(t.elts[1], ast.Name):
                roles.add(t.elts[1].id)
    return roles


def check_nan_discipline(p, report, f, ff):
    fnode = f.node
    roles = mapping_roles(fnode, ff.locs)
    if "mapping" in f.all_param_names():
        roles.add("mapping")  # helper receiving the mapping (k_greedy_center, _update_distances)
    if not roles:
        return
    edges = dep_edges(fnode.body)
    for k in list(edges):
        edges[k] = {x for x in edges[k] if x in ff.locs}
    mderived = forward_closure(roles, edges)
    tree = FuncTree(fnode)
    # names that are utilities: returned (any position), handed to
    # simple_batch, or the operand of a selection call
    useeds = set()
    for n in ast.walk(fnode):
        if isinstance(n, ast.Return) and n.value is not None and not _in_nested(fnode, n):
            useeds |= value_sources(n.value, ff.locs)
            if isinstance(n.value, ast.Call):
                for a in n.value.args[:1]:
                    useeds |= value_sources(a, ff.locs)
        if isinstance(n, ast.Call) and (callname(n) == "simple_batch" or is_selection_call(n)) and n.args:
            useeds |= value_sources(n.args[0], ff.locs)
    utils = closure(useeds, ff.vedges)
    # all name definitions
    defs = {}
    for n in ast.walk(fnode):
        if isinstance(n, ast.Assign):
            for t in n.targets:
                if isinstance(t, ast.Name):
                    defs.setdefault(t.id, []).append(n)
    # locals that hold the number of samples (role, not name): n = len(X) / X.shape[0] / len(y) / y.shape[0]
    size_names = set()
    for nm, ds in defs.items():
        if len(ds) == 1 and ast.unparse(ds[0].value).replace(" ", "") in (
                "len(X)", "X.shape[0]", "len(y)", "y.shape[0]", "np.size(X,0)", "np.size(y,0)"):
            size_names.add(nm)
    for n in ast.walk(fnode):
        if not isinstance(n, ast.Assign):
            continue
        for t in n.targets:
            if not isinstance(t, ast.Subscript):
                continue
            b = base_name(t)
            if b is None or b.startswith("self.") or b not in utils:
                continue
            last = t.slice
            idx = names_in(last) & ff.locs
            is_scatter = bool(idx & mderived)
            whole_row = not isinstance(t.slice, ast.Tuple) and not isinstance(t.value, ast.Subscript) \
                and not is_scatter
            # nearest dominating definition(s) of the base
            cands = [d for d in defs.get(b, []) if dominates(tree, d, n)]
            if cands:
                cands = [max(cands, key=lambda d: d.lineno)]
            else:
                cands = defs.get(b, [])
            kinds = [(alloc_kind(d.value), d) for d in cands]
            kinds = [(k, d) for k, d in kinds if k is not None]
            if not kinds:
                continue  # not a freshly allocated array (e.g. a row of another array)
            bad = [d for k, d in kinds if k != "nan"]
            # only XROW-long allocations matter: shape mentions len(X)/X.shape
            construct = f"scatter `{norm_stmt(n, 90)}`"
            shape_txt = " ".join(ast.unparse(d.value) for _, d in kinds)
            xrow = ("len(X)" in shape_txt) or ("X.shape[0]" in shape_txt) or ("len(y)" in shape_txt) \
                or ("n_samples" in shape_txt) or any(
                    isinstance(x, ast.Name) and x.id in size_names for _, d in kinds for x in ast.walk(d.value))
            if not xrow and is_scatter and any(k == "nan_like" for k, _ in kinds):
                xrow = True   # `full_like(prototype, nan)` scattered through the mapping: the prototype's length AND dtype
            if not xrow:
                continue
            if not is_scatter:
                if bad:
                    continue
                # store into a NaN-disciplined utilities array at positions
                # that are not derived from the mapping
                okv = is_nan_expr(n.value) or whole_row
                report.add("R1.3", f.qual, f"non-mapping store `{norm_stmt(n, 90)}`", f"{f.file}:{n.lineno}", okv,
                           detail="stores NaN/-inf or a whole row" if okv else
                           "a number is written at positions that are not derived from the candidate mapping")
                continue
            report.add("R1.3", f.qual, construct, f"{f.file}:{n.lineno}", not bad,
                       detail="target allocated NaN-filled" if not bad else
                       (f"target allocated by `{norm_stmt(bad[0].value, 60)}`: it inherits the dtype of its prototype, and only a "
                        f"float array can hold NaN - for an integer prototype (0/1 weights, labels) the fill is INT_MIN and the "
                        f"utilities are truncated, on the mapping path only" if any(k == "nan_like" for k, _ in kinds) else
                        f"target allocated by `{norm_stmt(bad[0].value, 60)}`: positions outside the candidate "
                        f"mapping carry numbers and can be selected"))


# ---------------------------------------------------------------------------
def check_choice_replace(p, report, funcs, facts):
    for f in funcs:
        ff = facts[id(f.node)]
        for n in ast.walk(f.node):
            if not (isinstance(n, ast.Call) and callname(n) == "choice" and isinstance(n.func, ast.Attribute)):
                continue
            if not is_selection_call(n):
                continue
            # does the result flow (as value) to the returned value?
            tgt = set()
            for st in ast.walk(f.node):
                if isinstance(st, ast.Assign) and any(x is n for x in ast.walk(st.value)):
                    for t in st.targets:
                        b = base_name(t)
                        if b:
                            tgt.add(b)
                elif isinstance(st, ast.Return) and st.value is not None and any(x is n for x in ast.walk(st.value)):
                    tgt.add("<return>")
            vfw = forward_closure(tgt, ff.vedges) | tgt
            all_ret = set()
            for rn in ast.walk(f.node):
                if isinstance(rn, ast.Return) and rn.value is not None:
                    all_ret |= value_sources(rn.value, ff.locs)
            retc = closure(all_ret, ff.vedges)
            if "<return>" not in tgt and not (vfw & retc):
                continue
            size = None
            if len(n.args) >= 2:
                size = n.args[1]
            replace = None
            if len(n.args) >= 3:
                replace = n.args[2]
            for k in n.keywords:
                if k.arg == "size":
                    size = k.value
                if k.arg == "replace":
                    replace = k.value
            single = size is None or (isinstance(size, ast.Constant) and size.value == 1)
            norep = isinstance(replace, ast.Constant) and replace.value is False
            if f.name in ("_batch_multi_choices", "_bootstrap_estimators"):
                continue
            report.add("R1.8", f.qual, f"choice {site_id(n, 80)}", f"{f.file}:{n.lineno}", single or norep,
                       detail="size 1" if single else ("replace=False" if norep else
                       "multi-element draw with replacement: the batch may contain duplicates"))


NAN_CONSTS = {"np.nan", "numpy.nan", "float('nan')", 'float("nan")', "-np.inf", "-numpy.inf", "np.NaN", "math.nan", "-math.inf",
              "np.NINF", "-float('inf')"}


def check_no_candidate_removal(p, report, funcs):
    for f in funcs:
        if f.name != "query" or f.cls is None:
            continue
        sb = [c for c in ast.walk(f.node) if isinstance(c, ast.Call) and callname(c) == "simple_batch" and c.args]
        if not sb:
            continue
        maps = _mapping_names(f)
        tree = FuncTree(f.node)
        for c in sb:
            u = c.args[0]
            base = base_name(u) if isinstance(u, (ast.Name, ast.Subscript)) else None
            if base is None:
                continue
            # aliases of the utilities array by plain assignment
            names = {base}
            for _ in range(2):
                for a in ast.walk(f.node):
                    if isinstance(a, ast.Assign) and isinstance(a.value, ast.Name) and a.value.id in names:
                        names |= {t.id for t in a.targets if isinstance(t, ast.Name)}
            bad = None
            n_st = 0
            for a in ast.walk(f.node):
                if not (isinstance(a, ast.Assign) and len(a.targets) == 1 and isinstance(a.targets[0], ast.Subscript)
                        and base_name(a.targets[0]) in names and a.lineno < c.lineno):
                    continue
                if ast.unparse(a.value).replace(" ", "") not in {x.replace(" ", "") for x in NAN_CONSTS}:
                    continue
                if any(isinstance(o, (ast.For, ast.While)) for (_s, o, _f, _i) in tree.ancestors(a)):
                    continue   # selection loops are judged by R1.4m
                n_st += 1
                ix = index_names(a.targets[0])
                if not (ix & maps) and bad is None:
                    bad = a
            report.add("R1.12", f.qual, f"utilities of `{norm_stmt(tree.stmt_of(c), 50)}` keep every offered candidate",
                       f"{f.file}:{(bad or c).lineno}", bad is None, nontrivial=n_st > 0,
                       detail=f"{n_st} constant NaN/-inf store(s), each indexed through the mapping" if bad is None else
                       f"`{norm_stmt(bad, 60)}` blanks entries selected by something other than the candidate mapping: an "
                       f"offered candidate that it hits can no longer be chosen, and the query returns fewer than "
                       f"min(batch_size, n_candidates) indices")


def _mapping_names(f):
    """names bound to the second result of _transform_candidates and what is derived from them by plain assignment"""
    out = set()
    for a in ast.walk(f.node):
        if isinstance(a, ast.Assign) and isinstance(a.value, ast.Call) and callname(a.value) in ("_transform_candidates",) \
                and isinstance(a.targets[0], (ast.Tuple, ast.List)) and len(a.targets[0].elts) >= 2 \
                and isinstance(a.targets[0].elts[1], ast.Name):
            out.add(a.targets[0].elts[1].id)
    for _ in range(3):
        for a in ast.walk(f.node):
            if isinstance(a, ast.Assign) and names_in(a.value) & out:
                for t in a.targets:
                    for x in (t.elts if isinstance(t, (ast.Tuple, ast.List)) else [t]):
                        if isinstance(x, ast.Name):
                            out.add(x.id)
    return out


def check_zero_guarded_quotients(p, report, funcs):
    n = 0
    for f in funcs:
        zero, lists = {}, {}
        for a in ast.walk(f.node):
            if not (isinstance(a, ast.Assign) and len(a.targets) == 1):
                continue
            pairs = []
            if isinstance(a.targets[0], ast.Name):
                pairs = [(a.targets[0], a.value)]
            elif isinstance(a.targets[0], (ast.Tuple, ast.List)) and isinstance(a.value, (ast.Tuple, ast.List)) \
                    and len(a.targets[0].elts) == len(a.value.elts):
                pairs = [(t, v) for t, v in zip(a.targets[0].elts, a.value.elts) if isinstance(t, ast.Name)]
            for t, v in pairs:
                if isinstance(v, ast.Constant) and v.value == 0 and not isinstance(v.value, bool):
                    zero[t.id] = a
                if (isinstance(v, ast.List) and not v.elts) or (isinstance(v, ast.Call) and callname(v) == "list" and not v.args):
                    lists[t.id] = a
        if not zero and not lists:
            continue
        tree = FuncTree(f.node)

        def conditional_only(name, is_list):
            """every growth of the counter / list sits under an `if`"""
            grows = []
            for a in ast.walk(f.node):
                if not is_list and isinstance(a, ast.AugAssign) and isinstance(a.target, ast.Name) and a.target.id == name:
                    grows.append(a)
                if not is_list and isinstance(a, ast.Assign) and a is not zero.get(name) \
                        and any(isinstance(t, ast.Name) and t.id == name for t in a.targets):
                    grows.append(a)
                if is_list and isinstance(a, ast.Expr) and isinstance(a.value, ast.Call) and isinstance(a.value.func, ast.Attribute) \
                        and a.value.func.attr in ("append", "extend") and base_name(a.value.func.value) == name:
                    grows.append(a)
            if not grows:
                return False
            return all(any(isinstance(o, ast.If) for (_s, o, _f, _i) in tree.ancestors(g)) for g in grows)

        for d in ast.walk(f.node):
            den = None
            if isinstance(d, ast.BinOp) and isinstance(d.op, (ast.Div, ast.FloorDiv)):
                den = d.right
            elif isinstance(d, ast.AugAssign) and isinstance(d.op, (ast.Div, ast.FloorDiv)):
                den = d.value
            if den is None:
                continue
            nm = None
            if isinstance(den, ast.Name) and den.id in zero and conditional_only(den.id, False):
                nm = den.id
            elif isinstance(den, ast.Call) and den.args and isinstance(den.args[0], ast.Name) and den.args[0].id in lists \
                    and (callname(den) or "") in ("sum", "len", "nansum") and conditional_only(den.args[0].id, True):
                nm = den.args[0].id
            if nm is None:
                continue
            n += 1
            st = tree.stmt_of(d)
            guarded = False
            for (s_, owner, field, idx) in tree.ancestors(st):
                if isinstance(owner, ast.If) and nm in names_in(owner.test):
                    guarded = True
                # an earlier guard clause in the same block: `if nm == 0: return ...`
                blk = getattr(owner, field, None)
                if isinstance(blk, list):
                    for prev in blk[:idx]:
                        if isinstance(prev, ast.If) and nm in names_in(prev.test) and prev.body \
                                and isinstance(prev.body[-1], (ast.Return, ast.Raise, ast.Continue)):
                            guarded = True
            report.add("R1.13", f.qual, f"quotient `{norm_stmt(st, 50)}` by the conditional count `{nm}` is zero-guarded",
                       f"{f.file}:{d.lineno}", guarded,
                       detail="under a test of the count" if guarded else
                       f"`{nm}` starts at zero and grows only under emptiness tests, and the division is not under a test of it: "
                       f"with nothing left to evaluate on it is 0/0 (ZeroDivisionError, or a NaN utility that simple_batch "
                       f"never selects - the last candidate is not returned)")
    report.analysed["quotients_by_conditional_counts"] = n
