"""C09 - independence from label / missing-label encoding (sentinel discipline)."""
import ast

from ..common import norm_stmt, site_id
from ..deps import names_in, base_name, dep_edges, closure
from ..index import ClassInfo, AnalysisError
from . import c01

PARTITIONERS = {"is_labeled": 1, "is_unlabeled": 1, "labeled_indices": 1, "unlabeled_indices": 1}
AGGREGATORS = {"compute_vote_vectors", "majority_vote", "ext_confusion_matrix"}
NAN_TXT = {"np.nan", "numpy.nan", "np.NaN", "float('nan')", "MISSING_LABEL"}


def sentinel_arg(call, name):
    for k in call.keywords:
        if k.arg == "missing_label":
            return k.value
    pos = PARTITIONERS.get(name)
    if pos is not None and len(call.args) > pos:
        return call.args[pos]
    return None


def prediction_roots(fnode):
    """locals assigned only from <x>.predict*(...) calls (no missing entries
    by construction) or arrays built from them."""
    defs = {}
    for n in ast.walk(fnode):
        if isinstance(n, ast.Assign):
            for t in n.targets:
                if isinstance(t, ast.Name):
                    defs.setdefault(t.id, []).append(n.value)
    out = set()

    def is_pred(e):
        if isinstance(e, ast.Call):
            n = c01.callname(e)
            if n in ("predict", "predict_proba", "predict_freq"):
                return True
            if n in ("array", "asarray", "column_stack", "vstack", "hstack") and e.args:
                a = e.args[0]
                if isinstance(a, (ast.ListComp, ast.GeneratorExp)):
                    return is_pred(a.elt)
                return is_pred(a)
        if isinstance(e, ast.Attribute) and e.attr == "T":
            return is_pred(e.value)
        if isinstance(e, ast.Name):
            return e.id in out
        return False
    changed = True
    while changed:
        changed = False
        for k, vs in defs.items():
            if k not in out and all(is_pred(v) for v in vs):
                out.add(k)
                changed = True
    return out


def run(p, report, tier):
    report.rule("R9.1", "every call that partitions or aggregates labels by the sentinel (is_labeled, is_unlabeled, "
                "labeled_indices, unlabeled_indices, compute_vote_vectors, majority_vote, ext_confusion_matrix) on an "
                "array that is not a model prediction binds missing_label explicitly; a literal -1 is accepted only on "
                "label-encoder output", floor=60)
    report.rule("R9.2", "an array that is concatenated with a label array is not created as np.full(n, np.nan): the "
                "filler must be the strategy's sentinel", floor=2)
    report.rule("R9.4", "outside utils/_label.py no function applies np.isnan / np.isfinite / np.nan_to_num directly to "
                "its label parameter (y, y_true, y_pred); missing labels are recognised only through the sentinel-aware "
                "predicates; equality with the sentinel is NaN-blind and equally forbidden", floor=1)
    report.rule("R9.5", "inside classifiers the label-encoded y returned by _validate_data is compared only with class "
                "indices (range(len(classes_))), never with the raw class values", floor=1)
    report.rule("R9.3", "project models and encoders constructed inside strategies / classifiers receive an explicit "
                "missing_label", floor=8)
    n_sites = 0
    for f in p.all_functions():
        if f.file.startswith("skactiveml/visualization"):
            continue
        preds = prediction_roots(f.node)
        edges = dep_edges(f.node.body)
        # label encoders by role: locals constructed as (Ext)LabelEncoder, and the classifiers' self._le
        encoders = {"self._le"}
        for n in ast.walk(f.node):
            if isinstance(n, ast.Assign) and isinstance(n.value, ast.Call) and c01.callname(n.value) in (
                    "ExtLabelEncoder", "LabelEncoder"):
                encoders |= {ast.unparse(t) for t in n.targets}

        def _is_encoder_call(call):
            return isinstance(call.func, ast.Attribute) and ast.unparse(call.func.value) in encoders
        # names holding label-encoder output
        enc = set()
        for n in ast.walk(f.node):
            if isinstance(n, ast.Assign) and isinstance(n.value, ast.Call) and c01.callname(n.value) in (
                    "fit_transform", "transform") and _is_encoder_call(n.value):
                enc |= {t.id for t in n.targets if isinstance(t, ast.Name)}
            if isinstance(n, ast.Assign) and isinstance(n.value, ast.Call) and c01.callname(n.value) == "_validate_data" \
                    and f.cls is not None and p.is_subclass(f.cls, "SkactivemlClassifier") \
                    and isinstance(n.targets[0], ast.Tuple) and len(n.targets[0].elts) >= 2 \
                    and isinstance(n.targets[0].elts[1], ast.Name):
                enc.add(n.targets[0].elts[1].id)  # classifiers' _validate_data returns encoded y
        # flow-sensitive (line order): name -> [(line, is_encoder_output)] of its bindings
        bindings = {}
        for n in ast.walk(f.node):
            if isinstance(n, ast.Assign):
                is_enc = isinstance(n.value, ast.Call) and (
                    (c01.callname(n.value) in ("fit_transform", "transform") and _is_encoder_call(n.value))
                    or (c01.callname(n.value) == "_validate_data" and f.cls is not None
                        and p.is_subclass(f.cls, "SkactivemlClassifier")))
                for t in n.targets:
                    elts = t.elts if isinstance(t, (ast.Tuple, ast.List)) else [t]
                    for i, e in enumerate(elts):
                        if isinstance(e, ast.Name):
                            enc_here = is_enc and (c01.callname(n.value) != "_validate_data" or i == 1)
                            bindings.setdefault(e.id, []).append((n.lineno, enc_here))

        def encoded_at(name, line):
            prior = [b for b in bindings.get(name, []) if b[0] < line]
            return bool(prior) and max(prior)[1]
        enc = closure_fw(enc, edges)
        for n in ast.walk(f.node):
            if not isinstance(n, ast.Call):
                continue
            nm = c01.callname(n)
            if nm not in PARTITIONERS and nm not in AGGREGATORS:
                continue
            r = p.resolve_expr(f.module, n.func) if isinstance(n.func, (ast.Name, ast.Attribute)) else None
            if r is None or r[0] != "func":
                continue
            n_sites += 1
            arr = n.args[0] if n.args else None
            for k in n.keywords:
                if k.arg in ("y", "y_true"):
                    arr = k.value
            sent = sentinel_arg(n, nm)
            ent = f.qual
            construct = f"{site_id(n, 80)}"
            if sent is None:
                is_prediction = arr is not None and (
                    (isinstance(arr, ast.Name) and arr.id in preds) or
                    (isinstance(arr, ast.Call) and c01.callname(arr) in ("predict", "predict_proba")))
                if is_prediction:
                    report.add("R9.1", ent, construct, f"{f.file}:{n.lineno}", True,
                               detail="array of model predictions (no missing entries by construction)", nontrivial=False)
                else:
                    report.add("R9.1", ent, construct, f"{f.file}:{n.lineno}", False,
                               detail="relies on the NaN default of missing_label: wrong but well-formed results for any other sentinel")
                continue
            txt = ast.unparse(sent)
            if txt == "-1":
                an = names_in(arr) if arr is not None else set()
                okenc = bool(an & enc) or (arr is not None and "transform" in ast.unparse(arr)) or \
                    f.qual.startswith("ExtLabelEncoder.") or (an and an <= enc)
                # functions that themselves encode first (compute_vote_vectors & co.)
                if not okenc and any(isinstance(x, ast.Call) and c01.callname(x) in ("fit_transform",)
                                     for x in ast.walk(f.node)):
                    okenc = bool(an & closure_fw({t.id for a in ast.walk(f.node) if isinstance(a, ast.Assign)
                                                  and isinstance(a.value, ast.Call) and c01.callname(a.value) == "fit_transform"
                                                  for t in a.targets if isinstance(t, ast.Name)}, edges))
                report.add("R9.1", ent, construct, f"{f.file}:{n.lineno}", okenc,
                           detail="literal -1 on label-encoder output" if okenc else
                           "literal sentinel -1 on an array that is not label-encoder output")
            elif txt in NAN_TXT:
                report.add("R9.1", ent, construct, f"{f.file}:{n.lineno}", False,
                           detail="NaN literal as sentinel instead of the configured missing_label")
            elif isinstance(arr, ast.Name) and encoded_at(arr.id, n.lineno) and "missing_label" in txt:
                report.add("R9.1", ent, construct, f"{f.file}:{n.lineno}", False,
                           detail=f"`{arr.id}` is label-encoder output (missing = -1) but is partitioned with the raw "
                                  f"sentinel `{txt}`: which samples count as labeled depends on the sentinel the user chose")
            else:
                report.add("R9.1", ent, construct, f"{f.file}:{n.lineno}", True, detail=f"sentinel `{txt}`")
    report.analysed["sentinel_call_sites"] = n_sites
    # ---------------- R9.2
    for f in p.all_functions():
        if f.file.startswith("skactiveml/visualization") or f.file.startswith("skactiveml/utils"):
            continue
        if "y" not in f.all_param_names():
            continue
        edges = dep_edges(f.node.body)
        ylike = closure_fw({"y"}, edges)
        for n in ast.walk(f.node):
            if isinstance(n, ast.Call) and c01.callname(n) in ("concatenate", "append", "hstack", "vstack", "r_"):
                parts = []
                for a in n.args:
                    parts += list(a.elts) if isinstance(a, (ast.List, ast.Tuple)) else [a]
                # a filler bound to a name first (`y_cand = np.full(...)`) is looked through
                resolved = []
                for x in parts:
                    if isinstance(x, ast.Name):
                        ds = [d for d in ast.walk(f.node) if isinstance(d, ast.Assign) and len(d.targets) == 1
                              and isinstance(d.targets[0], ast.Name) and d.targets[0].id == x.id]
                        if len(ds) == 1 and _is_alloc_full(ds[0].value):
                            resolved.append(ds[0].value)
                            continue
                    resolved.append(x)
                parts = resolved
                has_y = any((names_in(x) & ylike) and not _is_nan_full(x) for x in parts)
                fillers = [x for x in parts if _is_alloc_full(x)]
                if has_y and fillers:
                    for x in fillers:
                        bad = _is_nan_full(x)
                        report.add("R9.2", f.qual, f"label filler `{norm_stmt(x, 60)}`", f"{f.file}:{n.lineno}", not bad,
                                   detail="filler uses the configured sentinel" if not bad else
                                   "unlabeled filler is a NaN literal: with any other missing_label these entries count as labels")
    if report.count("R9.2") == 0:
        raise AnalysisError("C09 R9.2: no label-concatenation site found (anchor vanished)")
    # ---------------- R9.4 no direct NaN test on label arrays
    NAN_TEST_OK = {
        "_one_versus_rest_transform": "receives only the labeled, label-encoded subset y[mask_l] (Quire.query)",
    }
    n94 = 0
    for f in p.all_functions():
        if f.file.startswith("skactiveml/visualization") or f.file.endswith("utils/_label.py"):
            continue
        ypars = [a for a in f.all_param_names() if a in ("y", "y_true", "y_pred", "Y")]
        if not ypars:
            continue
        edges = dep_edges(f.node.body)
        ylike = closure_fw(set(ypars), edges) | set(ypars)
        for n in ast.walk(f.node):
            bad = None
            if isinstance(n, ast.Call) and c01.callname(n) in ("isnan", "isfinite", "nan_to_num") and n.args \
                    and isinstance(n.args[0], (ast.Name, ast.Subscript)):
                b = base_name(n.args[0]) if not isinstance(n.args[0], ast.Name) else n.args[0].id
                if b in ypars:
                    bad = n
            if bad is None and isinstance(n, ast.Compare) and len(n.ops) == 1 and isinstance(n.ops[0], (ast.Eq, ast.NotEq)):
                sides = [n.left, n.comparators[0]]
                sent = [x for x in sides if "missing_label" in ast.unparse(x)]
                arr = [x for x in sides if (names_in(x) & ylike) and "missing_label" not in ast.unparse(x)]
                if sent and arr and not f.qual.startswith("ExtLabelEncoder"):
                    bad = n
            # a NaN-aware reduction over the raw label array is a NaN test in disguise: with another sentinel
            # the sentinel values enter the statistic
            if bad is None and isinstance(n, ast.Call) and (c01.callname(n) or "").split(".")[-1] in (
                    "nanvar", "nanmean", "nansum", "nanstd", "nanmax", "nanmin", "nanmedian", "nanprod") and n.args:
                a0 = n.args[0]
                b = a0.id if isinstance(a0, ast.Name) else (base_name(a0) if isinstance(a0, ast.Subscript) else None)
                if b in ypars:
                    # selecting with the labeled mask first makes the reduction independent of the sentinel
                    masks = {t.id for d in ast.walk(f.node) if isinstance(d, ast.Assign) and isinstance(d.value, ast.Call)
                             and c01.callname(d.value) in ("is_labeled", "labeled_indices") for t in d.targets if isinstance(t, ast.Name)}
                    if not (isinstance(a0, ast.Subscript) and (names_in(a0.slice) & masks)):
                        bad = n
            if bad is not None:
                n94 += 1
                exc = NAN_TEST_OK.get(f.name)
                report.add("R9.4", f.qual, f"NaN test on the label array `{norm_stmt(bad, 50)}`", f"{f.file}:{bad.lineno}",
                           exc is not None, detail=("accepted: " + exc) if exc else
                           "missing labels are recognised by a NaN test instead of is_unlabeled(y, missing_label): "
                           "wrong for every other sentinel")
    # membership / hash based uses of the sentinel are equality tests in disguise (NaN != NaN, and a NaN taken out of an
    # array is not the NaN object of the sentinel): `missing_label in y`, set.discard(missing_label), np.isin(y, missing_label)
    n94b = 0
    for f in p.all_functions():
        if f.file.startswith("skactiveml/visualization") or f.file.endswith("utils/_label.py") or "/tests/" in f.file:
            continue
        for n in ast.walk(f.node):
            bad = None
            if isinstance(n, ast.Compare) and len(n.ops) == 1 and isinstance(n.ops[0], (ast.In, ast.NotIn)):
                l, r = n.left, n.comparators[0]
                if "missing_label" in ast.unparse(l) and not isinstance(r, (ast.Tuple, ast.List, ast.Set, ast.Dict)) \
                        and "signature" not in ast.unparse(r) and "params" not in ast.unparse(r) and not isinstance(l, ast.Constant):
                    bad = n
            if isinstance(n, ast.Call):
                cn = (c01.callname(n) or "").split(".")[-1]
                if cn in ("discard", "remove", "index", "count") and isinstance(n.func, ast.Attribute) and n.args \
                        and "missing_label" in ast.unparse(n.args[0]) and not isinstance(n.args[0], ast.Constant):
                    bad = n
                if cn in ("isin", "in1d", "setdiff1d", "setxor1d", "intersect1d", "union1d") and len(n.args) >= 2 \
                        and "missing_label" in ast.unparse(n.args[1]):
                    bad = n
            if bad is not None:
                n94b += 1
                report.add("R9.4", f.qual, f"sentinel matched by equality / hashing in `{norm_stmt(bad, 50)}`", f"{f.file}:{bad.lineno}",
                           False, detail="`in`, set.discard / remove, list.index / count and np.isin compare with == (or by hash): none of "
                           "them ever finds a NaN sentinel, while they do find -1, None or a string - the code takes another branch "
                           "depending on how missing labels are encoded; use is_unlabeled / is_labeled")
    report.analysed["nan_tests_on_label_arrays"] = n94
    report.analysed["sentinel_membership_tests"] = n94b
    # ---------------- R9.5 encoded labels are compared with class indices, not class values
    n95 = 0
    for f in p.all_functions():
        if f.cls is None or not p.is_subclass(f.cls, "SkactivemlClassifier"):
            continue
        enc = set()
        for n in ast.walk(f.node):
            if isinstance(n, ast.Assign) and isinstance(n.value, ast.Call) and c01.callname(n.value) == "_validate_data" \
                    and isinstance(n.targets[0], ast.Tuple) and len(n.targets[0].elts) >= 2 \
                    and isinstance(n.targets[0].elts[1], ast.Name):
                enc.add(n.targets[0].elts[1].id)
        if not enc:
            continue
        for n in ast.walk(f.node):
            gens = []
            if isinstance(n, (ast.ListComp, ast.GeneratorExp, ast.SetComp)):
                gens = [(g.target, g.iter, n.elt) for g in n.generators]
            elif isinstance(n, ast.For):
                gens = [(n.target, n.iter, n)]
            for tgt, it, body in gens:
                if not isinstance(tgt, ast.Name):
                    continue
                cmp_ = [c for c in ast.walk(body) if isinstance(c, ast.Compare) and len(c.ops) == 1
                        and isinstance(c.ops[0], (ast.Eq, ast.NotEq))
                        and tgt.id in names_in(c) and (names_in(c) & enc)]
                if not cmp_:
                    continue
                n95 += 1
                txt = ast.unparse(it).replace(" ", "")
                idx_space = txt.startswith("range(") or txt.startswith("np.arange(")
                report.add("R9.5", f.qual, f"encoded labels compared with `{norm_stmt(it, 40)}`", f"{f.file}:{cmp_[0].lineno}",
                           idx_space, detail="class indices 0..K-1 (the encoder's codomain)" if idx_space else
                           "label-encoded y is compared with raw class values: correct only when the classes are literally 0..K-1")
    report.analysed["encoded_label_comparisons"] = n95
    # ---------------- R9.3
    for f in p.all_functions():
        if f.file.startswith("skactiveml/visualization"):
            continue
        for n in ast.walk(f.node):
            if not isinstance(n, ast.Call):
                continue
            r = p.resolve_expr(f.module, n.func) if isinstance(n.func, (ast.Name, ast.Attribute)) else None
            if r is None or r[0] != "class":
                continue
            ci = r[1]
            params = p.ctor_params(ci)
            if "missing_label" not in params:
                continue
            init = p.find_method(ci, "__init__")
            pos = [a.arg for a in init.node.args.args][1:] if init else []
            has = any(k.arg == "missing_label" for k in n.keywords) or any(k.arg is None for k in n.keywords) or \
                ("missing_label" in pos and len(n.args) > pos.index("missing_label"))
            report.add("R9.3", f.qual, f"construction {site_id(n, 70)}", f"{f.file}:{n.lineno}", has,
                       detail="missing_label passed explicitly" if has else
                       f"{ci.name} is constructed with the NaN default sentinel")
    # ---------------- R9.7 after the labels were encoded the raw class list is used only through the encoder
    report.rule("R9.7", "in a function that label-encodes y (le.fit_transform / transform) the raw class list "
                "(self.classes / classes) is, from then on, used only as an argument of the encoder or of a "
                "validator / len(): encoded labels are never compared with raw class values", floor=2)
    ALLOWED97 = {"argsort", "transform", "fit_transform", "fit", "ExtLabelEncoder", "LabelEncoder", "len", "check_classes", "check_type",
                 "check_cost_matrix", "check_class_prior", "check_scalar", "format", "isinstance", "compute_vote_vectors",
                 "majority_vote", "ext_confusion_matrix", "ParzenWindowClassifier", "MixtureModelClassifier"}
    n97 = 0
    for f in p.all_functions():
        if f.file.startswith("skactiveml/visualization") or "/tests/" in f.file:
            continue
        encs = {"self._le"}
        for n in ast.walk(f.node):
            if isinstance(n, ast.Assign) and isinstance(n.value, ast.Call) and c01.callname(n.value) in (
                    "ExtLabelEncoder", "LabelEncoder"):
                encs |= {ast.unparse(t) for t in n.targets}
        enc_lines = [n.lineno for n in ast.walk(f.node) if isinstance(n, ast.Assign) and isinstance(n.value, ast.Call)
                     and c01.callname(n.value) in ("fit_transform", "transform") and isinstance(n.value.func, ast.Attribute)
                     and ast.unparse(n.value.func.value) in encs and n.value.args
                     and (names_in(n.value.args[0]) & {"y", "y_true", "y_pred"})]
        if not enc_lines:
            continue
        first = min(enc_lines)
        parents = {}
        for x in ast.walk(f.node):
            for ch in ast.iter_child_nodes(x):
                parents[ch] = x
        for x in ast.walk(f.node):
            is_raw = (isinstance(x, ast.Attribute) and x.attr == "classes" and isinstance(x.value, ast.Name)
                      and x.value.id == "self" and isinstance(x.ctx, ast.Load)) or (
                isinstance(x, ast.Name) and x.id == "classes" and isinstance(x.ctx, ast.Load)
                and "classes" in f.all_param_names())
            if not is_raw or x.lineno <= first:
                continue
            cur, call = x, None
            while cur in parents and not isinstance(parents[cur], ast.stmt):
                cur = parents[cur]
                if isinstance(cur, ast.Call):
                    call = cur
                    break
            st = x
            while st in parents and not isinstance(st, ast.stmt):
                st = parents[st]
            ok = (call is not None and c01.callname(call) in ALLOWED97) or (
                isinstance(parents.get(x), ast.Compare) and any(isinstance(c_, ast.Constant) and c_.value is None
                                                                 for c_ in parents[x].comparators))
            n97 += 1
            report.add("R9.7", f.qual, f"raw classes in `{norm_stmt(st, 70)}` after the labels were encoded", f"{f.file}:{x.lineno}",
                       ok, detail="only handed to the encoder / a validator" if ok else
                       "the raw class values are used next to label-encoded y: correct only when the classes are literally "
                       "0..K-1")
    report.analysed["raw_class_uses_after_encoding"] = n97
    # ---------------- R9.6 predictions are re-encoded originals: indices are decoded (shared with C11 R11.1)
    from . import c11
    report.rule("R9.6", "predict of every project classifier decodes a class index selected over costs / probabilities "
                "through the label encoder (or classes_[.]) on every path before returning it, so predictions are "
                "the re-encoded originals for any class naming (shared with C11 R11.1)", floor=3)
    c11.check_index_decoded(p, report, c11.classifier_classes(p), "R9.6")
    # ---------------- R9.8 classes and sentinel of an internal model are overridden together
    report.rule("R9.8", "a model that a strategy re-targets to its own label encoding (override of `classes` on an object "
                "other than self, by attribute store or set_params) gets the matching `missing_label` in the same "
                "function: keeping the user's sentinel while training on internal targets collides as soon as that "
                "sentinel is one of the internal class values (or of another type)", floor=2)
    for f in p.all_functions():
        if "/tests/" in f.file or f.file.startswith("skactiveml/visualization"):
            continue
        over = {}
        for n in ast.walk(f.node):
            if isinstance(n, ast.Assign):
                for t in n.targets:
                    if isinstance(t, ast.Attribute) and t.attr in ("classes", "missing_label") and not (
                            isinstance(t.value, ast.Name) and t.value.id == "self"):
                        over.setdefault(ast.unparse(t.value), {})[t.attr] = n
            if isinstance(n, ast.Call) and isinstance(n.func, ast.Attribute) and n.func.attr == "set_params":
                recv = n.func.value
                # clone(x).set_params(...) re-targets the clone bound to the assignment's target
                key = ast.unparse(recv)
                if isinstance(recv, ast.Name) and recv.id == "self":
                    continue
                for k in n.keywords:
                    if k.arg in ("classes", "missing_label"):
                        over.setdefault(key, {})[k.arg] = n
        # `x = clone(d).set_params(classes=..)` and later `x.missing_label = ..` describe the same object
        for n in ast.walk(f.node):
            if isinstance(n, ast.Assign) and len(n.targets) == 1 and isinstance(n.targets[0], ast.Name) \
                    and isinstance(n.value, ast.Call) and isinstance(n.value.func, ast.Attribute) \
                    and n.value.func.attr == "set_params":
                src = ast.unparse(n.value.func.value)
                if src in over:
                    over.setdefault(n.targets[0].id, {}).update(over.pop(src))
        for recv, d in sorted(over.items()):
            if "classes" not in d:
                continue
            ok = "missing_label" in d
            report.add("R9.8", f.qual, f"`{recv}` re-targeted: classes and missing_label overridden together", f"{f.file}:{d['classes'].lineno}",
                       ok, detail="both overridden" if ok else
                       f"`{norm_stmt(d['classes'], 60)}` overrides the classes but the model keeps the user's missing_label")
    report.rule("R9.10", "an array created as np.full(shape, <missing label>) without a dtype has the sentinel's own type: it "
                "serves as a label filler only (concatenated with / handed on as labels) and never receives element stores - "
                "predictions written into it are truncated to the sentinel's width ('cobra' -> 'cob' for 'nan', 1.5 -> 1 for "
                "-1), so the outcome depends on how missing labels are spelled", floor=1)
    n910 = 0
    for f in p.all_functions():
        if "/tests/" in f.file:
            continue
        for a in ast.walk(f.node):
            if not (isinstance(a, ast.Assign) and len(a.targets) == 1 and isinstance(a.targets[0], ast.Name)
                    and isinstance(a.value, ast.Call) and (c01.callname(a.value) or "") == "full"):
                continue
            c = a.value
            fill = c.args[1] if len(c.args) >= 2 else next((k.value for k in c.keywords if k.arg == "fill_value"), None)
            if fill is None or "missing_label" not in ast.unparse(fill) or any(k.arg == "dtype" for k in c.keywords):
                continue
            nm = a.targets[0].id
            n910 += 1
            stores = [st for st in ast.walk(f.node) if isinstance(st, (ast.Assign, ast.AugAssign))
                      and any(isinstance(t, ast.Subscript) and base_name(t) == nm
                              for t in (st.targets if isinstance(st, ast.Assign) else [st.target]))]
            report.add("R9.10", f.qual, f"sentinel-typed `{norm_stmt(a, 60)}` is a filler only", f"{f.file}:{a.lineno}",
                       not stores, detail="never written element-wise" if not stores else
                       f"`{norm_stmt(stores[0], 60)}` writes other values into an array whose dtype was fixed by the sentinel "
                       f"alone: with a short string or an integer sentinel the stored labels / predictions are truncated")
    report.analysed["sentinel_typed_arrays"] = n910
    report.rule("R9.9", "labels are only ever turned into codes by looking them up among the classes: every return of "
                "ExtLabelEncoder.transform is the array filled from the exact lookup (no shortcut for label arrays that "
                "'already look encoded' - whether they do depends on the label values; shared with C16 R16.9)", floor=2)
    from . import c16 as _c16
    _c16.check_exact_lookup(p, c01.Report_proxy(report, {"R16.9": "R9.9"}), "R16.9")
    report.assumptions += ["equality of outputs under order-preserving renaming is not decided",
                           "calls on model predictions and pure validators are outside R9.1"]


def closure_fw(seeds, edges):
    from ..deps import forward_closure
    return forward_closure(set(seeds), edges) if seeds else set()


def _is_alloc_full(x):
    return isinstance(x, ast.Call) and c01.callname(x) in ("full", "full_like")


def _is_nan_full(x):
    if not _is_alloc_full(x):
        return False
    fill = x.args[1] if len(x.args) > 1 else None
    for k in x.keywords:
        if k.arg == "fill_value":
            fill = k.value
    return fill is not None and ast.unparse(fill) in ("np.nan", "numpy.nan", "np.NaN", "float('nan')", "MISSING_LABEL")
