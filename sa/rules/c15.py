"""C15 - regressor predictions are coherent with their distribution."""
import ast
from ..astutil import inline_temporaries as _it

from ..common import norm_stmt
from ..deps import names_in, base_name
from ..index import ClassInfo, AnalysisError
from ..paths import MustAnalysis, DefiniteAssignment, describe
from .c03 import is_abstract
from . import c01


class AttrDefined(MustAnalysis):
    """tokens 'a:<attr>' = self.<attr> stored on this path."""

    def gen(self, stmt):
        out = []
        if isinstance(stmt, ast.Assign):
            for t in stmt.targets:
                if isinstance(t, ast.Attribute) and isinstance(t.value, ast.Name) and t.value.id == "self":
                    out.append("a:" + t.attr)
        return out


NO_IDENTITY = {"min", "max", "argmin", "argmax", "nanmin", "nanmax", "amin", "amax", "nanargmin", "nanargmax", "ptp"}


def _empty_value(e, sel):
    """Abstract value of expression e when every array in `sel` (names of labeled selections) is EMPTY:
    returns ("num", v) / ("bool", b) / None (unknown)."""
    if isinstance(e, ast.Constant) and isinstance(e.value, (int, float, bool)):
        return ("bool", e.value) if isinstance(e.value, bool) else ("num", e.value)
    if isinstance(e, ast.Call):
        fn = (c01.callname(e) or "").split(".")[-1]
        opnds = list(e.args[:1]) + ([e.func.value] if isinstance(e.func, ast.Attribute) and not (
            isinstance(e.func.value, ast.Name) and e.func.value.id in ("np", "numpy")) else [])
        touches = any(_is_sel(o, sel) for o in opnds)
        if touches:
            if fn in ("sum", "nansum", "count_nonzero", "len", "size"):
                return ("num", 0)
            if fn == "any":
                return ("bool", False)
            if fn == "all":
                return ("bool", True)
        return None
    if isinstance(e, ast.Attribute) and e.attr == "size" and _is_sel(e.value, sel):
        return ("num", 0)
    if isinstance(e, ast.UnaryOp) and isinstance(e.op, ast.Not):
        v = _empty_value(e.operand, sel)
        if v is None:
            return None
        return ("bool", not bool(v[1]))
    if isinstance(e, ast.BoolOp):
        vals = [_empty_value(v, sel) for v in e.values]
        if isinstance(e.op, ast.And):
            if any(v is not None and not bool(v[1]) for v in vals):
                return ("bool", False)
            return ("bool", True) if all(v is not None for v in vals) else None
        if any(v is not None and bool(v[1]) for v in vals):
            return ("bool", True)
        return ("bool", False) if all(v is not None for v in vals) else None
    if isinstance(e, ast.Compare) and len(e.ops) == 1:
        a, b = _empty_value(e.left, sel), _empty_value(e.comparators[0], sel)
        if a is None or b is None:
            return None
        x, y = a[1], b[1]
        op = e.ops[0]
        try:
            r = {ast.Eq: x == y, ast.NotEq: x != y, ast.Lt: x < y, ast.LtE: x <= y, ast.Gt: x > y, ast.GtE: x >= y}.get(type(op))
        except TypeError:
            r = None
        return None if r is None else ("bool", r)
    return None


def _is_sel(e, sel):
    """e denotes a selection of the labeled rows: a name in `sel`, or `<array>[<mask name in sel>]`"""
    if isinstance(e, ast.Name):
        return e.id in sel
    if isinstance(e, ast.Subscript):
        return bool(names_in(e.slice) & sel) or _is_sel(e.value, sel)
    if isinstance(e, ast.Call) and isinstance(e.func, ast.Attribute) and e.func.attr in ("ravel", "flatten", "copy", "astype"):
        return _is_sel(e.func.value, sel)
    return False


def check_no_raise_on_empty(p, report):
    from ..astutil import FuncTree
    n = 0
    for cname in ("SklearnRegressor", "SklearnNormalRegressor"):
        ci = p.get_class(cname)
        if ci is None:
            raise AnalysisError(f"{cname} vanished")
        for mn in ("_fit", "fit", "partial_fit"):
            f = ci.methods.get(mn)
            if f is None:
                continue
            # the labeled mask(s): results of is_labeled(...) and everything selected by them
            sel = set()
            for a in ast.walk(f.node):
                if isinstance(a, ast.Assign) and isinstance(a.value, ast.Call) and (c01.callname(a.value) or "") in ("is_labeled",):
                    sel |= {t.id for t in a.targets if isinstance(t, ast.Name)}
            if not sel:
                continue
            for _ in range(3):
                for a in ast.walk(f.node):
                    if isinstance(a, ast.Assign) and isinstance(a.value, ast.Subscript) and names_in(a.value.slice) & sel:
                        sel |= {t.id for t in a.targets if isinstance(t, ast.Name)}
            tree = FuncTree(f.node)
            for r in ast.walk(f.node):
                if not isinstance(r, ast.Raise):
                    continue
                st = tree.stmt_of(r)
                conds = []
                for (s_, owner, field, idx) in tree.ancestors(st):
                    if isinstance(owner, ast.If):
                        conds.append((owner.test, field == "body"))
                    elif isinstance(owner, (ast.Try,)) and field == "handlers":
                        conds = None
                        break
                if not conds:
                    continue
                vals = []
                for (t, pol) in conds:
                    v = _empty_value(t, sel)
                    vals.append(None if v is None else (bool(v[1]) == pol))
                if not any(x is not None for x in vals):
                    continue   # the guard does not look at the labeled selection
                n += 1
                reaches = all(x is not False for x in vals) and any(x is True for x in vals)
                report.add("R15.13", f.qual, f"`{norm_stmt(st, 50)}` is not reached by an empty labeled selection",
                           f"{f.file}:{r.lineno}", not reaches,
                           detail="an enclosing test is false for the empty selection" if not reaches else
                           f"the guard `{ast.unparse(conds[0][0])[:70]}` holds when no sample is labeled (sum of nothing is 0, "
                           f"any() of nothing is False, all() of nothing is True): a cold-start fit with these arguments raises "
                           f"instead of arming the documented fallback (mean 0 / std 1)")
    report.analysed["raises_guarded_by_labeled_selection"] = n


def check_empty_safe(p, report):
    regs = [ci for ci in p.classes.values() if "/tests/" not in ci.file and (
        ci.file.startswith("skactiveml/regressor/") or ci.name in ("SkactivemlRegressor", "ProbabilisticRegressor"))]
    n8 = 0
    for ci in sorted(regs, key=lambda c: c.name):
        for mn, f in sorted(ci.methods.items()):
            if is_abstract(f):
                continue
            # R15.8
            if mn in ("_validate_data", "fit", "_fit", "partial_fit"):
                params = set(f.all_param_names()) - {"self"}
                arrays = {"X", "y", "sample_weight"} & params
                # names derived from them by plain assignment / masking
                for _ in range(3):
                    for n in ast.walk(f.node):
                        if isinstance(n, ast.Assign) and isinstance(n.value, (ast.Subscript, ast.Name, ast.Call)) \
                                and names_in(n.value) & arrays:
                            for t in n.targets:
                                for x in (t.elts if isinstance(t, (ast.Tuple, ast.List)) else [t]):
                                    if isinstance(x, ast.Name):
                                        arrays.add(x.id)
                from ..astutil import FuncTree
                tree = FuncTree(f.node)
                for c in ast.walk(f.node):
                    if not (isinstance(c, ast.Call) and (c01.callname(c) or "").split(".")[-1] in NO_IDENTITY
                            and not any(k.arg == "initial" for k in c.keywords)):
                        continue
                    opnds = list(c.args[:1]) + ([c.func.value] if isinstance(c.func, ast.Attribute) and not (
                        isinstance(c.func.value, ast.Name) and c.func.value.id in ("np", "numpy")) else [])
                    hit = [nm for o in opnds for nm in names_in(o) if nm in arrays]
                    if not hit:
                        continue
                    st = tree.stmt_of(c)
                    guarded = False
                    for (s_, owner, field, idx) in tree.ancestors(st):
                        if isinstance(owner, ast.If) and field == "body":
                            t = ast.unparse(owner.test).replace(" ", "")
                            if any(g in t for nm in hit for g in (f"len({nm})>0", f"len({nm})!=0", f"{nm}.size>0", f"len({nm})",
                                                                   f"{nm}.shape[0]>0")) and "==0" not in t:
                                guarded = True
                    # the test of an `if` is itself a use
                    n8 += 1
                    report.add("R15.8", f.qual, f"`{norm_stmt(c, 60)}` tolerates an empty training set", f"{f.file}:{c.lineno}", guarded,
                               detail="under an emptiness guard" if guarded else
                               f"`{ast.unparse(c)}` raises on an empty `{hit[0]}` (zero-size array to reduction operation): fit on "
                               f"an empty training set fails instead of falling back to the prior / label-free prediction")
            # R15.9
            for t in ast.walk(f.node):
                if isinstance(t, ast.Try) and any(
                        isinstance(c, ast.Call) and ("estimator_" in ast.unparse(c.func) and ("fit" in ast.unparse(c.func)))
                        for b in t.body for c in ast.walk(b)):
                    broad = any(h.type is None or (isinstance(h.type, ast.Name) and h.type.id in ("Exception", "BaseException"))
                                or (isinstance(h.type, ast.Tuple) and any(isinstance(e, ast.Name) and e.id in ("Exception", "BaseException")
                                                                           for e in h.type.elts)) for h in t.handlers)
                    report.add("R15.9", f.qual, "wrapped fit failure arms the fallback for every exception type", f"{f.file}:{t.lineno}",
                               broad, detail="except Exception" if broad else
                               "only " + ", ".join(ast.unparse(h.type) for h in t.handlers if h.type is not None) +
                               " is caught: an estimator that signals too little data with another exception makes fit fail")
            # R15.10
            kw = f.node.args.kwarg
            if kw is not None and not mn.startswith("__"):
                used = any(isinstance(x, ast.Name) and x.id == kw.arg for b in f.node.body for x in ast.walk(b))
                report.add("R15.10", f.qual, f"**{kw.arg} is forwarded", f"{f.file}:{f.node.lineno}", used,
                           detail="forwarded" if used else
                           f"the method accepts **{kw.arg} and drops them: a random_state given by the caller never reaches "
                           f"the sampling function (draws from the global generator / not reproducible)")
    report.analysed["identity_less_reductions_in_regressor_fits"] = n8


def run(p, report, tier):
    report.rule("R15.1", "ProbabilisticRegressor.predict binds the result of exactly one predict_target_distribution(X) "
                "call and every element of the returned tuple is .mean()/.std()/.entropy() of that binding", floor=2)
    report.rule("R15.2", "for every concrete subclass of ProbabilisticRegressor, predict resolves (MRO) to "
                "ProbabilisticRegressor.predict or to an override that calls predict_target_distribution", floor=3)
    report.rule("R15.3", "sample_y draws rvs(size=(n_samples, len(X))) and returns the transpose; the NotFittedError "
                "fallback of SklearnRegressor._sample draws (len(X), n_samples)", floor=2)
    report.rule("R15.4", "SklearnRegressor.predict and _sample wrap the delegated call in try/except NotFittedError "
                "whose handler returns arrays built from self._label_mean (and _label_std when a deviation is "
                "requested); _fit defines both on all paths with the defaults 0/1 selected by the count of labeled "
                "samples", floor=5)
    report.rule("R15.5", "sample_y forwards its random_state argument to rvs", floor=1)
    pr = p.get_class("ProbabilisticRegressor")
    pred = pr.methods.get("predict")
    if pred is None:
        raise AnalysisError("ProbabilisticRegressor.predict vanished")
    # ---- R15.1 (on the normal form: `mu = rv.mean()` is substituted back)
    from ..astutil import inline_temporaries as _inl
    pred_n = _inl(pred.node)
    calls = [n for n in ast.walk(pred_n) if isinstance(n, ast.Call) and c01.callname(n) == "predict_target_distribution"]
    binds = [n for n in ast.walk(pred_n) if isinstance(n, ast.Assign) and n.value in calls and isinstance(n.targets[0], ast.Name)]
    ok = len(calls) == 1 and len(binds) == 1
    rv = binds[0].targets[0].id if binds else None
    rebinds = [n for n in ast.walk(pred_n) if isinstance(n, ast.Name) and n.id == rv and isinstance(n.ctx, ast.Store)]
    ok = ok and len(rebinds) == 1
    report.add("R15.1", pred.qual, "one distribution object", f"{pred.file}:{pred.node.lineno}", ok,
               detail=f"{len(calls)} predict_target_distribution call(s), bound to `{rv}`")
    # elements: every tuple literal assigned/added to the result contains only rv.mean()/std()/entropy()
    elems = []
    for n in ast.walk(pred_n):
        if isinstance(n, ast.Tuple) and isinstance(n.ctx, ast.Load) and n.elts and all(isinstance(e, ast.Call) for e in n.elts):
            elems += n.elts
    good = bool(elems) and all(isinstance(e.func, ast.Attribute) and isinstance(e.func.value, ast.Name)
                               and e.func.value.id == rv and e.func.attr in ("mean", "std", "entropy") and not e.args
                               for e in elems)
    order = [e.func.attr for e in elems if isinstance(e.func, ast.Attribute)]
    # mean first; std guarded by return_std, entropy by return_entropy
    guards_ok = True
    for n in ast.walk(pred_n):
        if isinstance(n, ast.If):
            body_attrs = [e.func.attr for e in ast.walk(n) if isinstance(e, ast.Call) and isinstance(e.func, ast.Attribute)
                          and isinstance(e.func.value, ast.Name) and e.func.value.id == rv]
            t = ast.unparse(n.test)
            if "std" in body_attrs and t != "return_std":
                guards_ok = False
            if "entropy" in body_attrs and t != "return_entropy":
                guards_ok = False
    report.add("R15.1", pred.qual, "result elements are mean/std/entropy of that object", f"{pred.file}:{pred.node.lineno}",
               good and order[:1] == ["mean"] and guards_ok, detail=f"elements {order}, flags guard their element: {guards_ok}")
    # ---- R15.2
    subs = [c for c in p.subclasses("ProbabilisticRegressor") if c.name != "ProbabilisticRegressor"]
    if len(subs) < 3:
        raise AnalysisError("C15: fewer than 3 ProbabilisticRegressor subclasses")
    for ci in subs:
        f = p.find_method(ci, "predict")
        okm = f is not None and (f.cls.name == "ProbabilisticRegressor" or any(
            isinstance(n, ast.Call) and c01.callname(n) == "predict_target_distribution" for n in ast.walk(f.node)))
        ptd = p.find_method(ci, "predict_target_distribution")
        okp = ptd is not None and not is_abstract(ptd)
        report.add("R15.2", ci.name, "predict resolves to the distribution-based predict", f"{ci.file}:{ci.node.lineno}",
                   okm and okp, detail=f"predict -> {f.qual if f else None}; predict_target_distribution -> {ptd.qual if ptd else None}")
    # ---- R15.3 / R15.5
    sy = pr.methods.get("sample_y")
    if sy is None:
        raise AnalysisError("ProbabilisticRegressor.sample_y vanished")
    rvs = [n for n in ast.walk(sy.node) if isinstance(n, ast.Call) and c01.callname(n) == "rvs"]
    ok3 = False
    ok5 = False
    if len(rvs) == 1:
        kw = {k.arg: k.value for k in rvs[0].keywords}
        size = kw.get("size")
        ok3 = size is not None and ast.unparse(size).replace(" ", "") == "(n_samples,len(X))"
        bound = [n for n in ast.walk(sy.node) if isinstance(n, ast.Assign) and n.value is rvs[0]]
        rname = bound[0].targets[0].id if bound and isinstance(bound[0].targets[0], ast.Name) else None
        rets = [n for n in ast.walk(sy.node) if isinstance(n, ast.Return)]
        ok3 = ok3 and len(rets) == 1 and ast.unparse(rets[0].value) in (f"{rname}.T", f"{rname}.transpose()", f"np.transpose({rname})")
        rs = kw.get("random_state")
        ok5 = isinstance(rs, ast.Name) and rs.id == "random_state" and "random_state" in sy.all_param_names()
    report.add("R15.3", sy.qual, "rvs(size=(n_samples, len(X))) transposed", f"{sy.file}:{sy.node.lineno}", ok3)
    report.add("R15.5", sy.qual, "random_state forwarded to rvs", f"{sy.file}:{sy.node.lineno}", ok5)
    # the seed is never judged by its truthiness (seed 0 is a seed): no `random_state or x`, `if not random_state`
    truthy = []
    for n in ast.walk(sy.node):
        if isinstance(n, ast.BoolOp) and any(isinstance(v, ast.Name) and v.id == "random_state" for v in n.values):
            truthy.append(n)
        if isinstance(n, (ast.If, ast.IfExp, ast.While)):
            t = n.test
            while isinstance(t, ast.UnaryOp) and isinstance(t.op, ast.Not):
                t = t.operand
            if isinstance(t, ast.Name) and t.id == "random_state":
                truthy.append(n.test)
    report.add("R15.5", sy.qual, "random_state is never tested by truthiness", f"{sy.file}:{(truthy[0] if truthy else sy.node).lineno}",
               not truthy, detail="only passed on / compared with None" if not truthy else
               f"`{norm_stmt(truthy[0], 50)}` treats the seed 0 as 'not given': two calls with random_state=0 differ")
    sr = p.get_class("SklearnRegressor")
    smp = c01.method_by_role(sr, "_sample", lambda n: any(isinstance(t, ast.Try) for t in ast.walk(n)) and c01._calls(n, {"randn", "standard_normal", "normal"}))
    prd = sr.methods.get("predict")
    fit = sr.methods.get("_fit")
    if not (smp and prd and fit):
        raise AnalysisError("SklearnRegressor._sample/predict/_fit vanished")
    draws = [n for n in ast.walk(smp.node) if isinstance(n, ast.Call) and c01.callname(n) in ("randn", "standard_normal", "normal")]
    okf = len(draws) == 1 and [ast.unparse(a).replace(" ", "") for a in draws[0].args] in (["len(X)", "n_samples"], ["(len(X),n_samples)"])
    report.add("R15.3", smp.qual, "fallback draws (len(X), n_samples)", f"{smp.file}:{smp.node.lineno}", okf,
               detail=norm_stmt(draws[0]) if draws else "no draw")
    # ---- R15.4 (named temporaries substituted back first)
    from ..astutil import inline_temporaries
    fit_n = inline_temporaries(fit.node)
    for f, need_std in ((prd, True), (smp, True)):
        tries = [n for n in ast.walk(inline_temporaries(f.node)) if isinstance(n, ast.Try)]
        okt = False
        why = "no try/except NotFittedError around the delegated call"
        for t in tries:
            deleg = any(isinstance(n, ast.Return) and isinstance(n.value, ast.Call) and "estimator_" in ast.unparse(n.value)
                        for st in t.body for n in ast.walk(st))
            hs = [h for h in t.handlers if h.type is not None and "NotFittedError" in ast.unparse(h.type)]
            if deleg and hs:
                h = hs[0]
                uses_mean = any(isinstance(n, ast.Attribute) and n.attr == "_label_mean" for st in h.body for n in ast.walk(st)
                                if not _in_fstring(h, n))
                uses_std = any(isinstance(n, ast.Attribute) and n.attr == "_label_std" for st in h.body for n in ast.walk(st)
                               if not _in_fstring(h, n))
                rets = [n for st in h.body for n in ast.walk(st) if isinstance(n, ast.Return)]
                all_mean = bool(rets) and all("_label_mean" in ast.unparse(r.value) or
                                              any(isinstance(x, ast.Name) and _derives(h, x.id, "_label_mean")
                                                  for x in ast.walk(r.value))
                                              for r in rets)
                fulls = [c for st in h.body for c in ast.walk(st) if isinstance(c, ast.Call) and c01.callname(c) in ("full", "full_like")]
                bad_dtype = [c for c in fulls if any(k.arg == "dtype" and ast.unparse(k.value) not in ("float", "np.float64", "numpy.float64")
                                                     for k in c.keywords)]
                okt = uses_mean and uses_std and all_mean and not bad_dtype
                if bad_dtype:
                    why = (f"the fallback array `{norm_stmt(bad_dtype[0], 60)}` is created with a dtype that is not float: "
                           "the label mean / std is truncated (std 0.2 -> 0)")
                if not bad_dtype:
                    why = f"handler returns from _label_mean={all_mean}, uses _label_std={uses_std}"
        report.add("R15.4", f.qual, "NotFittedError fallback built from _label_mean/_label_std", f"{f.file}:{f.node.lineno}", okt, detail=why)
    ad = AttrDefined(fit.node).run()
    for attr, dflt, thresh in (("_label_mean", "0", "0"), ("_label_std", "1", "1")):
        missing = [st for (r, sts) in ad.returns for st in sts if "a:" + attr not in st.tokens]
        okd = not missing
        # default selected by the count of labeled samples
        form = False
        for n in ast.walk(fit_n):
            if isinstance(n, ast.Assign) and any(isinstance(t, ast.Attribute) and t.attr == attr for t in n.targets) \
                    and isinstance(n.value, ast.IfExp):
                masks = {t.id for a in ast.walk(fit_n) if isinstance(a, ast.Assign) and any(
                    isinstance(c, ast.Call) and c01.callname(c) == "is_labeled" for c in ast.walk(a.value))
                    for t in a.targets if isinstance(t, ast.Name)}
                masked_body = any(isinstance(x, ast.Subscript) and isinstance(x.slice, ast.Name) and x.slice.id in masks
                                  for x in ast.walk(n.value.body)) and not any(
                    isinstance(x, ast.Call) and c01.callname(x) in ("nanmean", "nanstd", "nanvar") for x in ast.walk(n.value.body))
                form = ast.unparse(n.value.orelse) == dflt and "np.sum(" in ast.unparse(n.value.test) and \
                    ast.unparse(n.value.test).replace(" ", "").endswith(">" + thresh) and masked_body
        report.add("R15.4", fit.qual, f"self.{attr} defined on every path with default {dflt}", f"{fit.file}:{fit.node.lineno}",
                   okd and form, detail=f"defined on all paths={okd}, default form={form}")
    for f in (pred, sy, prd, smp, fit):
        da = DefiniteAssignment(_it(f.node)).run()
        report.add("R15.4", f.qual, "all locals bound before use", f"{f.file}:{f.node.lineno}", not da.reports,
                   detail="; ".join(da.reports), nontrivial=False)
    # ---- R15.6 the all-zero-weights guard of the kernel regressors looks at the labeled weights
    from . import c12
    report.rule("R15.6", "NICKernelRegressor.fit (inherited by NadarayaWatsonRegressor): statistics, stored training data "
                "and the all-zero-weights guard read the per-sample arrays only through the labeled mask, so a fit "
                "whose labeled samples all have weight 0 is rejected instead of yielding 0/0 (shared with C12 R12.1)",
                floor=1)
    nic = p.get_class("NICKernelRegressor")
    nf = nic.methods.get("fit")
    if nf is None:
        raise AnalysisError("NICKernelRegressor.fit vanished")
    sub = c01.Report_proxy(report, {"R12.1": "R15.6"})
    mf = c12.MaskFlow(nf.node, "NICKernelRegressor.fit", sub, nf.file)
    mf.run()
    if not mf.reported:
        report.add("R15.6", "NICKernelRegressor.fit", "per-sample arrays read through the labeled mask", f"{nf.file}:{nf.node.lineno}",
                   bool(mf.mask_names), detail=f"{mf.sinks} sink(s) checked")
    # ---- R15.7 helpers of the kernel regressors do not write into their arguments; fallback samples are scaled, then shifted
    report.rule("R15.7", "the parameter-combination helpers of the kernel regressors never write into the arrays they "
                "are given (the neutral cold-start parameters are one shared array); the fallback samples of "
                "SklearnRegressor are scaled by _label_std before they are shifted by _label_mean", floor=3)
    from ..absint import Interp
    from ..effects import writes
    nmod = p.modules["skactiveml.regressor._nic_kernel_regressor"]
    targets = [(None, fn) for fn in nmod.functions.values()]
    for cname in ("NICKernelRegressor", "NadarayaWatsonRegressor"):
        cix = p.get_class(cname)
        for m in cix.methods.values():
            if m.name.startswith("_") and not m.name.startswith("__"):
                targets.append((cix, m))
    seen_t = set()
    for cix, fn in targets:
        if id(fn.node) in seen_t:
            continue
        seen_t.add(id(fn.node))
        it = Interp(p)
        it.run_entity(cix, fn)
        hit = {}
        for w in writes(it.events, roots=(), include_params=True):
            if str(w.how).startswith("draw:"):
                continue
            hit.setdefault(w.loc[0][2:], w)
        for pn in fn.all_param_names():
            if pn == "self":
                continue
            w = hit.get(pn)
            report.add("R15.7", fn.qual, f"argument `{pn}` is not written", f"{fn.file}:{(w.ev.node if w else fn.node).lineno}",
                       w is None, detail="no in-place write" if w is None else
                       f"`{norm_stmt(w.ev.node, 60)}` writes into the caller's array ({w.how}): the cold-start parameters are "
                       "one array referenced four times, so the prior mean / scale are corrupted")
    # augmented assignment on (an alias of) a parameter or of an element unpacked from a parameter is an
    # in-place write for arrays
    for cix, fn in targets:
        if id(fn.node) not in seen_t:
            continue
        params_ = {a for a in fn.all_param_names() if a != "self"}
        alias = set(params_)
        grew = True
        while grew:
            grew = False
            for n in ast.walk(fn.node):
                if isinstance(n, ast.Assign) and isinstance(n.value, ast.Name) and n.value.id in alias:
                    for t in n.targets:
                        for e_ in (t.elts if isinstance(t, (ast.Tuple, ast.List)) else [t]):
                            if isinstance(e_, ast.Name) and e_.id not in alias:
                                alias.add(e_.id)
                                grew = True
        # names re-bound to a fresh value before the write are no aliases any more (line order)
        for n in ast.walk(fn.node):
            if isinstance(n, ast.AugAssign) and isinstance(n.target, ast.Name) and n.target.id in alias:
                fresh = [a for a in ast.walk(fn.node) if isinstance(a, ast.Assign) and a.lineno < n.lineno
                         and any(isinstance(t, ast.Name) and t.id == n.target.id for t in a.targets)
                         and not (isinstance(a.value, ast.Name) and a.value.id in alias)
                         and not isinstance(a.targets[0], (ast.Tuple, ast.List))]
                if fresh:
                    continue
                report.add("R15.7", fn.qual, f"`{norm_stmt(n, 50)}` on an alias of an argument", f"{fn.file}:{n.lineno}", False,
                           detail="augmented assignment writes into the caller's array in place (the neutral cold-start "
                                  "parameters are one shared array)")
    # order of the affine map of the fallback samples
    scale = shift = None
    smp_n = inline_temporaries(smp.node)
    for n in ast.walk(smp_n):
        if isinstance(n, ast.AugAssign) and isinstance(n.target, ast.Name):
            if isinstance(n.op, ast.Mult) and "_label_std" in ast.unparse(n.value):
                scale = n
            if isinstance(n.op, ast.Add) and "_label_mean" in ast.unparse(n.value):
                shift = n
    if scale is not None and shift is not None:
        okord = scale.lineno < shift.lineno and ast.unparse(scale.target) == ast.unparse(shift.target)
        report.add("R15.7", smp.qual, "fallback samples: `*= _label_std` before `+= _label_mean`", f"{smp.file}:{shift.lineno}", okord,
                   detail="std * z + mean" if okord else "the shift is applied before the scale: samples follow N(mean * std, std)")
    # ---------------- R15.8 - R15.10 (round 4)
    report.rule("R15.8", "nothing on the way of an empty training set raises: in the regressor validators and fit "
                "functions no identity-less reduction (min / max / argmin / argmax / ptp without initial=) is applied "
                "to a per-sample array outside an emptiness guard (expected count on today's tree: 0; the self-test "
                "keeps a positive example)", floor=0)
    report.rule("R15.9", "the cold-start fallback of the wrapper is armed by ANY failure of the wrapped estimator's "
                "fit: the try around it has a handler for Exception (or a bare one)", floor=1)
    report.rule("R15.10", "a public method of a regressor that accepts **kwargs forwards them (sample / sample_y hand "
                "the caller's random_state to the sampling function)", floor=2)
    report.rule("R15.11", "the regressors partition labels with their own sentinel (shared with C09 R9.1); predict "
                "appends the optional outputs in the documented order (std before entropy); the cold-start branch of "
                "the kernel regressors is taken exactly when there is NO labeled sample (an emptiness test, no larger "
                "threshold)", floor=4)
    from ..common import Report as _Report
    from . import c09 as _c09
    sub9 = _Report("C09")
    _c09.run(p, sub9, "quick")
    for o in sub9.obligations:
        if o.rule == "R9.1" and any(t in o.entity for t in ("SklearnRegressor", "SklearnNormalRegressor", "NICKernelRegressor",
                                                             "NadarayaWatsonRegressor", "SkactivemlRegressor", "ProbabilisticRegressor")):
            report.add("R15.11", o.entity, o.construct, o.loc, o.ok, detail=o.detail)
    pr = p.get_method("ProbabilisticRegressor", "predict")
    if pr is None:
        raise AnalysisError("ProbabilisticRegressor.predict vanished")
    order = []
    for n in pr.node.body if False else ast.walk(pr.node):
        if isinstance(n, ast.If) and isinstance(n.test, ast.Name) and n.test.id in ("return_std", "return_entropy"):
            order.append((n.lineno, n.test.id))
    order.sort()
    oko = [nm for _, nm in order] == ["return_std", "return_entropy"]
    report.add("R15.11", pr.qual, "optional outputs appended in the order (std, entropy)", f"{pr.file}:{pr.node.lineno}", oko,
               detail="std before entropy" if oko else f"blocks found in the order {[nm for _, nm in order]}: with both flags set the "
               "tuple is (mean, entropy, std)")
    for cname in ("NICKernelRegressor",):
        ci_ = p.get_class(cname)
        for f_ in (ci_.methods.values() if ci_ else []):
            for n in ast.walk(f_.node):
                if isinstance(n, ast.If) and "len(self.X_)" in ast.unparse(n.test).replace(" ", ""):
                    t = n.test
                    okt = False
                    if isinstance(t, ast.Compare) and len(t.ops) == 1 and isinstance(t.comparators[0], ast.Constant):
                        c_, op = t.comparators[0].value, t.ops[0]
                        okt = (c_ == 0 and isinstance(op, (ast.NotEq, ast.Gt, ast.Eq))) or (c_ == 1 and isinstance(op, (ast.GtE, ast.Lt)))
                    elif isinstance(t, ast.Call) or (isinstance(t, ast.UnaryOp) and isinstance(t.op, ast.Not)):
                        okt = True
                    report.add("R15.11", f_.qual, f"cold-start test `{norm_stmt(t, 40)}` is an emptiness test", f"{f_.file}:{n.lineno}", okt,
                               detail="no labeled sample <=> prior only" if okt else
                               "the labeled-sample branch needs more than one sample: a single label is ignored (NaN mean / std for a "
                               "zero-weight prior)")
    check_empty_safe(p, report)
    # ---------------- round 6
    report.rule("R15.12", "the fallback describes THIS fit: fit of the wrapped regressors reads no fitted attribute it has "
                "not stored in the same call (an `estimator_` kept from an earlier successful fit answers instead of the "
                "label mean when the current fit could not train it; shared with C13 R13.2)", floor=2)
    from . import c13_fit as _c13_fit
    ents15 = []
    for cname in ("SklearnRegressor", "SklearnNormalRegressor"):
        ci_ = p.get_class(cname)
        fm_ = p.find_method(ci_, "fit") if ci_ else None
        if fm_ is None:
            raise AnalysisError(f"{cname}.fit vanished")
        ents15.append((ci_, fm_))
    _c13_fit.check_fit_recomputes(p, report, ents15, "R15.12", skip_attrs=("n_features_in_",))
    report.rule("R15.13", "no `raise` in the fit path of the wrapped regressors is guarded by a predicate that is TRUE on "
                "the empty selection of labeled samples (`np.sum(w[is_lbld]) == 0`, `not np.any(...)`, `np.all(...)`, "
                "`len(...) == 0`) unless an enclosing test excludes the empty selection: a cold start must reach the "
                "fallback (expected count today: 0 raising tests; the self-test keeps a positive example)", floor=0)
    check_no_raise_on_empty(p, report)
    report.assumptions += ["finiteness and sign of standard deviations and agreement as numbers are not decided",
                           "scipy.stats frozen distributions implement mean/std/entropy/rvs coherently"]


def _in_fstring(root, node):
    for n in ast.walk(root):
        if isinstance(n, ast.JoinedStr) and any(x is node for x in ast.walk(n)):
            return True
    return False


def _derives(root, name, attr):
    for n in ast.walk(root):
        if isinstance(n, (ast.Assign, ast.AugAssign)):
            tg = n.targets if isinstance(n, ast.Assign) else [n.target]
            if any(isinstance(t, ast.Name) and t.id == name for t in tg) and attr in ast.unparse(n.value):
                return True
    return False
