"""C06 - results are reproducible for a fixed random_state (RNG provenance)."""
import ast

from ..absint import (Interp, NOCONST, is_visible_root, GLOBAL_DRAW_PREFIXES,
                      GLOBAL_RNG_NONDRAW, RNG_CTORS, EXT_DRAWING_CLASSES, fmt_origin)
from ..common import norm_stmt, site_id
from ..index import ClassInfo, AnalysisError
from .c03 import is_abstract
from .c13 import estimator_classes, public_methods


def _cn(c):
    f = c.func
    return f.id if isinstance(f, ast.Name) else (f.attr if isinstance(f, ast.Attribute) else None)

POSITIVE_EXAMPLE = '''
import numpy as np
def f(n):
    idx = np.random.permutation(n)
    np.random.seed(0)
    return idx
'''


def scan_global_draws(module_tree, resolve):
    """Syntactic R6.1: calls numpy.random.<draw>() / random.<draw>() /
    numpy.random.seed in a module.  `resolve(expr)` -> dotted name or None."""
    out = []
    for n in ast.walk(module_tree):
        if isinstance(n, ast.Call):
            d = resolve(n.func)
            if d is None:
                continue
            if d.startswith(GLOBAL_DRAW_PREFIXES) and d not in GLOBAL_RNG_NONDRAW:
                out.append((n, d))
            elif d in RNG_CTORS:
                seedless = (not n.args and not any(k.arg in ("seed",) for k in n.keywords)) or (
                    n.args and isinstance(n.args[0], ast.Constant) and n.args[0].value is None)
                if seedless:
                    out.append((n, d + "(<no seed>)"))
    return out


def _example_resolver(tree):
    imports = {}
    for st in tree.body:
        if isinstance(st, ast.Import):
            for a in st.names:
                imports[a.asname or a.name.split(".")[0]] = a.name if a.asname else a.name.split(".")[0]

    def resolve(e):
        if isinstance(e, ast.Name):
            return imports.get(e.id)
        if isinstance(e, ast.Attribute):
            b = resolve(e.value)
            return f"{b}.{e.attr}" if b else None
        return None
    return resolve


def classify_gen(gen):
    deps = gen.deps
    if "global_rng" in deps:
        return "global"
    if "os_entropy" in deps:
        return "global"
    vis = [d for d in deps if isinstance(d, tuple) and is_visible_root(d[0])]
    if any(d[0] == "self" for d in vis):
        if ("self", ("random_state",)) in gen.origins:
            return "raw_ctor_param"
        return "from_self_state"
    if vis:
        return "from_param"
    if "const_seed" in deps:
        return "const_seed"
    if "user_none" in deps:
        return "user_none"
    return "unknown"


def entity_list(p):
    """(kind, ClassInfo|None, FuncInfo)"""
    ents = []
    seen = set()
    for ci in estimator_classes(p):
        for f in public_methods(p, ci):
            ents.append(("method", ci, f))
    # other project classes with public methods that take/own a random state
    for ci in sorted(p.classes.values(), key=lambda c: c.name):
        if any(c is ci for _, c, _ in ents):
            continue
        if "random_state" in p.init_stored_attrs(ci):
            for f in public_methods(p, ci):
                ents.append(("method", ci, f))
    for m in sorted(p.modules.values(), key=lambda m: m.name):
        for f in m.functions.values():
            if "random_state" in f.all_param_names() and not f.name.startswith("__"):
                ents.append(("function", None, f))
    return ents


def stored_attribute_names(p, ci):
    out = set()
    for c in p.mro(ci):
        if isinstance(c, str):
            continue   # external base (sklearn BaseEstimator): stores no fitted attribute of its own
        for m in c.methods.values():
            for n in ast.walk(m.node):
                if isinstance(n, ast.Attribute) and isinstance(n.ctx, (ast.Store, ast.Del)) and isinstance(n.value, ast.Name):
                    out.add(n.attr)
                elif isinstance(n, ast.Call) and isinstance(n.func, ast.Name) and n.func.id == "setattr" and len(n.args) >= 2:
                    out.add(n.args[1].value if isinstance(n.args[1], ast.Constant) else "*")
        for st in c.node.body:
            if isinstance(st, ast.Assign):
                for t in st.targets:
                    if isinstance(t, ast.Name):
                        out.add(t.id)
            elif isinstance(st, (ast.FunctionDef, ast.AsyncFunctionDef)):
                out.add(st.name)
    return out


def check_no_carried_attributes(p, report, rule):
    from ..attrflow import AttrMust
    from ..paths import Facts
    from . import c05 as _c05
    for ci, fq in _c05.pool_entities(p):
        stored = stored_attribute_names(p, ci)
        b = {}
        if "*" not in stored:
            for c in p.mro(ci):
                if isinstance(c, str):
                    continue
                for m in c.methods.values():
                    for n in ast.walk(m.node):
                        if isinstance(n, ast.Call) and isinstance(n.func, ast.Name) and n.func.id == "hasattr" \
                                and len(n.args) == 2 and isinstance(n.args[0], ast.Name) and n.args[0].id == "self" \
                                and isinstance(n.args[1], ast.Constant) and isinstance(n.args[1].value, str) \
                                and n.args[1].value not in stored:
                            b[ast.unparse(n)] = False
        am = AttrMust(p, ci, fq, init_facts=Facts(b=b)).run()
        must, exposed = am.summary()
        ent = f"{ci.name}.{fq.name}"
        ini = p.find_method(ci, "__init__")
        params = set(ini.all_param_names()) if ini is not None else set()
        exposed = {a: v for a, v in exposed.items() if a not in params}
        if not exposed:
            report.add(rule, ent, "every fitted attribute read is computed in the same call", f"{fq.file}:{fq.node.lineno}", True,
                       detail=f"{len(must)} attribute(s) definitely assigned before they are read")
        for a, v in sorted(exposed.items()):
            ln, fl, qual, facts = v[0], v[1], v[2], v[3]
            report.add(rule, ent, f"self.{a} read in {qual} before it is computed in this call", f"{fl}:{ln}", False,
                       detail=f"on the path where {facts or 'always'} the value comes from an EARLIER query: a used object and a "
                              f"freshly constructed twin disagree on the same call")


def run(p, report, tier):
    report.rule("R6.1", "no call of a process-global draw (numpy.random.<draw>, random.<draw>, numpy.random.seed, "
                "seedless RandomState()/default_rng()) anywhere in the package", floor=1)
    report.rule("R6.2", "every random draw reachable from a public method of an estimator class (callees inlined, "
                "constants propagated) or from a public helper taking random_state uses a generator that derives from "
                "self.random_state(_), a random_state argument or a literal seed - never from numpy's global generator "
                "(literal None / omitted random_state on the way)", floor=100)
    report.rule("R6.3", "an external estimator whose fit draws from its random_state (table) is constructed with a "
                "random_state that is present on every path and derives from the owner's seed", floor=3)
    report.rule("R6.4", "a pool query never draws from the object held by the constructor parameter random_state "
                "itself (it must go through the seed-multiplier copy), so a repeated call with a RandomState instance "
                "gives the same result", floor=30)
    report.rule("R6.5", "no stream strategy / budget manager query or update stores to, or mutates the object held by, "
                "a constructor parameter: twins built from equal parameter objects would otherwise continue from "
                "each other's state", floor=60)
    # ---- R6.1 syntactic, whole package
    # embedded positive example keeps the rule alive
    ex = ast.parse(POSITIVE_EXAMPLE)
    if len(scan_global_draws(ex, _example_resolver(ex))) != 2:
        raise AnalysisError("C06 R6.1 self-check failed: embedded positive example not flagged")
    n_mod = 0
    for m in sorted(p.modules.values(), key=lambda m: m.name):
        n_mod += 1

        def resolve(e, m=m):
            r = p.resolve_expr(m, e)
            if r is not None and r[0] == "ext":
                return r[1]
            return None
        hits = scan_global_draws(m.tree, resolve)
        if not hits:
            report.add("R6.1", m.name, "no process-global draw in module", m.relpath, True, nontrivial=False)
        for n, d in hits:
            report.add("R6.1", m.name, f"{d}: {norm_stmt(n)}", f"{m.relpath}:{n.lineno}", False,
                       detail="draw from the process-global generator")
    # ---- R6.2 / R6.3 / R6.4 over inlined events
    ents = entity_list(p)
    report.analysed["entities"] = len(ents)
    pool_query = set()
    for ci in p.exported_classes("skactiveml.pool") + p.exported_classes("skactiveml.pool.multiannotator"):
        pool_query.add(ci.name)
    by_class = {}
    for kind, ci, f in ents:
        by_class.setdefault(ci.name if ci else None, []).append((kind, ci, f))
    diag = set()
    callstats = {}
    n_draw = 0
    for cname, lst in by_class.items():
        it = Interp(p)
        if cname is not None:
            for kind, ci, f in lst:
                it.run_entity(ci, f, rounds=1)
        for kind, ci, f in lst:
            it.run_entity(ci, f, rounds=2)
            ent = f"{ci.name}.{f.name}" if ci else f"{f.module.name.split('.')[-1]}.{f.name}"
            is_pool_query = ci is not None and ci.name in pool_query and f.name == "query"
            for ev in it.events:
                if ev.kind == "draw":
                    n_draw += 1
                    gen = ev.data["gen"]
                    cls = classify_gen(gen)
                    # keyed by the entity-level call site (a refactored helper must not re-key a finding)
                    if ev.stack:
                        construct = f"draw {ev.data['method']} via {site_id(ev.stack[0][1])}"
                    else:
                        construct = f"draw {ev.data['method']} in {ev.fi.qual}: {norm_stmt(ev.node, 70)}"
                    if ev.data.get("global_call"):
                        continue  # R6.1 reports the site itself
                    ok = cls != "global"
                    report.add("R6.2", ent, construct, ev.loc, ok,
                               detail=f"generator provenance: {cls}" + ("" if ok else
                                      " (random_state is None/omitted on this call path -> numpy global generator)"),
                               path=ev.path())
                    if is_pool_query:
                        owned = [o for o in gen.origins if isinstance(o, tuple) and str(o[0]).startswith("p:")
                                 and not (o[0] == "p:random_state" and not o[1])]
                        if owned:
                            report.add("R6.4", ent, construct + " [generator of a caller-supplied object]", ev.loc, False,
                                       detail=f"the draw consumes {owned[0][0][2:]}.{'.'.join(owned[0][1])}, the generator of an "
                                              "object the caller passed in: repeating the same call gives another result",
                                       path=ev.path())
                        ok4 = cls != "raw_ctor_param"
                        report.add("R6.4", ent, construct, ev.loc, ok4,
                                   detail="draws from the caller's RandomState object held in self.random_state "
                                          "(no seed-multiplier copy): repeated identical calls differ" if not ok4
                                          else f"provenance {cls}", path=ev.path())
                elif ev.kind == "ext_fit":
                    obj = ev.data["obj"]
                    ckw = obj.ckw
                    cname_ext = ev.data["cls"][2:]
                    construct = f"{cname_ext.split('.')[-1]}.{ev.data['method']}: {norm_stmt(ev.node)}"
                    verdict, why = seed_verdict(ckw)
                    report.add("R6.3", ent, construct, ev.loc, verdict, detail=why, path=ev.path())
                    rs = (ckw.items or {}).get("random_state") if ckw is not None else None
                    if is_pool_query and rs is not None:
                        ok4 = ("self", ("random_state",)) not in rs.origins
                        report.add("R6.4", ent, construct, ev.loc, ok4,
                                   detail="external estimator is handed the caller's RandomState object held in "
                                          "self.random_state (no seed-multiplier copy): its fit advances it and "
                                          "repeated identical calls differ" if not ok4
                                          else "random_state is not the raw constructor parameter", path=ev.path())
            if is_pool_query:
                # twins: two strategies constructed with equal parameters share the objects those parameters
                # hold; a query that writes into one (a dict of keyword arguments, say) changes its twin
                from . import c05 as _c05q
                _c05q.check_entity(p, report, ci, f, it, r_param="R6.8", r_arr=None, r_est=None)
        diag |= it.diag
        for _k, _v in it.stats.items():
            callstats[_k] = callstats.get(_k, 0) + _v
    # ---- R6.5 twins: stream strategies / budget managers keep their evolving
    # state in private copies, never in an object held by a constructor
    # parameter (two objects constructed with equal parameters share those)
    from . import c05
    n65 = 0
    for pkg, meths in (("skactiveml.stream", ("query", "update")),
                       ("skactiveml.stream.budgetmanager", ("query_by_utility", "update"))):
        for ci in p.exported_classes(pkg):
            for mn in meths:
                f = p.find_method(ci, mn)
                if f is None or any((isinstance(d, ast.Name) and d.id == "abstractmethod") or
                                    (isinstance(d, ast.Attribute) and d.attr == "abstractmethod")
                                    for d in f.node.decorator_list):
                    continue
                it = Interp(p)
                it.run_entity(ci, f)
                c05.check_entity(p, report, ci, f, it, r_param="R6.5", r_arr=None, r_est=None)
                n65 += 1
    report.analysed["stream_entities_R6.5"] = n65
    # ---- list-valued committees are deep-copied (their members' generators are private to the query)
    from . import c05 as _c05
    report.analysed["member_copy_sites"] = _c05.check_member_copies(p, report, "R6.4")
    # ---- R6.7 a seed is never judged by its truthiness (whole package)
    report.rule("R6.8", "a pool query never stores into / mutates an object held by a constructor parameter (the "
                "dictionary of keyword arguments a twin strategy was built with, say): shared with C05 R5.1", floor=100)
    report.rule("R6.7", "no seed / random_state value is tested by truthiness anywhere in the package "
                "(`random_state or x`, `if random_state:`, `if not seed`): the seed 0 is a seed", floor=40)
    SEEDY = ("random_state", "seed", "random_seed")
    for m in sorted(p.modules.values(), key=lambda m: m.name):
        bad = []
        for n in ast.walk(m.tree):
            vals = []
            if isinstance(n, ast.BoolOp):
                vals = n.values[:-1] if isinstance(n.op, ast.Or) else n.values
            elif isinstance(n, (ast.If, ast.IfExp, ast.While)):
                t = n.test
                while isinstance(t, ast.UnaryOp) and isinstance(t.op, ast.Not):
                    t = t.operand
                vals = [t]
            for v in vals:
                while isinstance(v, ast.UnaryOp) and isinstance(v.op, ast.Not):
                    v = v.operand
                nm = v.id if isinstance(v, ast.Name) else (v.attr if isinstance(v, ast.Attribute) else None)
                if nm is not None and nm.rstrip("_") in SEEDY:
                    bad.append(n)
        if not bad:
            report.add("R6.7", m.name, "no truthiness test of a seed in module", m.relpath, True, nontrivial=False)
        for n in bad:
            report.add("R6.7", m.name, f"`{norm_stmt(n, 60)}`", f"{m.relpath}:{n.lineno}", False,
                       detail="the seed 0 is falsy: it is treated as 'not given' and the result is no longer reproducible for it")
    # ---- R6.9 no result-relevant attribute survives from an earlier pool query
    report.rule("R6.9", "a pool query reads no fitted attribute (self.<a>_ / self._<a>) that it has not (re)computed in this "
                "very call: interprocedural definite assignment over query and the methods it calls, with hasattr(self, "
                "'<name>') known false for names no method ever stores; an attribute that is only written under a "
                "`not hasattr` guard is a cache from an earlier call, and the result then depends on the history of calls",
                floor=30)
    check_no_carried_attributes(p, report, "R6.9")
    # ---- R6.6 every fit starts from the seed again
    report.rule("R6.6", "every fit re-derives random_state_ from the constructor parameter before reading it (a test "
                "hasattr(self, 'random_state_') being true does not count): a refitted model does not continue from the "
                "numbers an earlier predict consumed (shared with C13 R13.2)", floor=10)
    from . import c13_fit
    c13_fit.check_fit_recomputes(p, report, c13_fit.fit_entities(p), "R6.6", only_attrs=("random_state_",))
    report.analysed["draw_events"] = n_draw
    report.analysed["diagnostics"] = sorted(diag)
    report.analysed["call_resolution"] = callstats
    report.tables["external_estimators_drawing_in_fit"] = sorted(EXT_DRAWING_CLASSES)
    report.rule("R6.10", "the sampling method that `_check_ensemble` looks up by NAME on the caller's ensemble "
                "(`sample_predictions_method_name`, a bound method the analyser cannot resolve) draws from the strategy's "
                "generator: the parameter dict it is called with was given a `random_state` derived from self.random_state_ "
                "(directly, or by a helper that adds one) - sample_proba / sample_y default to random_state=None, i.e. to "
                "numpy's global generator", floor=2)
    n610 = 0
    for f in p.all_functions():
        if "/tests/" in f.file or not f.file.startswith("skactiveml/pool/"):
            continue
        for a in ast.walk(f.node):
            if not (isinstance(a, ast.Assign) and isinstance(a.value, ast.Call) and _cn(a.value) == "_check_ensemble"
                    and isinstance(a.targets[0], (ast.Tuple, ast.List)) and len(a.targets[0].elts) >= 5):
                continue
            sf, sd = a.targets[0].elts[3], a.targets[0].elts[4]
            if not (isinstance(sf, ast.Name) and isinstance(sd, ast.Name)):
                continue
            for c in ast.walk(f.node):
                if not (isinstance(c, ast.Call) and isinstance(c.func, ast.Name) and c.func.id == sf.id):
                    continue
                n610 += 1
                ok = any(k.arg == "random_state" for k in c.keywords)
                for k in c.keywords:
                    if k.arg is None and isinstance(k.value, ast.Name):
                        d = k.value.id
                        for b in ast.walk(f.node):
                            if isinstance(b, ast.Assign) and a.lineno < b.lineno < c.lineno \
                                    and any(isinstance(t, ast.Name) and t.id == d for t in b.targets):
                                v = b.value
                                if isinstance(v, ast.Call) and any(kk.arg == "random_state" for kk in v.keywords):
                                    ok = True
                                if isinstance(v, ast.Call) and isinstance(v.func, ast.Name):
                                    r = p.resolve_name(f.module, v.func.id)
                                    if r and r[0] == "func" and "random_state" in {x.arg for x in ast.walk(r[1].node) if isinstance(x, ast.keyword)} \
                                            and any("random_state_" in ast.unparse(x) for x in v.args + [kk.value for kk in v.keywords]):
                                        ok = True
                            if isinstance(b, ast.Assign) and a.lineno < b.lineno < c.lineno and isinstance(b.targets[0], ast.Subscript) \
                                    and isinstance(b.targets[0].value, ast.Name) and b.targets[0].value.id == d \
                                    and isinstance(b.targets[0].slice, ast.Constant) and b.targets[0].slice.value == "random_state":
                                ok = True
                report.add("R6.10", f.qual, f"`{norm_stmt(c, 50)}` samples with the strategy's generator", f"{f.file}:{c.lineno}", ok,
                           detail="random_state bound from self.random_state_" if ok else
                           f"`{sd.id}` is the user's sample_predictions_dict as it is: without a random_state entry the sampling method "
                           f"falls back to its default (None = numpy's global generator), so two identically seeded strategies / "
                           f"repeated calls return different utilities")
    report.analysed["dynamic_sampling_calls"] = n610
    report.assumptions += [
        "an external estimator not in the table does not draw random numbers in fit",
        "random_state=None chosen by the caller (constructor parameter) is outside the property's premise",
        "determinism of third-party numerical code is not decided",
    ]


def seed_verdict(ckw):
    if ckw is None:
        return True, "constructor arguments unknown (not judged)"
    items = ckw.items or {}
    if "random_state" in items and items["random_state"] is not None:
        v = items["random_state"]
        present_always = "random_state" in ckw.must_keys
        if v.const is None and not any(isinstance(d, tuple) for d in v.deps):
            return False, "random_state=None literal: fit draws from numpy's global generator"
        if "global_rng" in v.deps:
            return False, "random_state derives from the global generator"
        if not present_always:
            return False, "random_state is set on some paths only"
        return True, "random_state bound to a seeded value on every path"
    if "random_state" in ckw.must_keys:
        return True, "random_state present (value not tracked)"
    return False, ("constructed without random_state on the default-configuration path: "
                   "fit draws from numpy's global generator")
