"""C13 - fit is history-free; constructor parameters are never rewritten."""
import ast

from ..absint import Interp
from ..common import norm_stmt
from ..effects import writes
from ..index import ClassInfo, AnalysisError
from .c03 import is_abstract
from .c05 import check_entity

SKIP_METHODS = {"set_params", "get_params", "__init__"}


def estimator_classes(p):
    out = []
    for ci in p.classes.values():
        if any(str(b).endswith("BaseEstimator") for b in p.ext_bases(ci)):
            out.append(ci)
    return sorted(out, key=lambda c: c.name)


def public_methods(p, ci):
    names = []
    for k in p.mro(ci):
        if isinstance(k, ClassInfo):
            for n in k.methods:
                if n not in names:
                    names.append(n)
    out = []
    for n in names:
        if n in SKIP_METHODS or (n.startswith("__") and n.endswith("__")):
            continue
        if n.startswith("_"):
            continue
        f = p.find_method(ci, n)
        if f is None or is_abstract(f):
            continue
        out.append(f)
    return out


def run(p, report, tier):
    report.rule("R13.1", "in every public method (other than __init__/set_params) of every estimator class, with "
                "callees inlined and class-wide aliases (self.p_ = self.p) propagated: no store to self.<constructor "
                "parameter> and no in-place mutation of the object it refers to", floor=400)
    classes = estimator_classes(p)
    if len(classes) < 60:
        raise AnalysisError(f"C13: only {len(classes)} estimator classes found (expected >= 60)")
    report.analysed["classes"] = [c.name for c in classes]
    n_ent = 0
    diag = set()
    callstats = {}
    for ci in classes:
        meths = public_methods(p, ci)
        it = Interp(p)
        # pass 1: populate the class-wide heap (aliases created in one method,
        # used in another)
        for f in meths:
            it.run_entity(ci, f, rounds=1)
        # protocol hooks that public methods trigger implicitly (check_is_fitted -> __sklearn_is_fitted__) may
        # create aliases too (`self.estimator_ = self.estimator` for a pre-fitted estimator)
        for hook in ("__sklearn_is_fitted__",):
            hf = p.find_method(ci, hook)
            if hf is not None and not is_abstract(hf):
                it.run_entity(ci, hf, rounds=1)
        for f in meths:
            it.run_entity(ci, f, rounds=2)
            n_ent += 1
            check_entity(p, report, ci, f, it, r_param="R13.1", r_arr=None, r_est=None)
        diag |= it.diag
        for _k, _v in it.stats.items():
            callstats[_k] = callstats.get(_k, 0) + _v
    report.analysed["entities"] = n_ent
    report.analysed["diagnostics"] = sorted(diag)
    report.analysed["call_resolution"] = callstats
    report.assumptions += [
        "aliasing is under-approximated: an external call not in the alias tables returns a fresh object",
        "constructor parameters = attributes stored by any __init__ along the MRO",
    ]
    from . import c13_fit
    c13_fit.run(p, report, tier)
