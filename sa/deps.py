"""E4 - flow-insensitive dependence closure inside a region (loop body or
function): v depends on w if some definition/mutation of v in the region reads
w.  Loop-carried dependences are included by construction."""
import ast


def names_in(e, skip_funcs=True):
    out = set()
    if e is None:
        return out
    for n in ast.walk(e):
        if isinstance(n, ast.Name) and isinstance(n.ctx, ast.Load):
            out.add(n.id)
        elif isinstance(n, ast.Attribute) and isinstance(n.value, ast.Name) and n.value.id == "self":
            out.add("self." + n.attr)
    return out


def base_name(t):
    """Base variable of a (possibly nested) subscript/attribute target."""
    while isinstance(t, (ast.Subscript, ast.Attribute, ast.Starred)):
        if isinstance(t, ast.Attribute) and isinstance(t.value, ast.Name) and t.value.id == "self":
            return "self." + t.attr
        t = t.value
    if isinstance(t, ast.Name):
        return t.id
    return None


def index_names(t):
    out = set()
    while isinstance(t, (ast.Subscript, ast.Attribute)):
        if isinstance(t, ast.Subscript):
            out |= names_in(t.slice)
        t = t.value
    return out


MUTATORS = {"append", "extend", "insert", "add", "update", "remove", "pop", "fill", "sort", "put",
            "add_variables", "fit", "partial_fit", "discard", "clear", "setdefault", "appendleft"}


def dep_edges(region_stmts):
    """name -> set(names it is (re)defined from) for all defs in the region."""
    edges = {}

    def add(v, srcs):
        if v is None:
            return
        edges.setdefault(v, set()).update(srcs)

    def targets(t, srcs):
        if isinstance(t, (ast.Tuple, ast.List)):
            for e in t.elts:
                targets(e, srcs)
        elif isinstance(t, ast.Starred):
            targets(t.value, srcs)
        elif isinstance(t, ast.Name):
            add(t.id, srcs)
        elif isinstance(t, (ast.Subscript, ast.Attribute)):
            add(base_name(t), srcs | index_names(t))

    for st in region_stmts:
        for n in ast.walk(st):
            if isinstance(n, ast.Assign):
                srcs = names_in(n.value)
                for t in n.targets:
                    targets(t, srcs)
            elif isinstance(n, ast.AugAssign):
                srcs = names_in(n.value)
                b = base_name(n.target)
                add(b, srcs | index_names(n.target) | ({b} if b else set()))
            elif isinstance(n, ast.AnnAssign) and n.value is not None:
                targets(n.target, names_in(n.value))
            elif isinstance(n, (ast.For, ast.AsyncFor)):
                targets(n.target, names_in(n.iter))
            elif isinstance(n, ast.NamedExpr):
                targets(n.target, names_in(n.value))
            elif isinstance(n, ast.comprehension):
                targets(n.target, names_in(n.iter))
            elif isinstance(n, ast.With):
                for it in n.items:
                    if it.optional_vars is not None:
                        targets(it.optional_vars, names_in(it.context_expr))
            elif isinstance(n, ast.Call) and isinstance(n.func, ast.Attribute) and n.func.attr in MUTATORS:
                b = base_name(n.func.value)
                srcs = set()
                for a in n.args:
                    srcs |= names_in(a)
                for k in n.keywords:
                    srcs |= names_in(k.value)
                add(b, srcs)
            elif isinstance(n, ast.Expr) and isinstance(n.value, ast.Call) and n.value.args \
                    and not (isinstance(n.value.func, ast.Attribute) and n.value.func.attr in MUTATORS):
                # a bare call statement may update its first argument in place
                # from the others (a helper extracted from an in-place store);
                # over-approximating dependence is the safe direction here
                c = n.value
                fname = c.func.id if isinstance(c.func, ast.Name) else (c.func.attr if isinstance(c.func, ast.Attribute) else "")
                if not (fname.startswith("check_") or fname in ("warn", "print", "check_type", "check_scalar")):
                    b = base_name(c.args[0])
                    srcs = set()
                    for a in c.args[1:]:
                        srcs |= names_in(a)
                    for k in c.keywords:
                        srcs |= names_in(k.value)
                    if b and srcs:
                        add(b, srcs)
            elif isinstance(n, ast.Call):
                # out= keyword and known in-place numpy helpers
                for k in n.keywords:
                    if k.arg == "out":
                        srcs = set()
                        for a in n.args:
                            srcs |= names_in(a)
                        add(base_name(k.value), srcs)
    return edges


def closure(seeds, edges):
    seen = set(seeds)
    work = list(seeds)
    while work:
        v = work.pop()
        for w in edges.get(v, ()):
            if w not in seen:
                seen.add(w)
                work.append(w)
    return seen


def forward_closure(seeds, edges):
    """All names that (transitively) depend on one of `seeds`."""
    rev = {}
    for v, ws in edges.items():
        for w in ws:
            rev.setdefault(w, set()).add(v)
    return closure(seeds, rev)
