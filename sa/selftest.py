"""Thorough tier: test the checkers both ways on scratch copies of the current
tree (DESIGN.md section 6).

must-fire variants  - one instance of a rule is broken by a small source edit
                      (the variant still parses); the property's check has to
                      report a NEW violation of the expected rule;
silent variants     - behaviour-preserving edits (consistent renaming of all
                      locals of key functions, whole-package re-formatting
                      through ast.unparse); the check must report nothing new.

A variant whose anchor text is not present in the current tree is skipped and
counted (the tree under analysis may already differ from the one the corpus
was written for); a variant that is found but not handled as expected makes
the thorough run fail with ANALYSIS-ERROR.
"""
import ast
import importlib
import os
import shutil
import tempfile
from concurrent.futures import ProcessPoolExecutor

from .index import Project, AnalysisError, PKG
from .common import Report

P = "skactiveml/"
BZ = P + "stream/budgetmanager/_estimated_budget_zliobaite.py"
TB = P + "stream/budgetmanager/_threshold_budget.py"
SEL = P + "utils/_selection.py"

# (id, properties, expected rule prefix(es), file, old, new[, count])
MUST_FIRE = [
    # ---- round 6
    ("voi-current-error-zero-guard-dropped", ["C01"], ["R1.13"], P + "pool/_expected_error_reduction.py",
     "            if self.normalize:\n                if norm == 0:\n                    return 0.0\n                else:\n"
     "                    return err / norm\n            else:\n                return err\n        else:\n",
     "            if self.normalize:\n                return err / norm\n            else:\n                return err\n        else:\n"),
    ("contrastive-labeled-blanked", ["C01"], ["R1.12"], P + "pool/_contrastive_al.py",
     "            utilities[mapping] = utilities_cand\n",
     "            utilities[mapping] = utilities_cand\n            utilities[is_labeled(y, self.missing_label_)] = np.nan\n"),
    ("sklreg-raise-on-empty-weights", ["C15"], ["R15.13"], P + "regressor/_wrapper.py",
     "            estimator_params[\"sample_weight\"] = sample_weight[is_lbld]\n",
     "            estimator_params[\"sample_weight\"] = sample_weight[is_lbld]\n"
     "            if np.sum(sample_weight[is_lbld]) == 0:\n                raise ValueError(\"all zero\")\n"),
    ("encoder-transform-stores-dtype", ["C16"], ["R16.10"], P + "utils/_label_encoder.py",
     "        y_enc = np.empty_like(y, dtype=int)\n",
     "        self._dtype = np.append(y, self.missing_label).dtype\n        y_enc = np.empty_like(y, dtype=int)\n"),
    ("icw-elementwise-relabel", ["C19"], ["R19.15"], P + "pool/utils.py",
     "            self.idx_ = np.concatenate([self.idx_[cur_idx], add_idx], axis=0)\n",
     "            self.y_[cur_idx] = self.y_[cur_idx]\n            self.idx_ = np.concatenate([self.idx_[cur_idx], add_idx], axis=0)\n"),
    ("density-window-view", ["C13"], ["R13.7"], P + "stream/_density_uncertainty.py",
     "            self.window_.append(np.array(x_cand))\n", "            self.window_.append(x_cand)\n"),
    ("cognitive-window-view", ["C13"], ["R13.7"], P + "stream/_density_uncertainty.py",
     "        self.cognition_window_.extend(np.array(candidates))\n", "        self.cognition_window_.extend(candidates)\n"),
    ("swc-label-views", ["C13"], ["R13.6"], P + "classifier/_wrapper.py",
     "        self.y_train_.extend(np.array(y))\n", "        self.y_train_.extend(y)\n"),
    # ---- C01 / C02 / C18 selection
    ("sb-mask-deleted", ["C01", "C18"], ["R1.4", "R18.2"], SEL,
     "            utilities[tuple(best_indices[i])] = np.nan\n", ""),
    ("sb-mask-before-snapshot", ["C02", "C18"], ["R2.1", "R18.2"], SEL,
     "            batch_utilities[i] = utilities\n            utilities[tuple(best_indices[i])] = np.nan\n",
     "            utilities[tuple(best_indices[i])] = np.nan\n            batch_utilities[i] = utilities\n"),
    ("sb-replace-true", ["C01", "C18"], ["R1.8", "R18.3"], SEL, "            replace=False,\n", "            replace=True,\n"),
    ("argmin-not-nan-aware", ["C18"], ["R18.1"], SEL,
     "np.nanmin(a, **argmin_kwargs, keepdims=True)", "np.min(a, **argmin_kwargs, keepdims=True)"),
    ("pal-zeros-fill", ["C01", "C02"], ["R1.3"], P + "pool/_probabilistic_al.py",
     "            utilities = np.full(len(X), np.nan)\n", "            utilities = np.zeros(len(X))\n"),
    ("base-clip-dropped", ["C01"], ["R1.1"], P + "base.py",
     "            batch_size = n_candidates\n", "            pass\n"),
    ("clue-mask-deleted", ["C01"], ["R1.4"], P + "pool/_clue.py",
     "            utilities[b][query_indices] = np.nan\n", ""),
    ("clue-mask-after-append", ["C02"], ["R2.1"], P + "pool/_clue.py",
     "            utilities[b][query_indices] = np.nan\n            idx_b = rand_argmax(utilities[b], random_state=self.random_state_)\n            query_indices.append(idx_b[0])\n",
     "            idx_b = rand_argmax(utilities[b], random_state=self.random_state_)\n            query_indices.append(idx_b[0])\n            utilities[b][query_indices] = np.nan\n"),
    ("coreset-center-mask-deleted", ["C01"], ["R1.4m"], P + "pool/_core_set.py",
     "    result_dist[cluster_centers] = np.nan\n", ""),
    ("ssw-replace-true", ["C01", "C20"], ["R1.8", "R20.2"], P + "pool/_wrapper.py",
     "a=candidate_indices, size=max_candidates, replace=False", "a=candidate_indices, size=max_candidates, replace=True", 2),
    ("gst-translation-dropped", ["C01", "C08"], ["R1.6", "R8.3"], P + "pool/_greedy_sampling.py",
     "query_indices[batch_size_x:] = unselected_cands[query_indices_y]", "query_indices[batch_size_x:] = query_indices_y"),
    # ---- rules added from round-2 seeded changes
    ("coreset-carry-erased", ["C01", "C02"], ["R1.4c", "R2.3"], P + "pool/_core_set.py",
     "            latest_distance_tmp = latest_distance.copy()\n            latest_distance_tmp[latest_distance_tmp == 0] = np.inf\n",
     "            latest_distance_tmp = np.full_like(latest_distance, np.inf)\n"),
    ("falcun-fallback-not-recorded", ["C02"], ["R2.4"], P + "pool/_falcun.py",
     "            rel_cand[query_indices] = np.nan\n            utilities_cand[b] = rel_cand\n",
     "            utilities_cand[b, query_indices] = np.nan\n"),
    ("rtal-kmeans-raw-random-state", ["C06"], ["R6.4"], P + "pool/_regression_tree_based_al.py",
     "n_k_discrete[leaf], random_state=self.random_state_", "n_k_discrete[leaf], random_state=self.random_state"),
    ("budget-manager-not-copied", ["C06", "C03", "C10", "C13"], ["R6.5", "R3", "R10.10", "R13.1"], P + "utils/_validation.py",
     "budget_manager_ = copy.deepcopy(budget_manager)", "budget_manager_ = budget_manager"),
    ("zliobaite-closed-form-decay", ["C04", "C10"], ["R4.4", "R10.3"], BZ,
     "        for s in queried:\n            self.u_t_ = self.u_t_ * ((self.w - 1) / self.w) + s\n",
     "        n = len(queried)\n        decay = (self.w - 1) / self.w\n        self.u_t_ = self.u_t_ * decay**n + np.sum(queried * decay ** (n - 1))\n"),
    ("nic-zero-weight-check-unmasked", ["C12"], ["R12.1"], P + "regressor/_nic_kernel_regressor.py",
     "if np.sum(self.weights_) == 0:", "if np.sum(sample_weight) == 0:"),
    ("saw-aperf-unit-range-shortcut", ["C20"], ["R20.3"], P + "pool/multiannotator/_wrapper.py",
     "            if A_perf.min() != A_perf.max():\n                A_perf = (\n                    1\n                    / (A_perf.max() - A_perf.min() + 1)\n                    * (A_perf - A_perf.min())\n                )\n            else:\n                A_perf = np.zeros_like(A_perf, dtype=float)\n",
     "            if A_perf.min() == A_perf.max():\n                A_perf = np.zeros_like(A_perf, dtype=float)\n            elif A_perf.min() < 0 or A_perf.max() > 1:\n                A_perf = (\n                    1\n                    / (A_perf.max() - A_perf.min() + 1)\n                    * (A_perf - A_perf.min())\n                )\n            else:\n                A_perf = A_perf.astype(float)\n"),
    ("vote-vectors-ravel-memory-order", ["C17", "C12"], ["R17.2", "R12.3"], P + "utils/_aggregation.py",
     "weights=w.ravel()", "weights=w.ravel(order=\"K\")"),
    ("is-unlabeled-empty-by-len", ["C16"], ["R16.4"], P + "utils/_label.py",
     "        return np.array(y, dtype=bool)\n", "        return np.zeros(len(y), dtype=bool)\n"),
    ("encoder-dtype-result-type", ["C16"], ["R16.5"], P + "utils/_label_encoder.py",
     "self._dtype = np.append(self.classes, self.missing_label).dtype",
     "self._dtype = np.result_type(np.asarray(self.classes).dtype, type(self.missing_label))"),
    ("gsx-reference-set-over-candidates", ["C08"], ["R8.6"], P + "pool/_greedy_sampling.py",
     '        sample_indices = np.arange(len(X), dtype=int)\n        selected_indices = labeled_indices(y, missing_label=self.missing_label)\n\n        if mapping is None:\n            X_all = np.append(X, X_cand, axis=0)\n            candidate_indices = len(X) + np.arange(len(X_cand), dtype=int)\n        else:\n            X_all = X\n            candidate_indices = mapping\n',
     '        selected_indices = labeled_indices(y, missing_label=self.missing_label)\n\n        if mapping is None:\n            X_all = np.append(X, X_cand, axis=0)\n            candidate_indices = len(X) + np.arange(len(X_cand), dtype=int)\n        else:\n            X_all = X\n            candidate_indices = mapping\n        sample_indices = np.arange(len(X_all), dtype=int)\n'),
    ("voi-error-over-candidates", ["C08"], ["R8.5"], P + "pool/_expected_error_reduction.py",
     "        idx_unlabeled = idx_train[\n            is_unlabeled(y_eval, missing_label=self.missing_label_)\n        ]\n",
     "        idx_unlabeled = idx_cand\n"),
    ("skl-label-counts-raw-classes", ["C09"], ["R9.5"], P + "classifier/_wrapper.py",
     "np.sum(y[is_lbld] == c) for c in range(len(self._le.classes_))", "np.sum(y[is_lbld] == c) for c in self._le.classes_"),
    ("icw-restore-weights-not-from-base", ["C19"], ["R19.5"], P + "pool/utils.py",
     "                self.sample_weight_ = self._copy_sw(self.base_sample_weight_)\n\n            if self.enforce_unique_samples:",
     "                self.sample_weight_ = self._copy_sw(\n                    self._get_sw(self.sample_weight, idx=self.idx_)\n                )\n\n            if self.enforce_unique_samples:"),
    ("coreset-where-erases-nan", ["C01", "C02"], ["R1.4c", "R2.3"], P + "pool/_core_set.py",
     "            latest_distance_tmp = latest_distance.copy()\n            latest_distance_tmp[latest_distance_tmp == 0] = np.inf\n",
     "            latest_distance_tmp = np.where(latest_distance > 0, latest_distance, np.inf)\n"),
    ("contrastive-neighbours-capped-by-candidates", ["C08"], ["R8.7"], P + "pool/_contrastive_al.py",
     "max_n_neighbors = min(nn.n_neighbors, len(X_labeled))", "max_n_neighbors = min(nn.n_neighbors, len(X_labeled), len(X_cand))"),
    ("coreset-plain-sum-over-nan-marked", ["C08", "C01", "C02"], ["R8.8", "R1.3"], P + "pool/_core_set.py",
     "sum_dist = np.nansum(latest_distance)", "sum_dist = np.sum(latest_distance)"),
    ("eer-current-error-after-simulation", ["C08"], ["R8.9"], P + "pool/_expected_error_reduction.py",
     "        # utils are maximized, errors minimized: hence multiply by (-1)\n",
     "        current_error = self._estimate_current_error(\n            id_clf, idx_train, idx_cand, idx_eval, w_eval\n        )\n"),
    ("random-bm-accounting-ignores-nan", ["C10"], ["R10.7"], BZ,
     "            tmp_u_t = tmp_u_t * ((self.w - 1) / self.w) + (\n                d and not np.isnan(utilities[i])\n            )\n",
     "            tmp_u_t = tmp_u_t * ((self.w - 1) / self.w) + d\n"),
    ("split-update-adapts-in-random-branch", ["C10", "C04"], ["R10.3", "R4.4"], BZ,
     "                else:\n                    if q:\n                        self.theta_ *= 1 - self.s\n                    else:\n                        self.theta_ *= 1 + self.s\n",
     "                if q:\n                    self.theta_ *= 1 - self.s\n                else:\n                    self.theta_ *= 1 + self.s\n"),
    ("pwc-raw-sentinel-on-encoded-labels", ["C09"], ["R9.1"], P + "classifier/_parzen_window_classifier.py",
     "is_lbld = is_labeled(y, missing_label=1)", "is_lbld = is_labeled(y, missing_label=self.missing_label)"),
    ("skl-partial-fit-resets-on-unfitted-flag", ["C13"], ["R13.4"], P + "classifier/_wrapper.py",
     "        if hasattr(self, \"estimator_\"):\n            if fit_function != \"partial_fit\":\n                self.estimator_ = deepcopy(self.estimator)\n        else:\n            self.estimator_ = deepcopy(self.estimator)\n        # count labels per class",
     "        if fit_function != \"partial_fit\" or not getattr(self, \"is_fitted_\", False):\n            self.estimator_ = deepcopy(self.estimator)\n        # count labels per class"),
    ("sklreg-partial-fit-always-resets", ["C13"], ["R13.4"], P + "regressor/_wrapper.py",
     "        if fit_function == \"fit\" or not hasattr(self, \"estimator_\"):\n            self.estimator_ = deepcopy(self.estimator)\n",
     "        self.estimator_ = deepcopy(self.estimator)\n"),
    ("skl-fit-reuses-fitted-estimator", ["C12", "C13"], ["R12.4", "R13.2"], P + "classifier/_wrapper.py",
     "        if hasattr(self, \"estimator_\"):\n            if fit_function != \"partial_fit\":\n                self.estimator_ = deepcopy(self.estimator)\n        else:\n            self.estimator_ = deepcopy(self.estimator)\n        # count labels per class",
     "        if not hasattr(self, \"estimator_\"):\n            self.estimator_ = deepcopy(self.estimator)\n        # count labels per class"),
    ("sklreg-mask-default-sentinel", ["C12", "C09"], ["R12.1", "R9.1"], P + "regressor/_wrapper.py",
     "is_lbld = is_labeled(y, missing_label=self.missing_label_)", "is_lbld = is_labeled(y)"),
    ("vote-vectors-weights-not-copied", ["C12", "C05"], ["R12.5", "R5.2"], P + "utils/_aggregation.py",
     "w, ensure_2d=False, ensure_all_finite=False, dtype=float, copy=True", "w, ensure_2d=False, ensure_all_finite=False, dtype=float"),
    ("majority-vote-zero-rows-to-sentinel", ["C17"], ["R17.3"], P + "utils/_aggregation.py",
     "        vote_vector = rand_argmax(vote_matrix, random_state, axis=1)\n",
     "        vote_vector = rand_argmax(vote_matrix, random_state, axis=1)\n        vote_vector[np.sum(vote_matrix, axis=1) == 0] = -1\n"),
    ("vote-vectors-weights-not-copied-c17", ["C17"], ["R17.4"], P + "utils/_aggregation.py",
     "w, ensure_2d=False, ensure_all_finite=False, dtype=float, copy=True", "w, ensure_2d=False, ensure_all_finite=False, dtype=float"),
    ("confusion-mask-wrong-column", ["C17"], ["R17.1"], P + "utils/_multi_annot.py",
     "is_not_nan_a = is_labeled(y[:, a + 1], missing_label=-1)", "is_not_nan_a = is_labeled(y[:, a], missing_label=-1)"),
    ("icw-unique-by-position", ["C19"], ["R19.8"], P + "pool/utils.py",
     "cur_idx = np.array([i not in add_idx for i in self.idx_])", "cur_idx = np.setdiff1d(np.arange(len(self.idx_)), add_idx)"),
    ("icw-none-guard-wrong-variable", ["C19"], ["R19.7"], P + "pool/utils.py",
     "            if add_sample_weight is None:\n                self.clf_.partial_fit(self.X[add_idx], add_y)",
     "            if sample_weight is None:\n                self.clf_.partial_fit(self.X[add_idx], add_y)"),
    ("icw-twin-rebuilt-without-all-params", ["C19"], ["R19.6"], P + "pool/utils.py",
     "            self.clf_ = clone(self.clf)\n            self.clf_.metric = \"precomputed\"\n            self.clf_.metric_dict = {}\n",
     "            self.clf_ = ParzenWindowClassifier(\n                metric=\"precomputed\",\n                classes=self.clf.classes,\n                missing_label=self.clf.missing_label,\n                cost_matrix=self.clf.cost_matrix,\n                class_prior=self.clf.class_prior,\n                random_state=self.clf.random_state,\n            )\n"),
    ("ssw-ratio-over-all-samples", ["C20"], ["R20.2"], P + "pool/_wrapper.py",
     "max_candidates = ceil(len(candidates) * self.max_candidates)", "max_candidates = ceil(len(X) * self.max_candidates)"),
    ("sample-y-seed-truthiness", ["C15"], ["R15.5"], P + "base.py",
     "        rv_samples = rv.rvs(\n            size=(n_samples, len(X)), random_state=random_state\n        )",
     "        random_state = random_state or self.random_state\n        rv_samples = rv.rvs(\n            size=(n_samples, len(X)), random_state=random_state\n        )"),
    ("sklreg-fallback-input-dtype", ["C15"], ["R15.4"], P + "regressor/_wrapper.py",
     "                return np.full(len(X), self._label_mean)\n", "                return np.full(len(X), self._label_mean, dtype=X.dtype)\n"),
    ("nic-zero-weight-check-unmasked-c15", ["C15"], ["R15.6"], P + "regressor/_nic_kernel_regressor.py",
     "if np.sum(self.weights_) == 0:", "if np.sum(sample_weight) == 0:"),
    # ---- round-3 seeded changes
    ("base-check-indices-result-discarded", ["C01"], ["R1.1"], P + "base.py",
     "candidates = check_indices(candidates, y, dim=0)", "check_indices(candidates, y, dim=0)"),
    ("falcun-zero-mask-before-power", ["C01", "C02"], ["R1.4m", "R2.3"], P + "pool/_falcun.py",
     "            rel_cand = (unc_cand + dist_cand) ** self.gamma\n            rel_cand[query_indices] = 0\n",
     "            rel_cand = unc_cand + dist_cand\n            rel_cand[query_indices] = 0\n            rel_cand = rel_cand**self.gamma\n"),
    ("rtal-fallback-ones-over-all-samples", ["C01", "C02"], ["R1.3"], P + "pool/_regression_tree_based_al.py",
     "                utilities = np.full(len(X), np.nan)\n                utilities[mapping] = np.ones(len(mapping))\n",
     "                utilities = np.ones(len(X))\n"),
    ("clue-earlier-picks-masked-after-selection", ["C02", "C01"], ["R2.1", "R1.4m"], P + "pool/_clue.py",
     "            utilities[b][query_indices] = np.nan\n            idx_b = rand_argmax(utilities[b], random_state=self.random_state_)\n",
     "            idx_b = rand_argmax(utilities[b], random_state=self.random_state_)\n            utilities[b][query_indices] = np.nan\n"),
    ("argmax-isclose-tie-mask", ["C02", "C18"], ["R2.5", "R18.1"], SEL,
     "        * (a == np.nanmax(a, **argmax_kwargs, keepdims=True)),", "        * np.isclose(a, np.nanmax(a, **argmax_kwargs, keepdims=True)),"),
    ("budget-frozen-at-first-validation", ["C04"], ["R4.5"], P + "base.py",
     "        if self.budget is not None:\n            self.budget_ = self.budget\n        else:\n            self.budget_ = 0.1\n",
     "        if not hasattr(self, \"budget_\"):\n            self.budget_ = self.budget if self.budget is not None else 0.1\n", 2),
    ("alce-mds-seed-only-for-default-params", ["C06"], ["R6.2"], P + "pool/_cost_embedding_al.py",
     "        \"random_state\": random_state,\n    }\n    if mds_params is not None:\n",
     "    }\n    if mds_params is None:\n        mds_params_default[\"random_state\"] = random_state\n    else:\n"),
    ("classifier-random-state-kept-across-fits", ["C06", "C13"], ["R6.6", "R13.2"], P + "base.py",
     "        self.random_state_ = check_random_state(self.random_state)\n\n        # Create label encoder.",
     "        if not hasattr(self, \"random_state_\"):\n            self.random_state_ = check_random_state(self.random_state)\n\n        # Create label encoder."),
    ("saw-utilities-scatter-into-zeros", ["C07"], ["R7.5"], P + "pool/multiannotator/_wrapper.py",
     "utilities = np.full((batch_size, n_samples, n_annotators), np.nan)", "utilities = np.zeros((batch_size, n_samples, n_annotators))"),
    # ---- round-3 seeded changes, second batch
    ("probcover-edges-cached-and-pruned", ["C08"], ["R8.11"], P + "pool/_prob_cover.py",
     "        edges = self.distances_ <= self.delta_max_\n", "        self.edges_ = self.distances_ <= self.delta_max_\n        edges = self.edges_\n"),
    ("ssw-ratio-over-all-samples-c08", ["C08"], ["R8.10"], P + "pool/_wrapper.py",
     "max_candidates = ceil(len(candidates) * self.max_candidates)", "max_candidates = ceil(len(X) * self.max_candidates)"),
    ("quire-raw-classes-after-encoding", ["C09"], ["R9.7"], P + "pool/_quire.py",
     "classes_ = le.transform(self.classes)", "classes_ = sorted(self.classes)"),
    ("coreset-filler-nan-constant", ["C09"], ["R9.2"], P + "pool/_core_set.py",
     "y_cand = np.full(shape=n_new_cand, fill_value=self.missing_label)", "y_cand = np.full(shape=n_new_cand, fill_value=MISSING_LABEL)"),
    ("cognitive-time-advanced-in-bulk", ["C10"], ["R10.8"], P + "stream/_density_uncertainty.py",
     "                new_candidates.append(np.nan)\n            self.t_ += 1\n        call_func(",
     "                new_candidates.append(np.nan)\n        self.t_ += len(candidates)\n        call_func(", 1),
    ("spal-returns-unweighted-utilities", ["C10"], ["R10.9"], P + "stream/_stream_probabilistic_al.py",
     "self.budget_manager_.query_by_utility(utilities)", "self.budget_manager_.query_by_utility(utilities * utility_weight)"),
    ("argmin-isclose-tie-mask", ["C11", "C18"], ["R11.6", "R18.1"], SEL,
     "        * (a == np.nanmin(a, **argmin_kwargs, keepdims=True)),", "        * np.isclose(a, np.nanmin(a, **argmin_kwargs, keepdims=True)),"),
    ("skl-label-counts-bincount-short", ["C11"], ["R11.8"], P + "classifier/_wrapper.py",
     "        self._label_counts = [\n            np.sum(y[is_lbld] == c) for c in range(len(self._le.classes_))\n        ]\n",
     "        self._label_counts = np.bincount(y[is_lbld].astype(np.int64))\n"),
    ("alr-column-reads-unmasked", ["C12"], ["R12.1"], P + "classifier/multiannotator/_annotator_logistic_regression.py",
     "w_j = sample_weight[is_lbld[:, j], j].reshape(-1, 1)", "w_j = sample_weight[:, j].reshape(-1, 1)"),
    ("nic-weights-stored-on-one-path", ["C13"], ["R13.5"], P + "regressor/_nic_kernel_regressor.py",
     "        else:\n            self.weights_ = None\n", ""),
    ("sliding-window-head-truncation", ["C13"], ["R13.3"], P + "classifier/_wrapper.py",
     "    def _add_samples(self, fit_func, X, y, sample_weight=None):\n", "    def _add_samples(self, fit_func, X, y, sample_weight=None):\n        if self.window_size is not None and len(X) > self.window_size:\n            X, y = X[: self.window_size], y[: self.window_size]\n"),
    ("qbc-committee-list-shallow-copy", ["C06", "C05"], ["R6.4", "R5.3"], P + "pool/_query_by_committee.py",
     "est_arr = copy.deepcopy(ensemble)", "est_arr = copy.copy(ensemble)"),
    # ---- round-3 seeded changes, third batch
    ("nic-combine-params-in-place", ["C15"], ["R15.7"], P + "regressor/_nic_kernel_regressor.py",
     "    mu_com = (kappa_1 * mu_1 + kappa_2 * mu_2) / kappa_com\n",
     "    delta = mu_2\n    delta -= mu_1\n    mu_com = mu_1 + kappa_2 * delta / kappa_com\n"),
    ("sklreg-fallback-shift-before-scale", ["C15"], ["R15.7"], P + "regressor/_wrapper.py",
     "            y_samples *= self._label_std\n            y_samples += self._label_mean\n",
     "            y_samples += self._label_mean\n            y_samples *= self._label_std\n"),
    ("is-unlabeled-dtype-from-first-entry", ["C16"], ["R16.5"], P + "utils/_label.py",
     "target_type = np.append(y.ravel(), missing_label).dtype", "target_type = np.array([*y.ravel()[:1], missing_label]).dtype"),
    ("confusion-row-normalisation-without-keepdims", ["C17"], ["R17.5"], P + "utils/_multi_annot.py",
     "cm = cm / cm.sum(axis=1, keepdims=True)", "cm = cm / cm.sum(axis=1)"),
    ("proportional-uniform-fallback-over-nan", ["C18"], ["R18.3"], SEL,
     "        p[np.isnan(p)] = 0\n", "        p[np.isnan(p)] = 0\n        if not p.any():\n            p[:] = 1 / len(p)\n"),
    ("icw-partial-fit-default-unique", ["C19"], ["R19.9"], P + "pool/utils.py",
     "        add_idx = check_indices(\n            add_idx, self.X, dim=0, unique=self.enforce_unique_samples\n        )\n",
     "        add_idx = check_indices(add_idx, self.X, dim=0)\n"),
    ("icw-nan-guard-all", ["C19"], ["R19.4"], P + "pool/utils.py", "if np.isnan(P).any():", "if np.isnan(P).all():", 3),
    ("ssw-first-row-broadcast", ["C20"], ["R20.2"], P + "pool/_wrapper.py",
     "new_utilities[:, new_candidates] = utilities[:, new_candidates]", "new_utilities[:, new_candidates] = utilities[0, new_candidates]"),
    ("parallel-extra-nan-at-labeled", ["C20"], ["R20.1"], P + "pool/_wrapper.py",
     "            utilities[mapping] = utilities_cand\n", "            utilities[mapping] = utilities_cand\n            utilities[is_labeled(y, missing_label=self.missing_label_)] = np.nan\n"),
    ("saw-inner-always-sample-candidates", ["C20"], ["R20.3"], P + "pool/multiannotator/_wrapper.py",
     "            candidates_sq = mapping[has_annotator]\n", "            candidates_sq = X[mapping[has_annotator]]\n"),
    ("argmin-seed-truthiness", ["C06", "C18"], ["R6.7", "R18.1"], SEL,
     "def rand_argmin(a, random_state=None, **argmin_kwargs):", "def rand_argmin(a, random_state=None, **argmin_kwargs):\n    random_state = random_state or None", 1),
    # ---- C03
    ("split-set-state-deleted", ["C03"], ["R3"], BZ,
     "        self.random_state_.set_state(random_state_state)\n", "        pass\n"),
    ("density-copy-to-alias", ["C03"], ["R3"], P + "stream/_density_uncertainty.py",
     "tmp_min_dist = copy(self.min_dist_)", "tmp_min_dist = self.min_dist_"),
    ("density-copy-to-deque", ["C03"], ["R3"], P + "stream/_density_uncertainty.py",
     "tmp_window = copy(self.window_)", "tmp_window = deque(self.window_)"),
    ("cognitive-restore-deleted", ["C03"], ["R3"], P + "stream/_density_uncertainty.py",
     "        self.t_ = t\n", "        pass\n"),
    ("biqf-write-back", ["C03"], ["R3"], P + "stream/budgetmanager/_balanced_incremental_quantile_filter.py",
     "                tmp_queried_samples_ += 1\n", "                tmp_queried_samples_ += 1\n                self.queried_samples_ = tmp_queried_samples_\n"),
    # ---- round 4
    ("probcover-selector-hoisted", ["C01", "C02"], ["R1.4m", "R2.3"], P + "pool/_prob_cover.py",
     "        for b in range(batch_size):\n            # Step (ii) in [1]: Remove incoming edges for covered samples.\n"
     "            is_covered = edges[~is_candidate].any(axis=0)\n            edges[:, is_covered] = False\n"
     "            # Step (i) in [1]: Query the sample with the highest out-degree.\n"
     "            utilities[b][is_candidate] = edges[is_candidate].sum(axis=1)\n",
     "        candidate_indices = np.flatnonzero(is_candidate)\n        for b in range(batch_size):\n"
     "            is_covered = edges[~is_candidate].any(axis=0)\n            edges[:, is_covered] = False\n"
     "            utilities[b][candidate_indices] = edges[candidate_indices].sum(axis=1)\n"),
    ("clip-bound-counts-elements", ["C01", "C02"], ["R1.1", "R2.6"], P + "base.py",
     "            n_candidates = len(candidates)\n\n        if n_candidates < batch_size:",
     "            n_candidates = np.size(candidates)\n\n        if n_candidates < batch_size:"),
    ("annotator-indices-not-deduplicated", ["C01", "C02", "C07"], ["R1.1", "R2.6", "R7.1"], P + "base.py",
     "annotators = check_indices(annotators, y, dim=1)", "check_indices(annotators, y, dim=1)"),
    ("iet-scatter-guarded-by-candidates", ["C07"], ["R7.5"], P + "pool/multiannotator/_interval_estimation_threshold.py",
     "        if mapping is not None:\n            w_utilities = utilities\n",
     "        if candidates is not None and candidates.ndim == 1:\n            w_utilities = utilities\n"),
    ("saw-translation-guarded-by-candidates", ["C07"], ["R7.5"], P + "pool/multiannotator/_wrapper.py",
     "        if mapping is None:\n            return re_val\n", "        if candidates is None or candidates.ndim == 2:\n            return re_val\n"),
    ("cross-entropy-generator-dropped", ["C06"], ["R6.2"], P + "pool/utils.py",
     "        reg=true_reg,\n        random_state=random_state,\n        **integration_dict,", "        reg=true_reg,\n        **integration_dict,"),
    ("iet-model-gets-raw-random-state", ["C05", "C06"], ["R5.1", "R6.4"], P + "pool/multiannotator/_interval_estimation_threshold.py",
     "            mode=\"upper\",\n            random_state=self.random_state_,", "            mode=\"upper\",\n            random_state=self.random_state,"),
    ("fourds-shares-callers-mixture", ["C05"], ["R5.3"], [
        (P + "classifier/_mixture_model_classifier.py", "self.mixture_model_ = deepcopy(self.mixture_model)", "self.mixture_model_ = self.mixture_model"),
        (P + "pool/_four_ds.py", "            clf = clone(clf).fit(X, y, sample_weight)\n",
         "            clf = clone(clf).set_params(mixture_model=clf.mixture_model)\n            clf = clf.fit(X, y, sample_weight)\n")]),
    ("ranvar-update-decays-per-remaining-instance", ["C04"], ["R4.6"], [
        (BZ, "        for s in queried:\n            if self.budget_ > u_t / self.w:", "        for i, s in enumerate(queried):\n            super().update(candidates[i:], [0] if s else [])\n            if self.budget_ > u_t / self.w:")]),
    ("stream-random-counts-index-values", ["C04"], ["R4.6"], P + "stream/_stream_baselines.py",
     "        self.queried_samples_ += np.sum(queried)\n        # update the random state", "        self.queried_samples_ += np.count_nonzero(queried_indices)\n        # update the random state"),
    ("periodic-observed-counts-elements", ["C04"], ["R4.6"], P + "stream/_stream_baselines.py",
     "        self.observed_samples_ += len(queried)\n", "        self.observed_samples_ += np.size(candidates)\n"),
    ("budget-manager-shallow-copied", ["C03", "C06", "C10", "C13"], ["R3", "R6.5", "R10.10", "R13.1"], P + "utils/_validation.py",
     "budget_manager_ = copy.deepcopy(budget_manager)", "budget_manager_ = copy.copy(budget_manager)"),
    ("spal-row-sum-not-kept", ["C10"], ["R10.11"], P + "stream/_stream_probabilistic_al.py",
     "n = pwc.predict_freq(candidates).sum(axis=1, keepdims=True)", "n = pwc.predict_freq(candidates).sum(axis=1)"),
    ("biqf-commit-sorted", ["C10"], ["R10.3"], P + "stream/budgetmanager/_balanced_incremental_quantile_filter.py",
     "self.history_sorted_.extend(utilities)", "self.history_sorted_.extend(np.sort(utilities))"),
    ("vote-weights-nan-not-zeroed", ["C11", "C17"], ["R11.9", "R17.2"], P + "utils/_aggregation.py",
     "    w[is_unlabeled_y] = 1\n\n    # count class labels per class and weight by confidence scores\n    w[np.logical_or(np.isnan(w), is_unlabeled_y)] = 0\n",
     "    # count class labels per class and weight by confidence scores\n    w[is_unlabeled_y] = 0\n"),
    ("ensemble-member-classes-and", ["C11"], ["R11.10"], P + "classifier/multiannotator/_annotator_ensemble_classifier.py",
     "if self.classes is None or est[1].classes is None:", "if self.classes is None and est[1].classes is None:"),
    ("regressor-labels-coerced-to-float", ["C12"], ["R12.6"], P + "base.py",
     "            y = column_or_1d(y) if y_ensure_1d else y\n        else:\n            check_X_dict[\"ensure_2d\"] = False\n\n        if sample_weight is not None:",
     "            y = column_or_1d(y, dtype=np.float64) if y_ensure_1d else y\n        else:\n            check_X_dict[\"ensure_2d\"] = False\n\n        if sample_weight is not None:"),
    ("sklearn-clf-weights-scaled-by-global-mean", ["C12"], ["R12.1"], P + "classifier/_wrapper.py",
     "                elif fit_function == \"fit\":\n                    fit_kwargs[\"sample_weight\"] = sample_weight[is_lbld]\n",
     "                elif fit_function == \"fit\":\n                    sample_weight = sample_weight / np.mean(sample_weight)\n                    fit_kwargs[\"sample_weight\"] = sample_weight[is_lbld]\n"),
    ("is-unlabeled-nonfinite-sentinel", ["C12", "C16"], ["R12.7", "R16.2"], P + "utils/_label.py",
     "    if isinstance(missing_label, float) and np.isnan(missing_label):\n        return np.isnan(y)\n",
     "    if isinstance(missing_label, float) and not np.isfinite(missing_label):\n        return np.isnan(y)\n"),
    ("icw-partial-fit-base-not-copied", ["C08", "C19"], ["R8.12", "R19.3"], P + "pool/utils.py",
     "                self.clf_ = deepcopy(self.base_clf_)\n", "                self.clf_ = self.base_clf_\n"),
    ("cfe-whole-batch-fallback", ["C08", "C11"], ["R8.12", "R11.2"], P + "base.py",
     "        normalizer = np.sum(P, axis=1)\n        P[normalizer > 0] /= normalizer[normalizer > 0, np.newaxis]\n        P[normalizer == 0, :] = [1 / len(self.classes_)] * len(self.classes_)\n        return P\n",
     "        normalizer = np.sum(P, axis=1, keepdims=True)\n        if np.all(normalizer > 0):\n            return P / normalizer\n        return np.full_like(P, 1 / len(self.classes_))\n"),
    ("typiclust-clustering-seed-dropped", ["C06"], ["R6.3"], P + "pool/_typi_clust.py",
     "            cluster_algo_dict.setdefault(\"random_state\", self.random_state_)\n", "            pass\n"),
    ("clue-clustering-seed-dropped", ["C06"], ["R6.3"], P + "pool/_clue.py",
     "            cluster_algo_dict.setdefault(\"random_state\", self.random_state_)\n", "            pass\n"),
    ("saw-assignment-unbounded-while", ["C07"], ["R7.4"], P + "pool/multiannotator/_wrapper.py",
     "        for _ in range(int(np.max(n_max_chosen_annotators, initial=0))):\n            if n_annotator_sample_pairs >= batch_size:\n                break\n",
     "        while n_annotator_sample_pairs < batch_size:\n"),
    ("bald-picks-not-read-off-the-marks", ["C01"], ["R1.5"], P + "pool/_bald.py",
     "            is_selected = is_nan[1:] & ~is_nan[:-1]\n", "            is_selected = is_nan[1:]\n"),
    ("cognitive-dual-unfiltered-indices", ["C10"], ["R10.1"], P + "stream/_density_uncertainty.py",
     "            queried_indices=new_queried_indices,\n", "            queried_indices=queried_indices,\n"),
    ("variable-uncertainty-stale-guard", ["C10"], ["R10.2"], BZ,
     "        for i, s in enumerate(queried):\n            if self.budget_ > u_t / self.w:", "        for i, s in enumerate(queried):\n            if self.budget_ > self.u_t_ / self.w:"),
    # ---- C04
    ("fixed-guard-false-path", ["C04"], ["R4.1"], BZ, "                d = False\n", "                pass\n"),
    ("variable-guard-reversed", ["C04"], ["R4.2"], BZ,
     "budget_left.append(self.budget_ > tmp_u_t / self.w)\n\n            if not budget_left[-1]:\n                sample = False\n            else:\n                sample = c < tmp_theta",
     "budget_left.append(self.budget_ < tmp_u_t / self.w)\n\n            if not budget_left[-1]:\n                sample = False\n            else:\n                sample = c < tmp_theta"),
    ("split-stale-attribute-guard", ["C04"], ["R4.2", "R4.1"], BZ,
     "budget_left.append(tmp_u_t / self.w < self.budget_)\n            if not budget_left[-1]:\n                sample = False",
     "budget_left.append(self.u_t_ / self.w < self.budget_)\n            if not budget_left[-1]:\n                sample = False"),
    ("density-accounting-dropped", ["C04"], ["R4.3"], TB, "            tmp_u += sample\n", "            pass\n"),
    ("stream-random-guard-dropped", ["C04"], ["R4.1", "R4.2"], P + "stream/_stream_baselines.py",
     "self.allow_exceeding_budget or available_budget > 1", "True"),
    ("random-bm-guard-or", ["C04"], ["R4.1"], BZ, "d = d if budget_left else False", "d = d or budget_left"),
    ("update-forgets-grants", ["C04"], ["R4.4"], BZ,
     "            self.u_t_ = self.u_t_ * ((self.w - 1) / self.w) + s\n", "            self.u_t_ = self.u_t_ * ((self.w - 1) / self.w)\n"),
    ("density-update-dedent", ["C04", "C10"], ["R4.4", "R10.3", "R10.2"], TB,
     "                    self.theta_ *= 1 + self.s\n            self.u_ += s\n", "                    self.theta_ *= 1 + self.s\n        self.u_ += s\n"),
    # ---- C05 / C13
    ("qbc-deepcopy-to-list", ["C05"], ["R5.3"], P + "pool/_query_by_committee.py",
     "est_arr = copy.deepcopy(ensemble)", "est_arr = list(ensemble)"),
    ("us-clone-dropped", ["C05"], ["R5.3"], P + "pool/_uncertainty_sampling.py",
     "clf = clone(clf).fit(X, y)\n", "clf = clf.fit(X, y)\n"),
    ("rs-input-mutated", ["C05"], ["R5.2"], P + "pool/_random_sampling.py",
     "        X_cand, mapping = self._transform_candidates(candidates, X, y)\n",
     "        X_cand, mapping = self._transform_candidates(candidates, X, y)\n        y[mapping] = 0\n"),
    ("probcover-sort-inplace", ["C05", "C13"], ["R5.1", "R13.1"], P + "pool/_prob_cover.py",
     "deltas = np.sort(deltas)", "deltas.sort()"),
    ("bm-budget-written-back", ["C13"], ["R13.1"], P + "base.py",
     "            self.budget_ = 0.1\n        check_scalar(\n            self.budget_,\n            \"budget\",\n            float,\n            min_val=0.0,\n            max_val=1.0,\n            min_inclusive=False,\n        )\n\n    def _validate_data(self, utilities",
     "            self.budget = 0.1\n            self.budget_ = 0.1\n        check_scalar(\n            self.budget_,\n            \"budget\",\n            float,\n            min_val=0.0,\n            max_val=1.0,\n            min_inclusive=False,\n        )\n\n    def _validate_data(self, utilities"),
    ("sliding-window-clear", ["C13"], ["R13.2", "R13.3"], P + "classifier/_wrapper.py",
     "            self.X_train_ = deque(maxlen=self.window_size)\n            self.y_train_ = deque(maxlen=self.window_size)\n            self.sample_weight_train_",
     "            self.X_train_.clear()\n            self.y_train_.clear()\n            self.sample_weight_train_"),
    ("mixture-deepcopy-dropped", ["C13"], ["R13.1"], P + "classifier/_mixture_model_classifier.py",
     "self.mixture_model_ = deepcopy(self.mixture_model)", "self.mixture_model_ = self.mixture_model"),
    # ---- C06
    ("us-random-state-none", ["C06"], ["R6.2"], P + "pool/_uncertainty_sampling.py",
     "        return simple_batch(\n            utilities,\n            self.random_state_,", "        return simple_batch(\n            utilities,\n            None,"),
    ("global-draw-inserted", ["C06"], ["R6.1"], P + "pool/_random_sampling.py",
     "            utilities = np.ones(len(X_cand))\n", "            utilities = np.random.rand(len(X_cand))\n"),
    ("rtal-kmeans-unseeded", ["C06"], ["R6.3"], P + "pool/_regression_tree_based_al.py",
     "n_k_discrete[leaf], random_state=self.random_state_", "n_k_discrete[leaf]"),
    ("saw-raw-random-state", ["C06"], ["R6.4"], P + "pool/multiannotator/_wrapper.py",
     "        random_state = self.random_state_\n\n        n_annotators = A_cand.shape[1]", "        random_state = self.random_state\n\n        n_annotators = A_cand.shape[1]"),
    # ---- C07
    ("avail-mask-float", ["C07"], ["R7.2"], P + "base.py", "np.full_like(y, False, dtype=bool)", "np.full_like(y, False)"),
    ("annot-unavailable-mask-deleted", ["C07", "C20"], ["R7.3", "R20.3"], P + "pool/multiannotator/_wrapper.py",
     "        annotator_utilities[:, ~A] = np.nan\n", ""),
    ("pair-mask-deleted", ["C07", "C20"], ["R7.3", "R20.3"], P + "pool/multiannotator/_wrapper.py",
     "            ] = np.nan\n\n            annotator_ps += 1", "            ] = 0\n\n            annotator_ps += 1"),
    ("pairs-count-wrong-case", ["C07"], ["R7.6"], P + "base.py",
     "n_candidate_pairs = len(candidates) * len(y.T)", "n_candidate_pairs = len(X) * len(y.T)"),
    ("quire-position-not-from-mask", ["C08"], ["R8.1"], P + "pool/_quire.py",
     "i_a = int(np.sum(mask_a[:s]))", "i_a = int(s) - int(np.sum(mask_l))"),
    ("stream-random-stale-counter", ["C10", "C04"], ["R10.6", "R4.2", "R4.1"], P + "stream/_stream_baselines.py",
     "tmp_observed_samples * self.budget_ - tmp_queried_samples\n            )\n            queried[i] = (\n                self.allow_exceeding_budget",
     "tmp_observed_samples * self.budget_ - self.queried_samples_\n            )\n            queried[i] = (\n                self.allow_exceeding_budget"),
    ("biqf-sim-copy-list", ["C10"], ["R10.6"], P + "stream/budgetmanager/_balanced_incremental_quantile_filter.py",
     "tmp_history_sorted_ = copy(self.history_sorted_)", "tmp_history_sorted_ = list(self.history_sorted_)"),
    ("skl-raw-cost-matrix", ["C11"], ["R11.5"], P + "classifier/_wrapper.py",
     "costs = np.dot(P, self.cost_matrix_)", "costs = np.dot(P, self.cost_matrix)"),
    ("pool-validate-isnan", ["C09"], ["R9.4", "R9.1"], P + "base.py",
     "seed_mult = int(np.sum(is_unlabeled(y, self.missing_label_))) + 1", "seed_mult = int(np.sum(np.isnan(y))) + 1"),
    ("falcun-zero-before-power", ["C02"], ["R2.3"], P + "pool/_falcun.py",
     "            rel_cand = (unc_cand + dist_cand) ** self.gamma\n            rel_cand[query_indices] = 0\n",
     "            rel_cand = unc_cand + dist_cand\n            rel_cand[query_indices] = 0\n            rel_cand = rel_cand**self.gamma\n"),
    ("typiclust-mask-in-one-branch", ["C01", "C02"], ["R1.4m", "R2.3"], P + "pool/_typi_clust.py",
     "                cluster_sizes[cluster_id] = 0\n            utilities[i, mapping] = typicality[mapping]\n            utilities[i, query_indices] = np.nan\n",
     "                typicality[query_indices] = np.nan\n                cluster_sizes[cluster_id] = 0\n            utilities[i, mapping] = typicality[mapping]\n"),
    ("bald-raw-random-state", ["C06"], ["R6.4"], P + "pool/_bald.py",
     "            eps=self.eps,\n            random_state=self.random_state_,\n", "            eps=self.eps,\n            random_state=self.random_state,\n"),
    # ---- C09
    ("us-sentinel-dropped", ["C09"], ["R9.1"], P + "base.py",
     "ulbd_idx = unlabeled_indices(y, self.missing_label_)", "ulbd_idx = unlabeled_indices(y)"),
    ("eer-nan-filler", ["C09"], ["R9.2"], P + "pool/_expected_error_reduction.py",
     "np.full(len(X_eval), self.missing_label_)", "np.full(len(X_eval), np.nan)"),
    # ---- C10
    ("variable-update-sign-swapped", ["C10"], ["R10.3"], BZ,
     "                if s:\n                    self.theta_ *= 1 - self.s\n                else:\n                    self.theta_ *= 1 + self.s\n",
     "                if s:\n                    self.theta_ *= 1 + self.s\n                else:\n                    self.theta_ *= 1 - self.s\n", 2),
    ("random-bm-rng-mirror-deleted", ["C10"], ["R10.5"], BZ,
     "        self._validate_data(np.array([]))\n        self.random_state_.random_sample(len(candidates))\n        super().update(candidates, queried_indices)",
     "        self._validate_data(np.array([]))\n        super().update(candidates, queried_indices)"),
    ("density-al-nan-append-deleted", ["C10"], ["R10.1"], P + "stream/_density_uncertainty.py",
     "                new_candidates.append(x_cand)\n            else:\n                new_candidates.append(np.nan)\n            self.window_.append(x_cand)",
     "                new_candidates.append(x_cand)\n            self.window_.append(x_cand)"),
    ("split-update-out-of-loop", ["C10"], ["R10.2"], BZ,
     "            new_queried_indices = [0] if q else []\n            super().update([x_t], new_queried_indices)\n",
     "        super().update(candidates, queried_indices)\n"),
    # ---- C11
    ("base-predict-not-decoded", ["C11", "C09"], ["R11.1", "R9.6"], P + "base.py",
     "        y_pred = self._le.inverse_transform(y_pred)\n        y_pred = np.asarray(y_pred, dtype=self.classes_.dtype)", "        y_pred = np.asarray(y_pred, dtype=self.classes_.dtype)"),
    ("ensemble-total-sum", ["C11"], ["R11.2"], P + "classifier/multiannotator/_annotator_ensemble_classifier.py",
     "P = V / np.sum(V, axis=1, keepdims=True)", "P = V / np.sum(V)"),
    ("zero-row-fallback-deleted", ["C11"], ["R11.2"], P + "base.py",
     "        P[normalizer == 0, :] = [1 / len(self.classes_)] * len(self.classes_)\n", ""),
    ("cost-matrix-one-axis", ["C11"], ["R11.3"], P + "base.py",
     "            self.cost_matrix_ = self.cost_matrix_[:, class_indices]\n", ""),
    # ---- C12
    ("skl-weights-unmasked", ["C12"], ["R12.1"], P + "classifier/_wrapper.py",
     "                    fit_kwargs[\"sample_weight\"] = sample_weight[is_lbld]\n                    self.estimator_.fit(",
     "                    fit_kwargs[\"sample_weight\"] = sample_weight\n                    self.estimator_.fit("),
    ("reg-x-unmasked", ["C12"], ["R12.1"], P + "regressor/_wrapper.py", "X_labeled = X[is_lbld]", "X_labeled = X"),
    ("nic-weights-unmasked", ["C12"], ["R12.1"], P + "regressor/_nic_kernel_regressor.py",
     "self.weights_ = sample_weight[is_lbld]", "self.weights_ = sample_weight"),
    ("alr-weights-unmasked", ["C12"], ["R12.1"], P + "classifier/multiannotator/_annotator_logistic_regression.py",
     "        if sample_weight is not None:\n            sample_weight = sample_weight[is_lbld]\n        n_samples = X.shape[0]", "        n_samples = X.shape[0]"),
    # ---- C15
    ("normal-regressor-mro", ["C15"], ["R15.2"], P + "regressor/_wrapper.py",
     "class SklearnNormalRegressor(ProbabilisticRegressor, SklearnRegressor)", "class SklearnNormalRegressor(SklearnRegressor, ProbabilisticRegressor)"),
    ("predict-var-not-std", ["C15"], ["R15.1"], P + "base.py", "result += (rv.std(),)", "result += (rv.var(),)"),
    ("sample-y-not-transposed", ["C15"], ["R15.3"], P + "base.py", "        return rv_samples.T\n", "        return rv_samples\n"),
    ("sample-y-seed-dropped", ["C15"], ["R15.5"], P + "base.py",
     "size=(n_samples, len(X)), random_state=random_state", "size=(n_samples, len(X)), random_state=None"),
    ("label-std-default", ["C15"], ["R15.4"], P + "regressor/_wrapper.py",
     "np.std(y[is_lbld]) if np.sum(is_lbld) > 1 else 1", "np.std(y[is_lbld]) if np.sum(is_lbld) > 0 else 1"),
    # ---- C16
    ("labeled-indices-sentinel", ["C16"], ["R16.1"], P + "utils/_label.py",
     "is_lbld = is_labeled(y, missing_label)", "is_lbld = is_labeled(y)"),
    ("nan-dispatch-weakened", ["C16"], ["R16.2"], P + "utils/_label.py",
     "if isinstance(missing_label, float) and np.isnan(missing_label):", "if isinstance(missing_label, float):"),
    ("inverse-fill-nan", ["C16"], ["R16.3"], P + "utils/_label_encoder.py",
     "        y_dec[~is_lbld] = self.missing_label\n", "        y_dec[~is_lbld] = np.nan\n"),
    # ---- C17
    ("vote-weights-not-zeroed", ["C17"], ["R17.2"], P + "utils/_aggregation.py",
     "    w[np.logical_or(np.isnan(w), is_unlabeled_y)] = 0\n", ""),
    ("confusion-else-deleted", ["C17"], ["R17.1"], P + "utils/_multi_annot.py",
     "            else:\n                conf_matrices[a] = cm\n", ""),
    ("majority-fill-nan", ["C17"], ["R17.3"], P + "utils/_aggregation.py",
     "np.full((n_samples,), missing_label, dtype=le._dtype)", "np.full((n_samples,), np.nan, dtype=le._dtype)"),
    # ---- C19
    ("icw-predict-delegates-proba", ["C19"], ["R19.1"], P + "pool/utils.py",
     "            return self.clf_.predict(self.X[idx])\n", "            return self.clf_.predict_proba(self.X[idx])\n"),
    ("icw-base-restore-alias", ["C19"], ["R19.3"], P + "pool/utils.py",
     "self.idx_ = self.base_idx_.copy()", "self.idx_ = self.base_idx_"),
    ("icw-group-partial", ["C19"], ["R19.2"], P + "pool/utils.py",
     "            self.idx_ = idx\n            self.y_ = y\n            self.sample_weight_ = sample_weight\n",
     "            self.idx_ = idx\n            self.y_ = y\n"),
    # ---- C20
    ("parallel-batch-size", ["C20"], ["R20.1"], P + "pool/_wrapper.py",
     "                batch_size=1,\n                return_utilities=True,", "                batch_size=batch_size,\n                return_utilities=True,"),
    ("parallel-reversed-outputs", ["C20"], ["R20.1"], P + "pool/_wrapper.py",
     "for qs_output in qs_outputs]", "for qs_output in reversed(qs_outputs)]"),
    ("ssw-inf-after-values", ["C20"], ["R20.2"], P + "pool/_wrapper.py",
     "                new_utilities[:, candidate_indices] = -np.inf\n                new_utilities[:, new_candidates] = utilities[:, new_candidates]\n",
     "                new_utilities[:, new_candidates] = utilities[:, new_candidates]\n                new_utilities[:, candidate_indices] = -np.inf\n"),
    ("ssw-translation-dropped", ["C20"], ["R20.2"], P + "pool/_wrapper.py",
     "            queried_indices = subset_and_labeled_indices[queried_indices]\n", "            pass\n"),
]

# behaviour-preserving edits that must stay silent: (id, properties, file, old, new)
SILENT_EDITS = [
    ("hoist-decay-factor-in-update", ["C04", "C10"], BZ,
     "        for s in queried:\n            self.u_t_ = self.u_t_ * ((self.w - 1) / self.w) + s\n",
     "        decay = (self.w - 1) / self.w\n        for s in queried:\n            self.u_t_ = self.u_t_ * decay + s\n", ""),
    ("coreset-where-keeps-nan", ["C01", "C02"], P + "pool/_core_set.py",
     "            latest_distance_tmp = latest_distance.copy()\n            latest_distance_tmp[latest_distance_tmp == 0] = np.inf\n",
     "            latest_distance_tmp = np.where(latest_distance == 0, np.inf, latest_distance)\n", ""),
    ("extract-mask-helper", ["C01", "C02", "C18"], SEL,
     "            utilities[tuple(best_indices[i])] = np.nan\n",
     "            _mask_winner(utilities, best_indices[i])\n",
     "\n\ndef _mask_winner(arr, pos):\n    arr[tuple(pos)] = np.nan\n"),
    ("hoist-budget-limit", ["C04"], BZ,
     "        tmp_theta = self.theta_\n\n        # get confidence\n        for i, c in enumerate(confidence):\n            budget_left.append(self.budget_ > tmp_u_t / self.w)",
     "        tmp_theta = self.theta_\n        limit = self.budget_ * self.w\n\n        # get confidence\n        for i, c in enumerate(confidence):\n            budget_left.append(limit > tmp_u_t)", ""),
    ("fill-nan-in-two-steps", ["C01", "C02"], P + "pool/_uncertainty_sampling.py",
     "            utilities = np.full(len(X), np.nan)\n", "            utilities = np.full(len(X), fill_value=np.nan)\n", ""),
    ("save-with-deepcopy", ["C03"], P + "stream/_density_uncertainty.py",
     "tmp_window = copy(self.window_)", "tmp_window = deepcopy(self.window_)", ""),
    ("clone-then-fit-two-steps", ["C05"], P + "pool/_uncertainty_sampling.py",
     "                clf = clone(clf).fit(X, y)\n", "                clf = clone(clf)\n                clf = clf.fit(X, y)\n", ""),
]

# functions whose locals are renamed consistently (behaviour preserving)
RENAME_TARGETS = [
    (SEL, "simple_batch"), (SEL, "rand_argmax"), (BZ, "query_by_utility"), (BZ, "update"), (TB, "query_by_utility"),
    (P + "stream/_density_uncertainty.py", "query"), (P + "stream/_stream_baselines.py", "query"),
    (P + "pool/_uncertainty_sampling.py", "query"), (P + "pool/_typi_clust.py", "query"),
    (P + "pool/_core_set.py", "k_greedy_center"), (P + "pool/_clue.py", "query"),
    (P + "utils/_aggregation.py", "compute_vote_vectors"), (P + "utils/_aggregation.py", "majority_vote"),
    (P + "utils/_multi_annot.py", "ext_confusion_matrix"), (P + "classifier/_wrapper.py", "_fit"),
    (P + "regressor/_wrapper.py", "_fit"), (P + "pool/utils.py", "partial_fit"), (P + "pool/_wrapper.py", "query"),
    (P + "pool/multiannotator/_wrapper.py", "_query_annotators"), (P + "utils/_label.py", "is_unlabeled"),
    (P + "pool/_greedy_sampling.py", "_greedy_sampling"), (P + "pool/_quire.py", "query"),
]
ROLE_NAMES_KEPT = set()  # nothing is exempt: rules must not depend on local names


def rename_locals(src, fname):
    tree = ast.parse(src)
    changed = False
    for fn in ast.walk(tree):
        if isinstance(fn, (ast.FunctionDef, ast.AsyncFunctionDef)) and fn.name == fname:
            params = {a.arg for a in fn.args.posonlyargs + fn.args.args + fn.args.kwonlyargs}
            if fn.args.vararg:
                params.add(fn.args.vararg.arg)
            if fn.args.kwarg:
                params.add(fn.args.kwarg.arg)
            locs = set()
            for n in ast.walk(fn):
                if isinstance(n, ast.Name) and isinstance(n.ctx, ast.Store):
                    locs.add(n.id)
            nested = {n.name for n in ast.walk(fn) if isinstance(n, (ast.FunctionDef, ast.AsyncFunctionDef)) and n is not fn}
            locs -= params
            locs -= nested
            locs -= {"_"}
            for n in ast.walk(fn):
                if isinstance(n, ast.Name) and n.id in locs:
                    n.id = n.id + "_rn"
                    changed = True
    return ast.unparse(tree) if changed else None


def rename_all_locals(src):
    """Every local of every function / method of a module renamed to an
    opaque name q0, q1, ... (parameters, nested function names, globals and
    attribute names are kept)."""
    tree = ast.parse(src)

    def top_funcs(node):
        for ch in ast.iter_child_nodes(node):
            if isinstance(ch, (ast.FunctionDef, ast.AsyncFunctionDef)):
                yield ch
            elif isinstance(ch, (ast.ClassDef, ast.If, ast.Try, ast.With)):
                yield from top_funcs(ch)
    for fn in top_funcs(tree):
        params = set()
        for sub in ast.walk(fn):
            if isinstance(sub, (ast.FunctionDef, ast.AsyncFunctionDef, ast.Lambda)):
                a = sub.args
                params |= {x.arg for x in a.posonlyargs + a.args + a.kwonlyargs}
                if a.vararg:
                    params.add(a.vararg.arg)
                if a.kwarg:
                    params.add(a.kwarg.arg)
        nested = {n.name for n in ast.walk(fn) if isinstance(n, (ast.FunctionDef, ast.AsyncFunctionDef, ast.ClassDef))
                  and n is not fn}
        glob = set()
        for n in ast.walk(fn):
            if isinstance(n, (ast.Global, ast.Nonlocal)):
                glob |= set(n.names)
        locs = []
        for n in ast.walk(fn):
            if isinstance(n, ast.Name) and isinstance(n.ctx, ast.Store) and n.id not in locs:
                locs.append(n.id)
        locs = [x for x in locs if x not in params and x not in nested and x not in glob and x != "_"]
        m = {x: f"q{i}" for i, x in enumerate(locs)}
        for n in ast.walk(fn):
            if isinstance(n, ast.Name) and n.id in m:
                n.id = m[n.id]
    return ast.unparse(tree)


def _copy_pkg(root):
    tmp = tempfile.mkdtemp(prefix="sa_selftest_")
    shutil.copytree(os.path.join(root, PKG), os.path.join(tmp, PKG),
                    ignore=shutil.ignore_patterns("tests", "__pycache__", "*.pyc", "*.pdf", "*.png"))
    return tmp


def _violations(prop, root):
    mod = importlib.import_module(f"sa.rules.{prop.lower()}")
    p = Project(root)
    r = Report(prop)
    mod.run(p, r, "quick")
    return {(o.rule, o.entity, o.construct) for o in r.obligations if not o.ok}


def _run_variant(args):
    prop, root, kind, vid, edits = args
    tmp = _copy_pkg(root)
    try:
        applied = 0
        for (rel, old, new, count) in edits:
            path = os.path.join(tmp, rel)
            if not os.path.exists(path):
                continue
            src = open(path).read()
            if kind == "rename":
                out = rename_locals(src, old)
                if out is not None:
                    open(path, "w").write(out)
                    applied += 1
            elif kind == "reformat":
                open(path, "w").write(ast.unparse(ast.parse(src)))
                applied += 1
            elif kind == "rename-all":
                open(path, "w").write(rename_all_locals(src))
                applied += 1
            elif kind in ("silent-patch", "fire-patch"):
                import subprocess
                r = subprocess.run(["patch", "-p1", "-s", "-f", "-d", tmp, "-i", old], capture_output=True, text=True)
                if r.returncode == 0:
                    applied += 1
                break
            elif kind == "silent-edit":
                new_, _, append = new.partition("\x00")
                if src.count(old) == count:
                    open(path, "w").write(src.replace(old, new_) + append)
                    applied += 1
            else:
                if src.count(old) == count:
                    open(path, "w").write(src.replace(old, new))
                    applied += 1
        if applied == 0 or (kind == "fire" and applied != len(edits)):
            return (vid, kind, "skipped", [])
        try:
            v = _violations(prop, tmp)
        except AnalysisError as e:
            return (vid, kind, "analysis-error", [str(e)])
        except SyntaxError as e:
            return (vid, kind, "skipped", [f"variant does not parse: {e}"])
        return (vid, kind, "ran", sorted(v))
    finally:
        shutil.rmtree(tmp, ignore_errors=True)


def run_for(prop, mod, project):
    root = project.root
    base = _violations(prop, root)
    jobs = []
    for spec in MUST_FIRE:
        if isinstance(spec[3], list):
            # several cooperating edits: (id, props, rules, [(file, old, new), ...])
            vid, props, rules, multi = spec[:4]
            if prop in props:
                jobs.append((prop, root, "fire", vid, [(r_, o_, n_, 1) for (r_, o_, n_) in multi]))
            continue
        vid, props, rules, rel, old, new = spec[:6]
        count = spec[6] if len(spec) > 6 else 1
        if prop in props:
            jobs.append((prop, root, "fire", vid, [(rel, old, new, count)]))
    for (vid, props, rel, old, new, append) in SILENT_EDITS:
        if prop in props:
            jobs.append((prop, root, "silent-edit", vid, [(rel, old, new + "\x00" + append, 1)]))
    # behaviour-preserving patches kept under /verif/silent/<name>/patch.diff
    # (maintainer-style refactorings): every check has to stay silent on each
    sdir = os.path.join(os.path.dirname(os.path.dirname(os.path.abspath(__file__))), "silent")
    if os.path.isdir(sdir):
        for name in sorted(os.listdir(sdir)):
            pf = os.path.join(sdir, name, "patch.diff")
            if os.path.exists(pf):
                jobs.append((prop, root, "silent-patch", "patch:" + name, [("skactiveml/__init__.py", pf, None, 0)]))
    # the seeded changes of /verif/seeded that the check of this property reported when they were
    # confirmed (seeded/MATRIX.json) must still be reported: regression suite of real-looking breaks
    seed_expected = {}
    mfile = os.path.join(os.path.dirname(sdir), "seeded", "MATRIX.json")
    if os.path.exists(mfile):
        import json as _json
        for ent in _json.load(open(mfile)):
            pf = os.path.join(os.path.dirname(sdir), "seeded", ent["seed"], "patch.diff")
            if ent.get("property") == prop and ent.get("status") == "reported" and os.path.exists(pf):
                vid = "seed:" + ent["seed"]
                seed_expected[vid] = ent.get("rules") or [""]
                jobs.append((prop, root, "fire-patch", vid, [("skactiveml/__init__.py", pf, None, 0)]))
    jobs.append((prop, root, "rename", "rename-locals", [(rel, fn, None, 0) for rel, fn in RENAME_TARGETS]))
    allpy = []
    for dp, dn, fns in os.walk(os.path.join(root, PKG)):
        dn[:] = [d for d in dn if d not in ("tests", "__pycache__")]
        for f in fns:
            if f.endswith(".py"):
                allpy.append((os.path.relpath(os.path.join(dp, f), root), None, None, 0))
    jobs.append((prop, root, "reformat", "reformat-package", allpy))
    jobs.append((prop, root, "rename-all", "rename-every-local-opaquely", allpy))
    with ProcessPoolExecutor(max_workers=min(16, max(1, len(jobs)))) as ex:
        results = list(ex.map(_run_variant, jobs))
    expected = {s[0]: s[2] for s in MUST_FIRE}
    expected.update(seed_expected)
    killed = silent_ok = skipped = 0
    failures = []
    details = []
    for (vid, kind, status, v) in results:
        if status == "skipped":
            skipped += 1
            details.append({"variant": vid, "kind": kind, "result": "skipped (anchor text not in the current tree)"})
            continue
        if status == "analysis-error":
            if kind in ("fire", "fire-patch"):
                # a vanished anchor reported as analysis error still means the edit was noticed
                killed += 1
                details.append({"variant": vid, "kind": kind, "result": "analysis-error (fail-closed): " + v[0][:120]})
            else:
                failures.append(f"silent variant {vid} made the analysis fail: {v[0][:160]}")
            continue
        new = [k for k in v if tuple(k) not in base]
        if kind in ("fire", "fire-patch"):
            hit = [k for k in new if any(k[0].startswith(r) for r in expected[vid])]
            if hit:
                killed += 1
                details.append({"variant": vid, "kind": kind, "result": "reported", "by": f"{hit[0][0]} {hit[0][1]}"})
            else:
                failures.append(f"must-fire variant {vid} not reported by {expected[vid]} (new violations: {[k[0] + ' ' + k[1] for k in new][:3]})")
        else:
            if new:
                failures.append(f"silent variant {vid} raised {[k[0] + ' ' + k[1] + ' :: ' + k[2][:60] for k in new][:3]}")
            else:
                silent_ok += 1
                details.append({"variant": vid, "kind": kind, "result": "silent"})
    out = {"variants": len(results), "must_fire": sum(1 for j in jobs if j[2] in ("fire", "fire-patch")), "killed": killed,
           "seeded_changes_replayed": sum(1 for j in jobs if j[2] == "fire-patch"),
           "silent_variants": sum(1 for j in jobs if j[2] not in ("fire", "fire-patch")), "silent_ok": silent_ok, "skipped": skipped,
           "details": details}
    if failures:
        raise AnalysisError("checker self-test failed: " + " | ".join(failures))
    return out
