"""E2 (structured) - parent maps and dominance over the statement tree.

The package uses only structured control flow (no goto), so dominance and
post-dominance between two statements of one function can be decided on the
statement tree: see `dominates` / `postdominates`.
"""
import ast

BLOCK_FIELDS = ("body", "orelse", "finalbody", "handlers")


class FuncTree:
    """Parent links for the statements and expressions of one function."""

    def __init__(self, fnode):
        self.fnode = fnode
        self.parent = {}  # node -> parent node
        self.block_of = {}  # stmt -> (owner stmt, field, index)
        self._build(fnode)

    def _build(self, node):
        for field, value in ast.iter_fields(node):
            if isinstance(value, list):
                for i, ch in enumerate(value):
                    if isinstance(ch, ast.AST):
                        self.parent[ch] = node
                        if isinstance(ch, ast.stmt):
                            self.block_of[ch] = (node, field, i)
                        if isinstance(ch, (ast.FunctionDef, ast.AsyncFunctionDef, ast.Lambda, ast.ClassDef)) and ch is not self.fnode:
                            # nested scopes: still indexed (closures are part of
                            # the function for ordering purposes)
                            pass
                        self._build(ch)
            elif isinstance(value, ast.AST):
                self.parent[value] = node
                self._build(value)

    def stmt_of(self, node):
        """Innermost statement containing `node`."""
        n = node
        while n is not None and not isinstance(n, ast.stmt):
            n = self.parent.get(n)
        return n

    def ancestors(self, stmt):
        """[(stmt_k, owner_k, field_k, index_k)] from `stmt` up to the function
        body: stmt_k is the ancestor statement that is a direct child of
        block (owner_k.field_k)."""
        out = []
        s = stmt
        while s is not None and s is not self.fnode:
            if s in self.block_of:
                owner, field, idx = self.block_of[s]
                out.append((s, owner, field, idx))
                s = owner
            else:
                s = self.parent.get(s)
                while s is not None and not isinstance(s, (ast.stmt, ast.ExceptHandler)):
                    s = self.parent.get(s)
            if isinstance(s, ast.ExceptHandler):
                # handler is a child of Try.handlers
                owner = self.parent.get(s)
                out.append((s, owner, "handlers", owner.handlers.index(s)))
                s = owner
        return out

    def contains(self, outer, inner):
        n = inner
        while n is not None:
            if n is outer:
                return True
            n = self.parent.get(n)
        return False

    def enclosing_loops(self, stmt):
        out = []
        n = self.parent.get(stmt)
        while n is not None and n is not self.fnode:
            if isinstance(n, (ast.For, ast.While, ast.AsyncFor)):
                out.append(n)
            if isinstance(n, (ast.FunctionDef, ast.AsyncFunctionDef, ast.Lambda)):
                break
            n = self.parent.get(n)
        return out


def _block(owner, field):
    return getattr(owner, field)


def dominates(tree, a, b):
    """Statement `a` is executed on every path from function entry to `b`.
    Sufficient structural condition: `a` is a direct child of a block that
    encloses `b` (or contains it as a sibling) and precedes b's ancestor in
    that block; `a` must be a statement that cannot be skipped once reached
    (any statement: reaching a later sibling implies a was executed, unless
    a itself is the compound statement containing b)."""
    if a is b:
        return True
    if a not in tree.block_of:
        return False
    a_owner, a_field, a_idx = tree.block_of[a]
    for (s, owner, field, idx) in tree.ancestors(b):
        if owner is a_owner and field == a_field and a_idx < idx:
            # `a` precedes the ancestor of b in the same block.  A `try` body
            # statement does not dominate its handlers' statements, but then
            # they are not in the same block.
            return True
    return False


def _escapes(node, stop_block_owner, tree, loops_of_block):
    """Does `node`'s subtree contain a return, or a break/continue that leaves
    the block we are scanning?"""
    for n in ast.walk(node):
        if isinstance(n, ast.Return):
            # returns of nested defs/lambdas do not count
            if _in_nested_def(n, node, tree):
                continue
            return True
        if isinstance(n, (ast.Break, ast.Continue)):
            if _in_nested_def(n, node, tree):
                continue
            # target loop: innermost enclosing loop of n
            loops = tree.enclosing_loops(n)
            if not loops:
                continue
            target = loops[0]
            # escapes if the target loop is not inside `node`
            if not tree.contains(node, target):
                return True
    return False


def _in_nested_def(n, top, tree):
    p = tree.parent.get(n)
    while p is not None and p is not top:
        if isinstance(p, (ast.FunctionDef, ast.AsyncFunctionDef, ast.Lambda)):
            return True
        p = tree.parent.get(p)
    return False


def postdominates(tree, a, b):
    """Statement `a` is executed on every path from `b` to a normal return of
    the function (exceptions are not modelled).  Sufficient structural
    condition: `a` is a direct child of a block enclosing `b`, placed after
    b's ancestor statement in that block, and no statement from b's ancestor
    (inclusive) up to `a` (exclusive) contains a return or a break/continue
    leaving that block.  Additionally, at every nesting level between b and
    that block, the statements following b's ancestor must not escape either
    (they are covered because they are inside the ancestor statement)."""
    if a is b:
        return True
    if a not in tree.block_of:
        return False
    a_owner, a_field, a_idx = tree.block_of[a]
    for (s, owner, field, idx) in tree.ancestors(b):
        if owner is a_owner and field == a_field and idx < a_idx:
            blk = _block(owner, field)
            for st in blk[idx:a_idx]:
                if _escapes(st, owner, tree, None):
                    return False
            return True
    return False


def name_stores(fnode, name):
    """Statements in `fnode` binding local `name`."""
    out = []
    for n in ast.walk(fnode):
        if isinstance(n, ast.Name) and n.id == name and isinstance(n.ctx, ast.Store):
            out.append(n)
    return out


def iter_stmts(fnode):
    for n in ast.walk(fnode):
        if isinstance(n, ast.stmt) and n is not fnode:
            yield n
