"""E2 (structured) - parent maps and dominance over the statement tree.

The package uses only structured control flow (no goto), so dominance and
post-dominance between two statements of one function can be decided on the
statement tree: see `dominates` / `postdominates`.
"""
import ast
import copy

BLOCK_FIELDS = ("body", "orelse", "finalbody", "handlers")


class FuncTree:
    """Parent links for the statements and expressions of one function."""

    def __init__(self, fnode):
        self.fnode = fnode
        self.parent = {}  # node -> parent node
        self.block_of = {}  # stmt -> (owner stmt, field, index)
        self._build(fnode)

    def _build(self, node):
        for field, value in ast.iter_fields(node):
            if isinstance(value, list):
                for i, ch in enumerate(value):
                    if isinstance(ch, ast.AST):
                        self.parent[ch] = node
                        if isinstance(ch, ast.stmt):
                            self.block_of[ch] = (node, field, i)
                        if isinstance(ch, (ast.FunctionDef, ast.AsyncFunctionDef, ast.Lambda, ast.ClassDef)) and ch is not self.fnode:
                            # nested scopes: still indexed (closures are part of
                            # the function for ordering purposes)
                            pass
                        self._build(ch)
            elif isinstance(value, ast.AST):
                self.parent[value] = node
                self._build(value)

    def stmt_of(self, node):
        """Innermost statement containing `node`."""
        n = node
        while n is not None and not isinstance(n, ast.stmt):
            n = self.parent.get(n)
        return n

    def ancestors(self, stmt):
        """[(stmt_k, owner_k, field_k, index_k)] from `stmt` up to the function
        body: stmt_k is the ancestor statement that is a direct child of
        block (owner_k.field_k)."""
        out = []
        s = stmt
        while s is not None and s is not self.fnode:
            if s in self.block_of:
                owner, field, idx = self.block_of[s]
                out.append((s, owner, field, idx))
                s = owner
            else:
                s = self.parent.get(s)
                while s is not None and not isinstance(s, (ast.stmt, ast.ExceptHandler)):
                    s = self.parent.get(s)
            if isinstance(s, ast.ExceptHandler):
                # handler is a child of Try.handlers
                owner = self.parent.get(s)
                out.append((s, owner, "handlers", owner.handlers.index(s)))
                s = owner
        return out

    def contains(self, outer, inner):
        n = inner
        while n is not None:
            if n is outer:
                return True
            n = self.parent.get(n)
        return False

    def enclosing_loops(self, stmt):
        out = []
        n = self.parent.get(stmt)
        while n is not None and n is not self.fnode:
            if isinstance(n, (ast.For, ast.While, ast.AsyncFor)):
                out.append(n)
            if isinstance(n, (ast.FunctionDef, ast.AsyncFunctionDef, ast.Lambda)):
                break
            n = self.parent.get(n)
        return out


def _block(owner, field):
    return getattr(owner, field)


def dominates(tree, a, b):
    """Statement `a` is executed on every path from function entry to `b`.
    Sufficient structural condition: `a` is a direct child of a block that
    encloses `b` (or contains it as a sibling) and precedes b's ancestor in
    that block; `a` must be a statement that cannot be skipped once reached
    (any statement: reaching a later sibling implies a was executed, unless
    a itself is the compound statement containing b)."""
    if a is b:
        return True
    if a not in tree.block_of:
        return False
    a_owner, a_field, a_idx = tree.block_of[a]
    for (s, owner, field, idx) in tree.ancestors(b):
        if owner is a_owner and field == a_field and a_idx < idx:
            # `a` precedes the ancestor of b in the same block.  A `try` body
            # statement does not dominate its handlers' statements, but then
            # they are not in the same block.
            return True
    return False


def _escapes(node, stop_block_owner, tree, loops_of_block):
    """Does `node`'s subtree contain a return, or a break/continue that leaves
    the block we are scanning?"""
    for n in ast.walk(node):
        if isinstance(n, ast.Return):
            # returns of nested defs/lambdas do not count
            if _in_nested_def(n, node, tree):
                continue
            return True
        if isinstance(n, (ast.Break, ast.Continue)):
            if _in_nested_def(n, node, tree):
                continue
            # target loop: innermost enclosing loop of n
            loops = tree.enclosing_loops(n)
            if not loops:
                continue
            target = loops[0]
            # escapes if the target loop is not inside `node`
            if not tree.contains(node, target):
                return True
    return False


def _in_nested_def(n, top, tree):
    p = tree.parent.get(n)
    while p is not None and p is not top:
        if isinstance(p, (ast.FunctionDef, ast.AsyncFunctionDef, ast.Lambda)):
            return True
        p = tree.parent.get(p)
    return False


def postdominates(tree, a, b):
    """Statement `a` is executed on every path from `b` to a normal return of
    the function (exceptions are not modelled).  Sufficient structural
    condition: `a` is a direct child of a block enclosing `b`, placed after
    b's ancestor statement in that block, and no statement from b's ancestor
    (inclusive) up to `a` (exclusive) contains a return or a break/continue
    leaving that block.  Additionally, at every nesting level between b and
    that block, the statements following b's ancestor must not escape either
    (they are covered because they are inside the ancestor statement)."""
    if a is b:
        return True
    if a not in tree.block_of:
        return False
    a_owner, a_field, a_idx = tree.block_of[a]
    for (s, owner, field, idx) in tree.ancestors(b):
        if owner is a_owner and field == a_field and idx < a_idx:
            blk = _block(owner, field)
            for st in blk[idx:a_idx]:
                if _escapes(st, owner, tree, None):
                    return False
            return True
    return False


def name_stores(fnode, name):
    """Statements in `fnode` binding local `name`."""
    out = []
    for n in ast.walk(fnode):
        if isinstance(n, ast.Name) and n.id == name and isinstance(n.ctx, ast.Store):
            out.append(n)
    return out


def iter_stmts(fnode):
    for n in ast.walk(fnode):
        if isinstance(n, ast.stmt) and n is not fnode:
            yield n


# ---------------------------------------------------------------------------
# Temporaries: `t = <expr>` bound exactly once and only read afterwards.
# Structural rules look at the function with such temporaries substituted
# back, so "split a long expression into named temporaries" (and the
# reverse) does not change what a rule sees.
PURE_CALLS = {"sum", "len", "mean", "std", "var", "min", "max", "nansum", "nanmean", "nanmax", "nanmin", "shape", "size",
              "isnan", "any", "all", "abs", "sqrt", "log", "exp", "count_nonzero", "ndim", "isscalar", "isinstance",
              "float", "int", "bool", "ceil", "floor"}


def _call_name(c):
    f = c.func
    return f.attr if isinstance(f, ast.Attribute) else (f.id if isinstance(f, ast.Name) else None)


def inline_temporaries(fnode, max_rounds=80, keep=None):
    """Deep copy of `fnode` in which every local that
      * is stored exactly once in the function (plain `name = expr`, not a
        parameter, loop target, with-target, augmented or deleted),
      * whose defining statement is not inside a loop that the use is outside of,
      * and none of whose free names is re-stored between the definition and
        a use (line order),
    is replaced by its defining expression at every read; the defining
    statement is removed when all reads were replaced.  Line numbers of the
    moved expressions are kept."""
    import copy
    f = copy.deepcopy(fnode)
    for _ in range(max_rounds):
        if not _inline_once(f, keep):
            break
    return f


def _inline_once(f, keep=None):
    import copy
    params = {a.arg for a in f.args.args + f.args.kwonlyargs + f.args.posonlyargs}
    if f.args.vararg:
        params.add(f.args.vararg.arg)
    if f.args.kwarg:
        params.add(f.args.kwarg.arg)
    stores = {}
    nested = set()
    for n in ast.walk(f):
        if n is not f and isinstance(n, (ast.FunctionDef, ast.AsyncFunctionDef, ast.Lambda, ast.ClassDef)):
            for x in ast.walk(n):
                if isinstance(x, ast.Name):
                    nested.add(x.id)
    for n in ast.walk(f):
        if isinstance(n, ast.Name) and isinstance(n.ctx, (ast.Store, ast.Del)):
            stores.setdefault(n.id, []).append(n)
        elif isinstance(n, (ast.Subscript, ast.Attribute)) and isinstance(n.ctx, (ast.Store, ast.Del)):
            b = n
            first_attr = None
            while isinstance(b, (ast.Subscript, ast.Attribute)):
                if isinstance(b, ast.Attribute):
                    first_attr = b.attr
                b = b.value
            if isinstance(b, ast.Name):
                if b.id == "self" and first_attr is not None:
                    stores.setdefault("self." + first_attr, []).append(n)   # write to one attribute of self
                else:
                    stores.setdefault(b.id, []).append(n)      # in-place write counts as a store
    # method calls that mutate (x.append, x.sort ...) count as stores of x
    for n in ast.walk(f):
        if isinstance(n, ast.Expr) and isinstance(n.value, ast.Call) and isinstance(n.value.func, ast.Attribute) \
                and isinstance(n.value.func.value, ast.Name):
            stores.setdefault(n.value.func.value.id, []).append(n.value)
    # candidate definitions: top-level-or-nested simple Assign statements
    parents = {}
    for n in ast.walk(f):
        for ch in ast.iter_child_nodes(n):
            parents[ch] = n
    cands = {}
    for n in ast.walk(f):
        if isinstance(n, ast.Assign) and len(n.targets) == 1 and isinstance(n.targets[0], ast.Name):
            name = n.targets[0].id
            if name in params or name in nested or len(stores.get(name, [])) != 1:
                continue
            if any(isinstance(x, (ast.Yield, ast.YieldFrom, ast.Await, ast.NamedExpr, ast.Lambda)) for x in ast.walk(n.value)):
                continue
            if keep is not None and keep(n):
                continue
            cands[name] = n
    if not cands:
        return False

    def loops_of(node):
        out = []
        x = parents.get(node)
        while x is not None and x is not f:
            if isinstance(x, (ast.For, ast.While)):
                out.append(x)
            x = parents.get(x)
        return out

    def stmt_line(node):
        x = node
        while x is not None and not isinstance(x, ast.stmt):
            x = parents.get(x)
        return x.lineno if x is not None else node.lineno

    tree = None
    changed = False
    for name, d in cands.items():
        uses = [n for n in ast.walk(f) if isinstance(n, ast.Name) and n.id == name and isinstance(n.ctx, ast.Load)]
        if not uses:
            continue
        free = {x.id for x in ast.walk(d.value) if isinstance(x, ast.Name)}
        if name in free:
            continue
        if "self" in free:
            # reads of self.<attr> conflict only with writes to that attribute
            # (a method call on self, counted as a store of `self`, still blocks)
            for x in ast.walk(d.value):
                if isinstance(x, ast.Attribute) and isinstance(x.value, ast.Name) and x.value.id == "self":
                    free.add("self." + x.attr)
        # an expression with a call is evaluated once: move it only to a single
        # reader - unless every call in it is a pure reduction / shape query
        if len(uses) > 1 and any(isinstance(x, ast.Call) and _call_name(x) not in PURE_CALLS for x in ast.walk(d.value)):
            continue
        dl = loops_of(d)
        ok_all = True
        # the definition has to dominate every read (otherwise substituting it
        # would hide a read of a possibly unbound name)
        if tree is None:
            tree = FuncTree(f)
        for u in uses:
            us = u
            while us is not None and not isinstance(us, ast.stmt):
                us = parents.get(us)
            if us is None or not dominates(tree, d, us):
                ok_all = False
                break
        if not ok_all:
            continue
        for u in uses:
            if u.lineno <= d.lineno:
                ok_all = False
                break
            ul = loops_of(u)
            if any(l not in ul for l in dl):
                ok_all = False      # defined in a loop, read after it
                break
            if any(l not in dl for l in ul):
                # read inside a loop the definition is outside of: the free
                # names must not be stored anywhere in that loop
                inner = [l for l in ul if l not in dl]
                lo = min(l.lineno for l in inner)
                hi = max(getattr(l, "end_lineno", l.lineno) for l in inner)
            else:
                lo, hi = d.lineno, stmt_line(u) - 1
            for x in free:
                for s in stores.get(x, []):
                    # (the statement that reads the temporary evaluates it before its own store)
                    if min(lo, d.lineno) < stmt_line(s) <= max(hi, stmt_line(u) - 1) and s is not d.targets[0]:
                        ok_all = False
            # calls may have effects: only move a call if nothing is stored at all in between
            if not ok_all:
                break
        if not ok_all:
            continue
        # replace
        class R(ast.NodeTransformer):
            def visit_Name(self, n):
                if n.id == name and isinstance(n.ctx, ast.Load):
                    return copy.deepcopy(d.value)
                return n
        R().visit(f)
        # drop the definition
        par = parents.get(d)
        for field in ("body", "orelse", "finalbody"):
            lst = getattr(par, field, None)
            if isinstance(lst, list) and d in lst:
                lst.remove(d)
                if not lst:
                    lst.append(ast.copy_location(ast.Pass(), d))
        changed = True
        break      # parents/stores are stale: recompute
    return changed


def nest_guard_clauses(fnode):
    """Normal form for guard clauses inside loops: at the top level (tail) of a loop body

        if c: A; continue          becomes          if c: A
        REST                                         else: REST

    (`continue` as the last statement of an iteration is a no-op, so both are the same program).
    Returns a transformed deep copy; the original tree is not touched."""
    fnode = copy.deepcopy(fnode)

    def fix_tail(stmts):
        stmts = list(stmts)
        while stmts and isinstance(stmts[-1], ast.Continue):
            stmts.pop()
        for i, st in enumerate(stmts):
            if isinstance(st, ast.If) and not st.orelse and st.body and isinstance(st.body[-1], ast.Continue):
                rest = fix_tail(stmts[i + 1:])
                body = st.body[:-1]
                if not body:
                    body = [ast.copy_location(ast.Pass(), st)]
                new_if = ast.copy_location(ast.If(test=st.test, body=body, orelse=rest), st)
                return stmts[:i] + [new_if]
        if stmts and isinstance(stmts[-1], ast.If):
            last = stmts[-1]
            last.body = fix_tail(last.body) or [ast.copy_location(ast.Pass(), last)]
            last.orelse = fix_tail(last.orelse)
        return stmts

    for n in ast.walk(fnode):
        if isinstance(n, (ast.For, ast.While)):
            n.body = fix_tail(n.body) or [ast.copy_location(ast.Pass(), n)]
    ast.fix_missing_locations(fnode)
    return fnode


def inline_statement_calls(p, fi, fnode=None, depth=2):
    """Normal form for extracted procedures: a statement `helper(a, b)` / `self._helper(a)` /
    `Cls._helper(self, a)` whose callee is a project function that returns nothing, binds no local
    that clashes with the caller and whose arguments are side-effect-free expressions is replaced
    by the callee's body with the parameters substituted (beta reduction).  Returns a transformed
    deep copy of fnode (default: fi.node)."""
    fnode = copy.deepcopy(fnode if fnode is not None else fi.node)

    def simple(e):
        return isinstance(e, (ast.Name, ast.Constant)) or (isinstance(e, ast.Attribute) and simple(e.value)) \
            or (isinstance(e, ast.Subscript) and simple(e.value) and simple(e.slice))

    def resolve(call):
        f = call.func
        if isinstance(f, ast.Name):
            r = p.resolve_name(fi.module, f.id)
            if r and r[0] == "func":
                return r[1], None
        if isinstance(f, ast.Attribute) and isinstance(f.value, ast.Name) and f.value.id == "self" and fi.cls is not None:
            try:
                m = p.find_method(fi.cls, f.attr)
            except ValueError:
                m = None
            if m is not None:
                return m, ast.Name(id="self", ctx=ast.Load())
        return None, None

    def try_inline(st, caller_names):
        if not (isinstance(st, ast.Expr) and isinstance(st.value, ast.Call)):
            return None
        call = st.value
        callee, selfarg = resolve(call)
        if callee is None or callee.node is fi.node:
            return None
        cn = callee.node
        if any(isinstance(x, (ast.Return, ast.Yield, ast.YieldFrom, ast.FunctionDef, ast.Lambda, ast.Global, ast.Nonlocal))
               for b in cn.body for x in ast.walk(b)):
            return None
        if cn.args.vararg or cn.args.kwarg or any(isinstance(a, ast.Starred) for a in call.args) \
                or any(k.arg is None for k in call.keywords):
            return None
        if any(d.id in ("staticmethod", "classmethod", "property") for d in cn.decorator_list if isinstance(d, ast.Name)) \
                and selfarg is not None:
            selfarg = None if any(isinstance(d, ast.Name) and d.id == "staticmethod" for d in cn.decorator_list) else selfarg
        params = [a.arg for a in cn.args.posonlyargs + cn.args.args]
        args = ([selfarg] if selfarg is not None else []) + list(call.args)
        if len(args) > len(params):
            return None
        bind = dict(zip(params, args))
        for k in call.keywords:
            if k.arg not in params or k.arg in bind:
                return None
            bind[k.arg] = k.value
        defaults = callee.defaults()
        for prm in params + [a.arg for a in cn.args.kwonlyargs]:
            if prm not in bind:
                if prm in defaults and isinstance(defaults[prm], ast.Constant):
                    bind[prm] = defaults[prm]
                else:
                    return None
        if not all(simple(v) for v in bind.values()):
            return None
        stored = {x.id for b in cn.body for x in ast.walk(b) if isinstance(x, ast.Name) and isinstance(x.ctx, ast.Store)}
        if stored & (set(params) | caller_names):
            return None

        class Sub(ast.NodeTransformer):
            def visit_Name(self, n):
                if n.id in bind and isinstance(n.ctx, ast.Load):
                    return ast.copy_location(copy.deepcopy(bind[n.id]), n)
                return n
        body = [b for b in cn.body if not (isinstance(b, ast.Expr) and isinstance(b.value, ast.Constant))]
        out = []
        for b in body:
            nb = Sub().visit(copy.deepcopy(b))
            for x in ast.walk(nb):
                if hasattr(x, "lineno"):
                    x.lineno = st.lineno
                    x.end_lineno = getattr(st, "end_lineno", st.lineno)
            out.append(nb)
        return out or [ast.copy_location(ast.Pass(), st)]

    for _ in range(depth):
        changed = False
        caller_names = {x.id for x in ast.walk(fnode) if isinstance(x, ast.Name)} | {a.arg for a in fnode.args.args}
        for n in ast.walk(fnode):
            for field in ("body", "orelse", "finalbody"):
                blk = getattr(n, field, None)
                if not isinstance(blk, list) or not blk or not isinstance(blk[0], ast.stmt):
                    continue
                new = []
                for st in blk:
                    rep = try_inline(st, caller_names)
                    if rep is None:
                        new.append(st)
                    else:
                        new.extend(rep)
                        changed = True
                setattr(n, field, new)
        if not changed:
            break
    ast.fix_missing_locations(fnode)
    return fnode


def fold_const_getattr(fnode):
    """`getattr(x, "name")` with a literal name is the attribute `x.name` (deep copy returned)."""
    fnode = copy.deepcopy(fnode)

    class G(ast.NodeTransformer):
        def visit_Call(self, n):
            self.generic_visit(n)
            if isinstance(n.func, ast.Name) and n.func.id == "getattr" and len(n.args) == 2 and not n.keywords \
                    and isinstance(n.args[1], ast.Constant) and isinstance(n.args[1].value, str) \
                    and n.args[1].value.isidentifier():
                return ast.copy_location(ast.Attribute(value=n.args[0], attr=n.args[1].value, ctx=ast.Load()), n)
            return n
    fnode = G().visit(fnode)
    ast.fix_missing_locations(fnode)
    return fnode


def expand_delegation(p, fi, depth=2):
    """If the body of `fi` (docstring aside) is `return g(args...)` with g a
    project function, return a FunctionDef with fi's signature and g's body
    in which g's parameters are replaced by the argument expressions
    (beta reduction), repeated up to `depth` times; otherwise fi.node.
    'De-duplicate two siblings into one private helper' then leaves the
    structural rules looking at the same code."""
    import copy
    node = fi.node
    mod = fi.module
    for _ in range(depth):
        body = [s for s in node.body if not (isinstance(s, ast.Expr) and isinstance(s.value, ast.Constant)
                                             and isinstance(s.value.value, str))]
        if len(body) != 1 or not isinstance(body[0], ast.Return) or not isinstance(body[0].value, ast.Call):
            break
        call = body[0].value
        if not isinstance(call.func, (ast.Name, ast.Attribute)):
            break
        g = None
        is_self_method = False
        if isinstance(call.func, ast.Attribute) and isinstance(call.func.value, ast.Name) and call.func.value.id == "self" \
                and getattr(fi, "cls", None) is not None:
            ci_ = p.classes.get(fi.cls) if isinstance(fi.cls, str) else fi.cls
            g = p.find_method(ci_, call.func.attr) if ci_ is not None else None
            is_self_method = g is not None
        if g is None:
            r = p.resolve_expr(mod, call.func)
            if r is None or r[0] != "func":
                break
            g = r[1]
        gparams = [a.arg for a in g.node.args.posonlyargs + g.node.args.args]
        if is_self_method and gparams and gparams[0] == "self":
            gparams = gparams[1:]
        bind = {}
        ok = True
        for i, a in enumerate(call.args):
            if isinstance(a, ast.Starred) or i >= len(gparams):
                ok = False
                break
            bind[gparams[i]] = a
        for k in call.keywords:
            if k.arg is None:
                if g.node.args.kwarg is not None and isinstance(k.value, ast.Name):
                    bind[g.node.args.kwarg.arg] = k.value
                else:
                    ok = False
            else:
                bind[k.arg] = k.value
        if not ok:
            break
        gbody = copy.deepcopy(g.node.body)
        stored = {n.id for st in gbody for n in ast.walk(st) if isinstance(n, ast.Name) and isinstance(n.ctx, ast.Store)}
        pre = []
        rename, subst, lambdas = {}, {}, {}
        for pn, a in bind.items():
            if isinstance(a, ast.Name):
                rename[pn] = a.id
            elif pn not in stored and isinstance(a, ast.Lambda) and not a.args.defaults and not a.args.kwonlyargs:
                lambdas[pn] = a
            elif pn not in stored and isinstance(a, (ast.Attribute, ast.Constant)):
                subst[pn] = a
            else:
                pre.append(ast.copy_location(ast.Assign(targets=[ast.Name(id=pn, ctx=ast.Store())], value=copy.deepcopy(a)), call))
        # defaults of parameters that were not passed
        defaults = g.node.args.defaults
        named = g.node.args.args
        for a, dflt in zip(named[len(named) - len(defaults):], defaults):
            if a.arg not in bind:
                subst[a.arg] = dflt if a.arg not in stored else None
                if subst[a.arg] is None:
                    del subst[a.arg]
                    pre.append(ast.copy_location(ast.Assign(targets=[ast.Name(id=a.arg, ctx=ast.Store())], value=copy.deepcopy(dflt)), call))

        class S(ast.NodeTransformer):
            def visit_Call(self, n):
                self.generic_visit(n)
                # a lambda handed to the helper is applied where the helper calls it
                if isinstance(n.func, ast.Name) and n.func.id in lambdas and not n.keywords \
                        and len(n.args) == len(lambdas[n.func.id].args.args):
                    lam = lambdas[n.func.id]
                    m_ = {pa.arg: av for pa, av in zip(lam.args.args, n.args)}

                    class L(ast.NodeTransformer):
                        def visit_Name(self, x):
                            if x.id in m_ and isinstance(x.ctx, ast.Load):
                                return copy.deepcopy(m_[x.id])
                            return x
                    return L().visit(copy.deepcopy(lam.body))
                return n

            def visit_Name(self, n):
                if n.id in rename:
                    n.id = rename[n.id]
                    return n
                if n.id in subst and isinstance(n.ctx, ast.Load):
                    return copy.deepcopy(subst[n.id])
                return n
        new = copy.deepcopy(node)
        new.body = [ast.fix_missing_locations(x) for x in pre] + [S().visit(st) for st in gbody]
        node = new
        mod = g.module
    return node
