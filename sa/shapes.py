"""Tiny shape-kind inference for the one broadcast mistake that matters for per-row
quantities: a reduction along axis 1 of a (rows x k) matrix is a vector over ROWS;
recombining it elementwise with a (rows x k) matrix needs the reduced axis kept
(keepdims / [:, None] / reshape(-1, 1)), otherwise numpy aligns it with the COLUMNS."""
import ast

MAT_METHODS = {"predict_proba", "predict_freq", "predict_annotator_perf"}
REDUCERS = {"sum", "max", "min", "mean", "prod", "nansum", "nanmax", "nanmin", "nanmean"}


def _axis1(call):
    for k in call.keywords:
        if k.arg == "axis":
            v = k.value
            if isinstance(v, ast.UnaryOp) and isinstance(v.op, ast.USub) and isinstance(v.operand, ast.Constant):
                return v.operand.value == 1
            return isinstance(v, ast.Constant) and v.value == 1
    return False


def _keepdims(call):
    return any(k.arg == "keepdims" and isinstance(k.value, ast.Constant) and k.value.value is True for k in call.keywords)


class Kinds:
    def __init__(self, fnode):
        self.fnode = fnode
        self.defs = {}
        for n in ast.walk(fnode):
            if isinstance(n, ast.Assign) and len(n.targets) == 1 and isinstance(n.targets[0], ast.Name):
                self.defs.setdefault(n.targets[0].id, []).append(n.value)
            elif isinstance(n, (ast.AugAssign, ast.For, ast.With, ast.AnnAssign)):
                tg = getattr(n, "target", None)
                if tg is not None:
                    for x in ast.walk(tg):
                        if isinstance(x, ast.Name):
                            self.defs.setdefault(x.id, []).extend([None, None])

    def kind(self, e, depth=0):
        if depth > 6 or e is None:
            return None
        if isinstance(e, ast.Name):
            d = self.defs.get(e.id, [])
            return self.kind(d[0], depth + 1) if len(d) == 1 else None
        if isinstance(e, ast.Call):
            f = e.func
            if isinstance(f, ast.Attribute) and f.attr in MAT_METHODS:
                return "MAT"
            red_on = None
            if isinstance(f, ast.Attribute) and f.attr in REDUCERS:
                if isinstance(f.value, ast.Name) and f.value.id in ("np", "numpy"):
                    red_on = e.args[0] if e.args else None
                else:
                    red_on = f.value
            if red_on is not None and _axis1(e) and self.kind(red_on, depth + 1) == "MAT":
                return "COL" if _keepdims(e) else "ROWVEC"
            if red_on is not None and not any(k.arg == "axis" for k in e.keywords) and len(e.args) <= (
                    1 if isinstance(f.value, ast.Name) and f.value.id in ("np", "numpy") else 0) \
                    and self.kind(red_on, depth + 1) == "MAT":
                return "TOTAL"      # one number over ALL rows of the matrix
            if isinstance(f, ast.Attribute) and f.attr == "reshape" and self.kind(f.value, depth + 1) == "ROWVEC" \
                    and [ast.unparse(a).replace(" ", "") for a in e.args] in (["-1", "1"], ["(-1,1)"]):
                return "COL"
            return None
        if isinstance(e, ast.Subscript) and isinstance(e.slice, ast.Tuple) and len(e.slice.elts) == 2:
            a, b = e.slice.elts
            full = isinstance(a, ast.Slice) and a.lower is None and a.upper is None
            newax = (isinstance(b, ast.Constant) and b.value is None) or ast.unparse(b) in ("np.newaxis", "numpy.newaxis")
            if full and newax and self.kind(e.value, depth + 1) == "ROWVEC":
                return "COL"
            return None
        if isinstance(e, ast.BinOp):
            l, r = self.kind(e.left, depth + 1), self.kind(e.right, depth + 1)
            if "MAT" in (l, r) and (l in ("MAT", "COL") and r in ("MAT", "COL")):
                return "MAT"
            if l == r and l is not None:
                return l
            return None
        return None

    def mismatches(self):
        """BinOps combining a vector over rows with a rows x k matrix."""
        out, ok = [], []
        for n in ast.walk(self.fnode):
            if isinstance(n, ast.BinOp) and isinstance(n.op, (ast.Mult, ast.Div, ast.Add, ast.Sub)):
                l, r = self.kind(n.left), self.kind(n.right)
                if {l, r} == {"ROWVEC", "MAT"} or {l, r} == {"TOTAL", "MAT"}:
                    out.append(n)
                elif {l, r} == {"COL", "MAT"}:
                    ok.append(n)
        return out, ok
