"""Raw-value flow: does the value of a parameter reach a sink through
value-preserving operations only (validation, casts, views, repeats) on some
path?  Any arithmetic / unknown call / fresh array counts as a transformation
(the numeric correctness of that transformation is NOT decided)."""
import ast

from .paths import MustAnalysis, describe

PRESERVING = {"check_array", "asarray", "array", "astype", "copy", "repeat", "reshape", "ravel", "flatten", "squeeze",
              "column_or_1d", "ascontiguousarray", "atleast_1d", "atleast_2d", "tile", "broadcast_to", "expand_dims",
              "float64", "deepcopy", "transpose", "take"}


def chain_base(e):
    """Name at the bottom of a chain of value-preserving operations, else None."""
    while True:
        if isinstance(e, ast.Name):
            return e.id
        if isinstance(e, ast.Subscript):
            e = e.value
            continue
        if isinstance(e, ast.Attribute) and e.attr == "T":
            e = e.value
            continue
        if isinstance(e, ast.Call):
            f = e.func
            name = f.attr if isinstance(f, ast.Attribute) else (f.id if isinstance(f, ast.Name) else None)
            if name not in PRESERVING:
                return None
            if isinstance(f, ast.Attribute) and not (isinstance(f.value, ast.Name) and f.value.id in ("np", "numpy", "copy")):
                e = f.value
                continue
            if e.args:
                e = e.args[0]
                continue
            return None
        return None


class RawFlow(MustAnalysis):
    """token 's:<name>': <name> definitely does not hold the raw value."""

    def __init__(self, fnode, raw_param, is_sink):
        super().__init__(fnode)
        self.raw = raw_param
        self.is_sink = is_sink      # call node -> list of argument expressions that are sinks
        self.related = {raw_param}
        changed = True
        while changed:
            changed = False
            for n in ast.walk(fnode):
                if isinstance(n, ast.Assign) and len(n.targets) == 1 and isinstance(n.targets[0], ast.Name):
                    b = chain_base(n.value)
                    if b in self.related and n.targets[0].id not in self.related:
                        self.related.add(n.targets[0].id)
                        changed = True
        self.hits = []
        self.sinks = 0

    def transfer(self, stmt, tokens):
        if isinstance(stmt, ast.Assign) and len(stmt.targets) == 1 and isinstance(stmt.targets[0], ast.Name) \
                and stmt.targets[0].id in self.related:
            x = stmt.targets[0].id
            b = chain_base(stmt.value)
            tk = set(tokens)
            tk.discard(f"s:{x}")
            if b is None or b not in self.related or f"s:{b}" in tokens:
                tk.add(f"s:{x}")
            return tk
        return None

    def use(self, expr, state, stmt):
        for n in ast.walk(expr):
            if isinstance(n, ast.Call):
                for a in self.is_sink(n):
                    self.sinks += 1
                    b = chain_base(a)
                    if b in self.related and f"s:{b}" not in state.tokens:
                        self.hits.append((n, a, describe(state.facts)))
