"""E3 - intraprocedural path-sensitive *must* analysis on the statement tree.

State = a set of disjuncts (facts, tokens):
  facts  - what is known about side-effect-free predicates on this path
           (branch correlation: `if m is None: .. if m is not None: ..`),
           with a small value-set domain for `x == c`, `x in [c..]`,
           `x is None`;
  tokens - things that have definitely happened on this path (names bound,
           attributes stored, "appended once", ...), supplied by the client.

Loops are handled by fixpoint iteration; exceptions only through explicit
raise / try.  Used for definite assignment (R1.7, R7.1), must-write (R17.1),
must-append (R10.1), self-attribute definite assignment (R13.2, R15.4).
"""
import ast

MAX_DISJUNCTS = 96


class Facts:
    """Immutable-ish mapping of predicate knowledge."""
    __slots__ = ("b", "allowed", "excluded")

    def __init__(self, b=None, allowed=None, excluded=None):
        self.b = b or {}            # atom key -> bool
        self.allowed = allowed or {}    # expr key -> frozenset(consts)
        self.excluded = excluded or {}  # expr key -> frozenset(consts)

    def copy(self):
        return Facts(dict(self.b), dict(self.allowed), dict(self.excluded))

    def key(self):
        return (tuple(sorted(self.b.items())),
                tuple(sorted((k, tuple(sorted(map(repr, v)))) for k, v in self.allowed.items())),
                tuple(sorted((k, tuple(sorted(map(repr, v)))) for k, v in self.excluded.items())))

    def kill(self, names):
        """Forget everything mentioning one of `names` (dotted prefixes)."""
        if not names:
            return

        def hit(k):
            for n in names:
                if _mentions(k, n):
                    return True
            return False
        for d in (self.b, self.allowed, self.excluded):
            for k in [k for k in d if hit(k)]:
                del d[k]


def _mentions(key, name):
    # keys are unparsed expressions; word-boundary match on the name
    import re
    return re.search(r"(?<![\w.])" + re.escape(name) + r"(?![\w])", key) is not None


class Const:
    """Hashable wrapper distinguishing 1 / True / 1.0 and None."""
    __slots__ = ("v",)

    def __init__(self, v):
        self.v = v

    def __eq__(self, o):
        return isinstance(o, Const) and type(self.v) is type(o.v) and self.v == o.v

    def __hash__(self):
        return hash((type(self.v).__name__, self.v))

    def __repr__(self):
        return f"C({self.v!r})"


def _const_of(e):
    if isinstance(e, ast.Constant) and isinstance(e.value, (str, int, float, bool, type(None))):
        return Const(e.value)
    if isinstance(e, ast.UnaryOp) and isinstance(e.op, ast.USub) and isinstance(e.operand, ast.Constant) \
            and isinstance(e.operand.value, (int, float)):
        return Const(-e.operand.value)
    return None


NDIM_12 = {"candidates", "annotators"}


def _pure(e):
    """Side-effect-free expression usable as a predicate key."""
    for n in ast.walk(e):
        if isinstance(n, ast.Call):
            f = n.func
            ok = isinstance(f, ast.Name) and f.id in ("isinstance", "hasattr", "len", "callable", "type", "issubclass")
            ok = ok or (isinstance(f, ast.Attribute) and f.attr in ("isnan", "isscalar", "ndim", "any", "all")
                        and False)
            if not ok:
                return False
        if isinstance(n, (ast.Lambda, ast.NamedExpr, ast.Await, ast.Yield, ast.YieldFrom)):
            return False
    return True


def eval_test(test, facts):
    """Truth of `test` under `facts`: True / False / None."""
    if isinstance(test, ast.Constant):
        return bool(test.value)
    if isinstance(test, (ast.Name, ast.Attribute)) and _pure(test):
        k = ast.unparse(test)
        al = facts.allowed.get(k)
        if al:
            tv = {bool(c.v) for c in al}
            if len(tv) == 1:
                return tv.pop()
    if isinstance(test, ast.UnaryOp) and isinstance(test.op, ast.Not):
        r = eval_test(test.operand, facts)
        return None if r is None else (not r)
    if isinstance(test, ast.BoolOp):
        vals = [eval_test(v, facts) for v in test.values]
        if isinstance(test.op, ast.And):
            if any(v is False for v in vals):
                return False
            if all(v is True for v in vals):
                return True
            return None
        if any(v is True for v in vals):
            return True
        if all(v is False for v in vals):
            return False
        return None
    if isinstance(test, ast.Compare) and len(test.ops) == 1:
        op = test.ops[0]
        l, r = test.left, test.comparators[0]
        lk = ast.unparse(l)
        c = _const_of(r)
        neg = isinstance(op, (ast.NotEq, ast.IsNot, ast.NotIn))
        if isinstance(op, (ast.Eq, ast.NotEq, ast.Is, ast.IsNot)) and c is not None and _pure(l):
            res = None
            if lk in facts.allowed:
                al = facts.allowed[lk]
                if c not in al:
                    res = False
                elif len(al) == 1:
                    res = True
            if res is None and c in facts.excluded.get(lk, ()):
                res = False
            if res is not None:
                return (not res) if neg else res
        if isinstance(op, (ast.In, ast.NotIn)) and isinstance(r, (ast.List, ast.Tuple, ast.Set)) and _pure(l):
            cs = [_const_of(x) for x in r.elts]
            if all(x is not None for x in cs):
                res = None
                if lk in facts.allowed:
                    al = facts.allowed[lk]
                    if al <= set(cs):
                        res = True
                    elif not (al & set(cs)):
                        res = False
                if res is None and set(cs) <= set(facts.excluded.get(lk, ())):
                    res = False
                if res is not None:
                    return (not res) if neg else res
        if isinstance(op, (ast.Gt, ast.GtE, ast.Lt, ast.LtE)) and c is not None and _pure(l) \
                and lk in facts.allowed and facts.allowed[lk]:
            import operator
            fn = {ast.Gt: operator.gt, ast.GtE: operator.ge, ast.Lt: operator.lt, ast.LtE: operator.le}[type(op)]
            try:
                vals = {bool(fn(a.v, c.v)) for a in facts.allowed[lk]}
                if len(vals) == 1:
                    return vals.pop()
            except TypeError:
                pass
    if _pure(test):
        k = ast.unparse(test)
        if k in facts.b:
            return facts.b[k]
        # canonical negations
        if isinstance(test, ast.Compare) and len(test.ops) == 1:
            inv = {ast.IsNot: ast.Is, ast.NotEq: ast.Eq, ast.NotIn: ast.In,
                   ast.Is: ast.IsNot, ast.Eq: ast.NotEq, ast.In: ast.NotIn}
            t = type(test.ops[0])
            if t in inv:
                alt = ast.Compare(left=test.left, ops=[inv[t]()], comparators=test.comparators)
                ak = ast.unparse(alt)
                if ak in facts.b:
                    return not facts.b[ak]
    return None


def assume(test, pol, facts):
    """Return a copy of facts refined by `test == pol`, or None if
    infeasible."""
    cur = eval_test(test, facts)
    if cur is not None and cur != pol:
        return None
    f = facts.copy()
    _assume_into(test, pol, f)
    # infeasible value set?
    for k, al in f.allowed.items():
        if not al:
            return None
    return f


def _assume_into(test, pol, f):
    if isinstance(test, ast.UnaryOp) and isinstance(test.op, ast.Not):
        _assume_into(test.operand, not pol, f)
        return
    if isinstance(test, ast.BoolOp):
        if (isinstance(test.op, ast.And) and pol) or (isinstance(test.op, ast.Or) and not pol):
            for v in test.values:
                _assume_into(v, pol, f)
            return
        # disjunction known true / conjunction known false: if all but one
        # operand are decided the other way, the remaining one is forced
        und = []
        for v in test.values:
            r = eval_test(v, f)
            if r is None:
                und.append(v)
            elif r == pol:
                und = None
                break
        if und is not None and len(und) == 1:
            _assume_into(und[0], pol, f)
        if _pure(test):
            f.b[ast.unparse(test)] = pol
        return
    if isinstance(test, ast.Compare) and len(test.ops) == 1:
        op = test.ops[0]
        l, r = test.left, test.comparators[0]
        # repository invariant (established by the base-class validators): the `candidates` / `annotators`
        # arrays whose .ndim is tested are 1-d or 2-d; a test on it therefore fixes a value set
        if isinstance(l, ast.Attribute) and l.attr == "ndim" and isinstance(l.value, ast.Name) and l.value.id in NDIM_12 \
                and isinstance(op, (ast.Eq, ast.NotEq, ast.Gt, ast.GtE, ast.Lt, ast.LtE)):
            c = _const_of(r)
            if c is not None and isinstance(c.v, int):
                import operator
                fn = {ast.Eq: operator.eq, ast.NotEq: operator.ne, ast.Gt: operator.gt, ast.GtE: operator.ge,
                      ast.Lt: operator.lt, ast.LtE: operator.le}[type(op)]
                sat = frozenset(Const(d) for d in (1, 2) if fn(d, c.v) == pol)
                lk = ast.unparse(l)
                al = f.allowed.get(lk)
                f.allowed[lk] = sat if al is None else (al & sat)
                return
        if _pure(l):
            lk = ast.unparse(l)
            c = _const_of(r)
            neg = isinstance(op, (ast.NotEq, ast.IsNot, ast.NotIn))
            truth = (not pol) if neg else pol
            if isinstance(op, (ast.Eq, ast.NotEq, ast.Is, ast.IsNot)) and c is not None:
                if truth:
                    al = f.allowed.get(lk)
                    f.allowed[lk] = frozenset([c]) if al is None else (al & {c})
                else:
                    f.excluded[lk] = frozenset(f.excluded.get(lk, frozenset()) | {c})
                    if lk in f.allowed:
                        f.allowed[lk] = f.allowed[lk] - {c}
                return
            if isinstance(op, (ast.In, ast.NotIn)) and isinstance(r, (ast.List, ast.Tuple, ast.Set)):
                cs = [_const_of(x) for x in r.elts]
                if all(x is not None for x in cs):
                    if truth:
                        al = f.allowed.get(lk)
                        f.allowed[lk] = frozenset(cs) if al is None else (al & set(cs))
                    else:
                        f.excluded[lk] = frozenset(f.excluded.get(lk, frozenset()) | set(cs))
                        if lk in f.allowed:
                            f.allowed[lk] = f.allowed[lk] - set(cs)
                    return
    if _pure(test):
        f.b[ast.unparse(test)] = pol


class St:
    __slots__ = ("facts", "tokens")

    def __init__(self, facts, tokens):
        self.facts = facts
        self.tokens = tokens

    def key(self):
        return self.facts.key()


def merge(states):
    """Merge disjuncts with identical facts (intersection of tokens); cap the
    number of disjuncts by dropping facts."""
    by = {}
    for s in states:
        k = s.key()
        if k in by:
            by[k] = St(by[k].facts, by[k].tokens & s.tokens)
        else:
            by[k] = s
    out = list(by.values())
    if len(out) > MAX_DISJUNCTS:
        # widen: forget all facts
        tok = None
        for s in out:
            tok = s.tokens if tok is None else (tok & s.tokens)
        out = [St(Facts(), tok)]
    return out


def states_sig(states):
    return sorted((s.key(), tuple(sorted(map(str, s.tokens)))) for s in states)


def assigned_names(node):
    """Dotted names (re)bound or mutated by a statement (for killing facts)."""
    out = set()
    for n in ast.walk(node):
        if isinstance(n, (ast.Name, ast.Attribute)) and isinstance(getattr(n, "ctx", None), (ast.Store, ast.Del)):
            try:
                out.add(ast.unparse(n))
            except Exception:
                pass
        elif isinstance(n, ast.Subscript) and isinstance(n.ctx, (ast.Store, ast.Del)):
            try:
                out.add(ast.unparse(n.value))
            except Exception:
                pass
        elif isinstance(n, ast.AugAssign):
            try:
                out.add(ast.unparse(n.target))
            except Exception:
                pass
    return out


class MustAnalysis:
    """Override `gen(stmt)` -> iterable of tokens generated by a *simple*
    statement (also called for loop headers / with items via pseudo nodes),
    `kill_tokens(stmt)` -> tokens removed, and `use(node, state, where)`
    which is called for every expression evaluated, with the current
    disjunct."""

    def __init__(self, fnode, init_tokens=()):
        self.fnode = fnode
        self.init_tokens = frozenset(init_tokens)
        self.returns = []  # (node or None, [states])
        self.loop_stack = []

    # --- client hooks
    def gen(self, stmt):
        return ()

    def kill_tokens(self, stmt):
        return ()

    def use(self, expr, state, stmt):
        pass

    def loop_iter_kill(self, loop):
        """Tokens forgotten at the start of every iteration of `loop`."""
        return ()

    def loop_iter_gen(self, loop):
        """Tokens that hold at the start of every iteration of `loop`."""
        return ()

    def on_loop_body_exit(self, loop, states_in, states_out):
        """Called with the states at loop-body entry and normal exit of one
        abstract iteration (after fixpoint)."""
        pass

    # --- driver
    def run(self):
        st = [St(Facts(), self.init_tokens)]
        out = self.block(self.fnode.body, st)
        if out:
            self.returns.append((None, out))
        return self

    def block(self, stmts, states):
        for s in stmts:
            if not states:
                return []
            states = self.stmt(s, states)
        return states

    def _uses(self, expr, states, stmt):
        if expr is None:
            return
        for s in states:
            self.use(expr, s, stmt)

    def transfer(self, stmt, tokens):
        """Optional state-dependent transfer (default: gen/kill)."""
        return None

    def _apply(self, stmt, states, pseudo=None):
        node = pseudo if pseudo is not None else stmt
        g = frozenset(self.gen(node))
        k = frozenset(self.kill_tokens(node))
        names = assigned_names(node)
        out = []
        for s in states:
            f = s.facts
            if names:
                f = f.copy()
                f.kill(names)
            t = self.transfer(node, s.tokens)
            if t is None:
                t = (s.tokens - k) | g
            # constant propagation into the fact domain: x = <literal>
            if pseudo is None and isinstance(node, ast.Assign) and len(node.targets) == 1 \
                    and isinstance(node.targets[0], ast.Name):
                c = _const_of(node.value)
                if c is not None:
                    if f is s.facts:
                        f = f.copy()
                    f.allowed[node.targets[0].id] = frozenset([c])
            out.append(St(f, frozenset(t)))
        return merge(out)

    def stmt(self, s, states):
        if isinstance(s, (ast.FunctionDef, ast.AsyncFunctionDef, ast.ClassDef)):
            return self._apply(s, states, pseudo=ast.Assign(
                targets=[ast.Name(id=s.name, ctx=ast.Store())], value=ast.Constant(value=None)))
        if isinstance(s, ast.If):
            self._uses(s.test, states, s)
            res = []
            for st in states:
                ft = assume(s.test, True, st.facts)
                if ft is not None:
                    res += self.block(s.body, [St(ft, st.tokens)])
                ff = assume(s.test, False, st.facts)
                if ff is not None:
                    res += self.block(s.orelse, [St(ff, st.tokens)])
            return merge(res)
        if isinstance(s, (ast.For, ast.AsyncFor)):
            self._uses(s.iter, states, s)
            first = None
            it = s.iter
            if isinstance(s.target, ast.Name) and isinstance(it, ast.Call) and isinstance(it.func, ast.Name) \
                    and it.func.id == "range" and not it.keywords and (
                        len(it.args) == 1 or (len(it.args) == 2 and isinstance(it.args[0], ast.Constant)
                                              and it.args[0].value == 0)):
                # `for i in range(n)`: the first iteration runs with i == 0 (same knowledge as `i = 0; while i < n`)
                first = ast.copy_location(ast.Assign(targets=[ast.Name(id=s.target.id, ctx=ast.Store())],
                                                     value=ast.Constant(value=0)), s)
                ast.fix_missing_locations(first)
            return self._loop(s, states, header=ast.Assign(targets=[s.target], value=ast.Constant(value=None)),
                              test=None, first_header=first)
        if isinstance(s, ast.While):
            return self._loop(s, states, header=None, test=s.test)
        if isinstance(s, (ast.With, ast.AsyncWith)):
            for item in s.items:
                self._uses(item.context_expr, states, s)
                if item.optional_vars is not None:
                    states = self._apply(s, states, pseudo=ast.Assign(
                        targets=[item.optional_vars], value=ast.Constant(value=None)))
            return self.block(s.body, states)
        if isinstance(s, ast.Try):
            pre = states
            body_out = self.block(s.body, states)
            res = []
            if body_out:
                res += self.block(s.orelse, body_out) if s.orelse else body_out
            # handler entry: anything may have happened in the body -> only
            # what was certain before the try
            for h in s.handlers:
                hs = pre
                if h.type is not None:
                    self._uses(h.type, hs, s)
                if h.name:
                    hs = self._apply(s, hs, pseudo=ast.Assign(
                        targets=[ast.Name(id=h.name, ctx=ast.Store())], value=ast.Constant(value=None)))
                ho = self.block(h.body, hs)
                res += ho
            res = merge(res)
            if s.finalbody:
                res = self.block(s.finalbody, res)
            return res
        if isinstance(s, ast.Return):
            self._uses(s.value, states, s)
            self.returns.append((s, states))
            return []
        if isinstance(s, ast.Raise):
            self._uses(s.exc, states, s)
            return []
        if isinstance(s, ast.Break):
            if self.loop_stack:
                self.loop_stack[-1]["breaks"] += states
            return []
        if isinstance(s, ast.Continue):
            if self.loop_stack:
                self.loop_stack[-1]["continues"] += states
            return []
        if isinstance(s, ast.Assert):
            self._uses(s.test, states, s)
            out = []
            for st in states:
                f = assume(s.test, True, st.facts)
                if f is not None:
                    out.append(St(f, st.tokens))
            return out
        if isinstance(s, ast.Match):
            self._uses(s.subject, states, s)
            res = []
            for c in s.cases:
                res += self.block(c.body, states)
            return merge(res + states)
        # simple statements
        for e in self._exprs_of(s):
            self._uses(e, states, s)
        return self._apply(s, states)

    def _exprs_of(self, s):
        if isinstance(s, ast.Assign):
            # value first, then subscript/attribute target bases
            yield s.value
            for t in s.targets:
                yield from self._target_uses(t)
        elif isinstance(s, ast.AugAssign):
            yield s.value
            yield _load_copy(s.target)
        elif isinstance(s, ast.AnnAssign):
            if s.value is not None:
                yield s.value
            yield from self._target_uses(s.target)
        elif isinstance(s, ast.Expr):
            yield s.value
        elif isinstance(s, ast.Delete):
            for t in s.targets:
                yield _load_copy(t)
        elif isinstance(s, (ast.Import, ast.ImportFrom, ast.Pass, ast.Global, ast.Nonlocal)):
            return
        else:
            for ch in ast.iter_child_nodes(s):
                if isinstance(ch, ast.expr):
                    yield ch

    def _target_uses(self, t):
        if isinstance(t, (ast.Tuple, ast.List)):
            for e in t.elts:
                yield from self._target_uses(e)
        elif isinstance(t, ast.Starred):
            yield from self._target_uses(t.value)
        elif isinstance(t, ast.Subscript):
            yield t.value
            yield t.slice
        elif isinstance(t, ast.Attribute):
            yield t.value

    def _loop(self, s, states, header, test, first_header=None):
        ctx = {"breaks": [], "continues": []}
        self.loop_stack.append(ctx)
        pre = states
        head = pre
        back = []
        body_in = None
        body_out = []
        for _ in range(12):
            ctx["breaks"] = []
            ctx["continues"] = []
            cur = head
            if test is not None:
                self._uses(test, cur, s)
                nxt = []
                for st in cur:
                    f = assume(test, True, st.facts)
                    if f is not None:
                        nxt.append(St(f, st.tokens))
                cur = nxt
            if header is not None and first_header is not None:
                # entry from before the loop: counter == 0;  entry over the back edge: unknown counter
                cur = merge(self._apply(first_header, list(pre), pseudo=None)
                            + (self._apply(s, list(back), pseudo=header) if back else []))
            elif header is not None:
                cur = self._apply(s, cur, pseudo=header)
            lk = frozenset(self.loop_iter_kill(s))
            lg = frozenset(self.loop_iter_gen(s))
            if lk or lg:
                cur = merge([St(x.facts, (x.tokens - lk) | lg) for x in cur])
            body_in = cur
            body_out = self.block(s.body, cur)
            back = merge(body_out + ctx["continues"])
            new_head = merge(pre + body_out + ctx["continues"])
            if states_sig(new_head) == states_sig(head):
                head = new_head
                break
            head = new_head
        self.loop_stack.pop()
        self.on_loop_body_exit(s, body_in or [], merge(body_out + ctx["continues"]))
        # exit: condition false (while) / exhausted (for) from head
        ex = []
        if test is not None:
            for st in head:
                f = assume(test, False, st.facts)
                if f is not None:
                    ex.append(St(f, st.tokens))
        else:
            ex = list(head)
        if s.orelse:
            ex = self.block(s.orelse, ex)
        out = ex + ctx["breaks"]
        if first_header is not None:
            # what the counter was in some iteration is of no use after the loop: forget its value facts
            # (keeps the number of disjuncts down; whether the name is bound is tracked by tokens, not facts)
            nm = first_header.targets[0].id
            cleaned = []
            for st in out:
                f = st.facts.copy()
                f.kill([nm])
                cleaned.append(St(f, st.tokens))
            out = cleaned
        return merge(out)


def _load_copy(t):
    """A Load-context copy of a target expression (for use checks)."""
    class Tr(ast.NodeTransformer):
        def visit_Name(self, n):
            return ast.copy_location(ast.Name(id=n.id, ctx=ast.Load()), n)

        def visit_Attribute(self, n):
            return ast.copy_location(ast.Attribute(value=self.visit(n.value), attr=n.attr, ctx=ast.Load()), n)

        def visit_Subscript(self, n):
            return ast.copy_location(ast.Subscript(value=self.visit(n.value), slice=self.visit(n.slice), ctx=ast.Load()), n)
    import copy
    return Tr().visit(copy.deepcopy(t))


# ---------------------------------------------------------------------------
# Client 1: definite assignment of local names
# ---------------------------------------------------------------------------
def local_names(fnode):
    """Names bound somewhere in the function's own scope (not nested scopes)."""
    out = set()
    glob = set()

    def visit(n, top):
        for ch in ast.iter_child_nodes(n):
            if isinstance(ch, (ast.FunctionDef, ast.AsyncFunctionDef, ast.ClassDef)):
                out.add(ch.name)
                continue
            if isinstance(ch, ast.Lambda):
                continue
            if isinstance(ch, (ast.ListComp, ast.SetComp, ast.DictComp, ast.GeneratorExp)):
                # comprehension targets are local to the comprehension, but
                # the first iterable and walrus targets belong to us
                for sub in ast.walk(ch):
                    if isinstance(sub, ast.NamedExpr) and isinstance(sub.target, ast.Name):
                        out.add(sub.target.id)
                continue
            if isinstance(ch, ast.Name) and isinstance(ch.ctx, (ast.Store, ast.Del)):
                out.add(ch.id)
            if isinstance(ch, (ast.Global, ast.Nonlocal)):
                glob.update(ch.names)
            if isinstance(ch, (ast.Import, ast.ImportFrom)):
                for a in ch.names:
                    out.add((a.asname or a.name).split(".")[0])
            if isinstance(ch, ast.ExceptHandler) and ch.name:
                out.add(ch.name)
            visit(ch, False)
    visit(fnode, True)
    return out - glob


def bound_names_of_stmt(s):
    out = set()
    if isinstance(s, (ast.Import, ast.ImportFrom)):
        for a in s.names:
            out.add((a.asname or a.name).split(".")[0])
        return out

    def tgt(t):
        if isinstance(t, ast.Name):
            out.add(t.id)
        elif isinstance(t, (ast.Tuple, ast.List)):
            for e in t.elts:
                tgt(e)
        elif isinstance(t, ast.Starred):
            tgt(t.value)
    if isinstance(s, ast.Assign):
        for t in s.targets:
            tgt(t)
    elif isinstance(s, (ast.AugAssign, ast.AnnAssign)):
        if not (isinstance(s, ast.AnnAssign) and s.value is None):
            tgt(s.target)
    # walrus anywhere in the statement
    for n in ast.walk(s):
        if isinstance(n, ast.NamedExpr) and isinstance(n.target, ast.Name):
            out.add(n.target.id)
    return out


class DefiniteAssignment(MustAnalysis):
    """Reports reads of a local that is not bound on some feasible path."""

    def __init__(self, fnode):
        a = fnode.args
        params = [x.arg for x in a.posonlyargs + a.args + a.kwonlyargs]
        if a.vararg:
            params.append(a.vararg.arg)
        if a.kwarg:
            params.append(a.kwarg.arg)
        super().__init__(fnode, init_tokens=params)
        self.locals = local_names(fnode) | set(params)
        self.reports = {}  # (name) -> (node, facts description)
        self.none_uses = {}  # ("none", name, line) -> (node, facts)

    def gen(self, stmt):
        return bound_names_of_stmt(stmt)

    def kill_tokens(self, stmt):
        if isinstance(stmt, ast.Delete):
            return [t.id for t in stmt.targets if isinstance(t, ast.Name)]
        return ()

    def use(self, expr, state, stmt):
        for n in _own_scope_loads(expr):
            if n.id in self.locals and n.id not in state.tokens:
                key = n.id
                if key not in self.reports:
                    self.reports[key] = (n, describe(state.facts))
        # dereference of a name that is None on this path: len(x), x.attr, x[i]
        none = Const(None)
        for n in ast.walk(expr):
            tgt = None
            if isinstance(n, ast.Call) and isinstance(n.func, ast.Name) and n.func.id == "len" and n.args \
                    and isinstance(n.args[0], ast.Name):
                tgt = n.args[0]
            elif isinstance(n, (ast.Attribute, ast.Subscript)) and isinstance(n.value, ast.Name) \
                    and isinstance(n.ctx, ast.Load):
                tgt = n.value
            if tgt is not None and state.facts.allowed.get(tgt.id) == frozenset([none]):
                key = ("none", tgt.id, getattr(n, "lineno", 0))
                if key not in self.none_uses:
                    self.none_uses[key] = (n, describe(state.facts))


def _own_scope_loads(expr):
    """Name loads evaluated in the current scope when `expr` is evaluated
    (not inside lambdas / nested comprehension scopes except the first
    iterable; comprehension-bound names are excluded)."""
    out = []

    def visit(n, bound):
        if isinstance(n, ast.Lambda):
            return  # body runs later
        if isinstance(n, (ast.ListComp, ast.SetComp, ast.DictComp, ast.GeneratorExp)):
            b = set(bound)
            first = True
            for g in n.generators:
                visit(g.iter, b if not first else bound)
                first = False
                for t in ast.walk(g.target):
                    if isinstance(t, ast.Name):
                        b.add(t.id)
                for c in g.ifs:
                    visit(c, b)
            if isinstance(n, ast.DictComp):
                visit(n.key, b)
                visit(n.value, b)
            else:
                visit(n.elt, b)
            return
        if isinstance(n, ast.Name):
            if isinstance(n.ctx, ast.Load) and n.id not in bound:
                out.append(n)
            return
        for ch in ast.iter_child_nodes(n):
            visit(ch, bound)
    visit(expr, set())
    return out


def describe(facts):
    bits = [f"{k}={v}" for k, v in sorted(facts.b.items())]
    bits += [f"{k} in {sorted(map(repr, v))}" for k, v in sorted(facts.allowed.items())]
    bits += [f"{k} not in {sorted(map(repr, v))}" for k, v in sorted(facts.excluded.items())]
    return "; ".join(bits)[:300]
