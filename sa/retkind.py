"""Abstract kinds of the index value a pool query returns: is it a 1-d ndarray on every path?

Kinds: ARR1D (1-d ndarray), ARR_K1 (2-d (k, 1) ndarray), ARR1 (1-element array, e.g. rand_argmax
without axis), SCALAR, LIST_E (empty python list), LIST_S (python list of scalars), LIST_A1 (python
list of 1-element arrays), UNK.  Flow-sensitive over the statement tree, branches joined by union,
loop bodies evaluated twice (kinds are idempotent)."""
import ast

BAD = {"LIST_E": "a python list", "LIST_S": "a python list of scalars", "LIST_A1": "a python list of 1-element arrays",
       "ARR_K1": "a 2-d array of shape (k, 1)", "ARR1": "a 1-element array", "SCALAR": "a scalar"}


def _cn(call):
    f = call.func
    if isinstance(f, ast.Attribute):
        return f.attr
    if isinstance(f, ast.Name):
        return f.id
    return ""


class RetKinds:
    def __init__(self, fnode):
        self.fnode = fnode
        self.returns = []   # (node, kinds)

    def kind(self, e, env):
        if isinstance(e, ast.Name):
            return set(env.get(e.id, {"UNK"}))
        if isinstance(e, ast.List):
            if not e.elts:
                return {"LIST_E"}
            ks = set()
            for x in e.elts:
                k = self.kind(x, env)
                ks |= {"LIST_A1"} if k & {"ARR1"} else ({"LIST_S"} if k <= {"SCALAR"} else {"UNK"})
            return ks
        if isinstance(e, ast.Constant) and isinstance(e.value, (int, float)):
            return {"SCALAR"}
        if isinstance(e, ast.Subscript):
            base = self.kind(e.value, env)
            idx = e.slice
            if isinstance(idx, ast.Constant) and isinstance(idx.value, int):
                out = set()
                for b in base:
                    out.add({"ARR1": "SCALAR", "ARR1D": "SCALAR", "LIST_S": "SCALAR", "LIST_A1": "ARR1", "ARR_K1": "ARR1"}.get(b, "UNK"))
                return out
            if isinstance(idx, ast.Slice):
                return base
            # fancy indexing with the tracked value as the index: result has the index's shape
            ik = self.kind(idx, env)
            out = set()
            for k in ik:
                out.add({"LIST_S": "ARR1D", "ARR1D": "ARR1D", "LIST_E": "ARR1D", "LIST_A1": "ARR_K1", "ARR_K1": "ARR_K1",
                         "SCALAR": "SCALAR", "ARR1": "ARR1"}.get(k, "UNK"))
            return out
        if isinstance(e, ast.Call):
            cn = _cn(e)
            if cn in ("rand_argmax", "rand_argmin"):
                ax = [k for k in e.keywords if k.arg == "axis"]
                return {"ARR1D"} if ax and not (isinstance(ax[0].value, ast.Constant) and ax[0].value.value is None) else {"ARR1"}
            if cn in ("array", "asarray", "asanyarray") and e.args:
                out = set()
                for k in self.kind(e.args[0], env):
                    out.add({"LIST_S": "ARR1D", "LIST_E": "ARR1D", "LIST_A1": "ARR_K1", "ARR1D": "ARR1D", "ARR_K1": "ARR_K1"}.get(k, "UNK"))
                return out
            if cn in ("flatten", "ravel") and isinstance(e.func, ast.Attribute):
                k = self.kind(e.func.value, env)
                return {"ARR1D"} if k & {"ARR1D", "ARR_K1", "ARR1"} and not (k & {"LIST_S", "LIST_A1", "LIST_E"}) else {"UNK"}
            if cn == "reshape" and [ast.unparse(a).replace(" ", "") for a in e.args] in (["-1"], ["(-1,)"]):
                return {"ARR1D"}
            if cn in ("empty", "zeros", "ones", "full") and e.args:
                sh = e.args[0]
                if isinstance(sh, ast.Tuple):
                    if len(sh.elts) == 1:
                        return {"ARR1D"}
                    if len(sh.elts) == 2 and isinstance(sh.elts[1], ast.Constant) and sh.elts[1].value == 1:
                        return {"ARR_K1"}
                    return {"UNK"}
                for k in e.keywords:
                    if k.arg == "shape":
                        return self.kind(ast.Call(func=ast.Name(id=cn, ctx=ast.Load()), args=[k.value], keywords=[]), env)
                return {"ARR1D"}
            if cn in ("append", "concatenate", "hstack") and isinstance(e.func, ast.Attribute) and isinstance(e.func.value, ast.Name) \
                    and e.func.value.id in ("np", "numpy"):
                return {"ARR1D"} if cn == "append" and not any(k.arg == "axis" for k in e.keywords) else {"UNK"}
            if cn in ("choice", "permutation", "argsort", "flatnonzero", "arange", "unique"):
                return {"ARR1D"} if cn != "choice" or any(k.arg == "size" for k in e.keywords) or len(e.args) > 1 else {"UNK"}
            if cn == "int":
                return {"SCALAR"}
            if cn in ("argmax", "argmin", "nanargmax", "nanargmin"):
                return {"SCALAR"} if not any(k.arg == "axis" for k in e.keywords) and len(e.args) < 2 else {"UNK"}
            return {"UNK"}
        if isinstance(e, ast.IfExp):
            return self.kind(e.body, env) | self.kind(e.orelse, env)
        return {"UNK"}

    def block(self, stmts, env):
        for st in stmts:
            env = self.stmt(st, env)
            if env is None:
                return None
        return env

    @staticmethod
    def join(a, b):
        if a is None:
            return b
        if b is None:
            return a
        out = {}
        for k in set(a) | set(b):
            out[k] = set(a.get(k, {"UNK"})) | set(b.get(k, {"UNK"}))
        return out

    def stmt(self, st, env):
        env = dict(env)
        if isinstance(st, ast.Assign):
            k = self.kind(st.value, env)
            for t in st.targets:
                if isinstance(t, ast.Name):
                    env[t.id] = k
                elif isinstance(t, (ast.Tuple, ast.List)):
                    for x in t.elts:
                        if isinstance(x, ast.Name):
                            env[x.id] = {"UNK"}
                # element stores keep the container kind
            return env
        if isinstance(st, ast.AugAssign) and isinstance(st.target, ast.Name):
            env[st.target.id] = {"UNK"}
            return env
        if isinstance(st, ast.Expr) and isinstance(st.value, ast.Call) and isinstance(st.value.func, ast.Attribute) \
                and st.value.func.attr in ("append", "extend") and isinstance(st.value.func.value, ast.Name) and st.value.args:
            nm = st.value.func.value.id
            cur = env.get(nm, {"UNK"})
            if cur & {"LIST_E", "LIST_S", "LIST_A1"}:
                ek = self.kind(st.value.args[0], env)
                new = set()
                if st.value.func.attr == "append":
                    if ek & {"ARR1"}:
                        new.add("LIST_A1")
                    if ek & {"SCALAR"}:
                        new.add("LIST_S")
                    if ek - {"ARR1", "SCALAR"}:
                        new.add("UNK")
                else:
                    new.add("LIST_S" if ek <= {"ARR1D", "LIST_S", "ARR1"} else "UNK")
                env[nm] = (cur - {"LIST_E"}) | new
            return env
        if isinstance(st, ast.Return):
            if st.value is not None:
                v = st.value.elts[0] if isinstance(st.value, ast.Tuple) and st.value.elts else st.value
                self.returns.append((st, self.kind(v, env), v))
            return None
        if isinstance(st, ast.Raise):
            return None
        if isinstance(st, ast.If):
            a = self.block(st.body, env)
            b = self.block(st.orelse, env)
            return self.join(a, b)
        if isinstance(st, (ast.For, ast.While)):
            e1 = self.block(st.body, env)
            e1 = self.join(env, e1)
            e2 = self.block(st.body, e1) if e1 is not None else None
            out = self.join(e1, e2)
            if st.orelse and out is not None:
                out = self.block(st.orelse, out)
            return out
        if isinstance(st, ast.With):
            return self.block(st.body, env)
        if isinstance(st, ast.Try):
            a = self.block(st.body, env)
            for h in st.handlers:
                a = self.join(a, self.block(h.body, env))
            if st.finalbody and a is not None:
                a = self.block(st.finalbody, a)
            return a
        return env

    def run(self):
        self.block(self.fnode.body, {})
        return self
