"""Must value-flow ("carry") analysis.

Decides, for a function g and one of its parameters q, whether on EVERY path
to a return the returned value is computed from the VALUES of q through
operations that propagate an element's marker (a NaN, or a zero under
minimum) - the structural part of "the exclusion of older picks is carried
by the previous row".  Shape-only constructors (full_like, zeros, ...) and
NaN-erasing reductions (nansum, nan_to_num, fmin, ...) do not carry.

State = set of local names that definitely carry; joins intersect.
"""
import ast

from .deps import base_name

SHAPE_ONLY = {"ones_like", "zeros_like", "full_like", "empty_like", "ones", "zeros", "full", "empty", "len", "arange",
              "shape", "eye", "identity"}
ERASING = {"nansum", "nanmin", "nanmax", "nanmean", "nanargmin", "nanargmax", "nan_to_num", "isnan", "isfinite", "fmin",
           "fmax", "where", "nanmedian", "nanstd", "nanvar", "nanprod", "sum", "min", "max", "mean", "argmin", "argmax",
           "any", "all", "count_nonzero", "flatnonzero", "nonzero"}
ELEMENTWISE = {"minimum", "maximum", "square", "sqrt", "abs", "absolute", "add", "subtract", "multiply", "divide",
               "true_divide", "power", "exp", "log", "negative", "copy", "asarray", "array", "ascontiguousarray",
               "astype", "reshape", "ravel", "flatten", "squeeze", "atleast_1d", "clip", "column_or_1d", "check_array",
               "float64", "take", "expand_dims", "transpose", "log1p", "expm1", "tanh", "sign", "reciprocal"}


def _cname(call):
    f = call.func
    if isinstance(f, ast.Attribute):
        return f.attr
    if isinstance(f, ast.Name):
        return f.id
    return None


SHAPE_ELEMENTWISE = {"isnan", "isfinite", "isinf", "isclose", "equal", "not_equal", "logical_not", "logical_and", "logical_or",
                     "invert", "isin", "greater", "less", "where", "nan_to_num", "fmin", "fmax", "vectorize"}
SHAPE_CHANGING = {"reshape", "ravel", "flatten", "squeeze", "take", "expand_dims", "transpose", "atleast_1d",
                  "atleast_2d", "column_or_1d"}
LIKE = {"ones_like", "zeros_like", "full_like", "empty_like"}
SHAPED = {"ones", "zeros", "full", "empty"}


def _shape_of(e, S):
    """is `e` the full shape of a carrying array (x.shape / np.shape(x))?"""
    if isinstance(e, ast.Attribute) and e.attr == "shape":
        return carries(e.value, S, "shape")
    if isinstance(e, ast.Call) and _cname(e) == "shape" and e.args:
        return carries(e.args[0], S, "shape")
    return False


def carries(e, S, mode="value"):
    """mode 'value': the values (markers such as NaN) of a carrying array
    reach `e`;  mode 'shape': `e` has, element for element, the shape of a
    carrying array."""
    if e is None:
        return False
    if isinstance(e, ast.Name):
        return e.id in S
    if mode == "shape":
        if isinstance(e, ast.Compare):
            return carries(e.left, S, mode) or any(carries(c, S, mode) for c in e.comparators)
        if isinstance(e, ast.Call):
            n = _cname(e)
            if n in LIKE:
                return bool(e.args) and carries(e.args[0], S, mode)
            if n in SHAPED:
                sh = e.args[0] if e.args else next((k.value for k in e.keywords if k.arg == "shape"), None)
                return sh is not None and _shape_of(sh, S)
            if n in SHAPE_ELEMENTWISE:
                ops = list(e.args)
                return any(carries(a, S, mode) for a in ops)
        if isinstance(e, ast.Subscript):
            return False  # indexing changes the shape
        if isinstance(e, ast.Call) and _cname(e) in SHAPE_CHANGING:
            return False
    if isinstance(e, ast.Call) and _cname(e) == "where" and len(e.args) == 3 and mode == "value":
        # NaN logic: an ordering/equality comparison is False at a NaN, so
        # the NaN positions take the else-operand; `!=`, isnan and `~` flip
        side = _nan_side(e.args[0])
        a, b = carries(e.args[1], S, mode), carries(e.args[2], S, mode)
        if side == "else":
            return b
        if side == "then":
            return a
        return a and b
    if isinstance(e, ast.Call):
        n = _cname(e)
        if n in SHAPE_ONLY or n in ERASING:
            return False
        if n in ELEMENTWISE:
            ops = list(e.args) + [k.value for k in e.keywords if k.arg not in ("out", "dtype", "axis", "order", "copy")]
            if isinstance(e.func, ast.Attribute) and not _is_module(e.func.value):
                ops.append(e.func.value)
            return any(carries(a, S, mode) for a in ops)
        return False
    if isinstance(e, ast.BinOp):
        return carries(e.left, S, mode) or carries(e.right, S, mode)
    if isinstance(e, ast.UnaryOp):
        return carries(e.operand, S, mode)
    if isinstance(e, ast.Subscript):
        return carries(e.value, S, mode)
    if isinstance(e, ast.IfExp):
        return carries(e.body, S, mode) and carries(e.orelse, S, mode)
    if isinstance(e, ast.Attribute) and e.attr == "T":
        return mode == "value" and carries(e.value, S, mode)
    return False


def _nan_side(c):
    if isinstance(c, ast.UnaryOp) and isinstance(c.op, (ast.Invert, ast.Not)):
        s_ = _nan_side(c.operand)
        return {"else": "then", "then": "else"}.get(s_)
    if isinstance(c, ast.Compare) and len(c.ops) == 1:
        return "then" if isinstance(c.ops[0], ast.NotEq) else "else"
    if isinstance(c, ast.Call) and _cname(c) == "isnan":
        return "then"
    if isinstance(c, ast.Call) and _cname(c) in ("isfinite",):
        return "else"
    return None


def _is_module(e):
    return isinstance(e, ast.Name) and e.id in ("np", "numpy", "scipy", "sp")


def _full_slice(t):
    s = t.slice
    if isinstance(s, ast.Slice) and s.lower is None and s.upper is None and s.step is None:
        return True
    if isinstance(s, ast.Constant) and s.value is Ellipsis:
        return True
    return False


class MustCarry:
    """returns: list of (return node, ok)"""

    def __init__(self, fnode, param, nonnull=(), nonempty=(), mode="value"):
        self.mode = mode
        self.fnode = fnode
        self.param = param
        self.nonnull = set(nonnull) | {param}
        self.nonempty = set(nonempty)
        self.returns = []
        self.rebound = set()

    def run(self):
        S = self.block(self.fnode.body, {self.param})
        if S is not None:
            # falling off the end returns None: nothing carried
            self.returns.append((self.fnode, False))
        return self.returns

    # -- tests decided from the calling context
    def truth(self, t):
        if isinstance(t, ast.UnaryOp) and isinstance(t.op, ast.Not):
            v = self.truth(t.operand)
            return None if v is None else (not v)
        if isinstance(t, ast.Compare) and len(t.ops) == 1:
            l, op, r = t.left, t.ops[0], t.comparators[0]
            if isinstance(l, ast.Name) and l.id in self.nonnull and l.id not in self.rebound \
                    and isinstance(r, ast.Constant) and r.value is None:
                if isinstance(op, ast.Is):
                    return False
                if isinstance(op, ast.IsNot):
                    return True
            if isinstance(l, ast.Call) and _cname(l) == "len" and l.args and isinstance(l.args[0], ast.Name) \
                    and l.args[0].id in self.nonempty and l.args[0].id not in self.rebound \
                    and isinstance(r, ast.Constant) and r.value == 0:
                if isinstance(op, ast.Eq):
                    return False
                if isinstance(op, (ast.Gt, ast.NotEq)):
                    return True
        return None

    def block(self, stmts, S):
        """state after the block or None when every path left it"""
        for st in stmts:
            if S is None:
                return None
            S = self.stmt(st, S)
        return S

    def _bind(self, t, val_carries, S):
        S = set(S)
        if isinstance(t, ast.Name):
            if not val_carries:
                self.rebound.add(t.id)
            S.discard(t.id)
            if val_carries:
                S.add(t.id)
        elif isinstance(t, (ast.Tuple, ast.List)):
            for e in t.elts:
                S = self._bind(e, False, S)
        elif isinstance(t, ast.Subscript):
            b = base_name(t)
            if b:
                if val_carries:
                    S.add(b)
                elif _full_slice(t):
                    S.discard(b)
        return S

    def stmt(self, st, S):
        if isinstance(st, ast.Assign):
            c = carries(st.value, S, self.mode)
            for t in st.targets:
                S = self._bind(t, c, S)
            return S
        if isinstance(st, ast.AnnAssign):
            if st.value is not None:
                return self._bind(st.target, carries(st.value, S, self.mode), S)
            return S
        if isinstance(st, ast.AugAssign):
            b = base_name(st.target)
            if b and (b in S or carries(st.value, S, self.mode)):
                S = set(S) | {b}
            return S
        if isinstance(st, ast.Expr):
            v = st.value
            if isinstance(v, ast.Call):
                for k in v.keywords:
                    if k.arg == "out" and isinstance(k.value, ast.Name):
                        c = any(carries(a, S, self.mode) for a in v.args) and _cname(v) in ELEMENTWISE
                        S = self._bind(k.value, c, S)
            return S
        if isinstance(st, ast.Return):
            self.returns.append((st, carries(st.value, S, self.mode)))
            return None
        if isinstance(st, ast.Raise):
            return None
        if isinstance(st, ast.If):
            tv = self.truth(st.test)
            if tv is True:
                return self.block(st.body, S)
            if tv is False:
                return self.block(st.orelse, S)
            a = self.block(st.body, set(S))
            b = self.block(st.orelse, set(S))
            if a is None:
                return b
            if b is None:
                return a
            return a & b
        if isinstance(st, (ast.For, ast.While)):
            S0 = set(S)
            if isinstance(st, ast.For):
                S0 = self._bind(st.target, False, S0)
            cur = S0
            for _ in range(3):
                a = self.block(st.body, set(cur))
                nxt = cur if a is None else (cur & a)
                if nxt == cur:
                    break
                cur = nxt
            out = self.block(st.orelse, set(cur)) if st.orelse else cur
            return out
        if isinstance(st, ast.With):
            return self.block(st.body, S)
        if isinstance(st, ast.Try):
            a = self.block(st.body, set(S))
            outs = [a]
            for h in st.handlers:
                outs.append(self.block(h.body, set(S)))
            live = [o for o in outs if o is not None]
            if not live:
                return None
            r = set.intersection(*live)
            if st.finalbody:
                r = self.block(st.finalbody, r)
            return r
        return S
