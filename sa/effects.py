"""Write records over the event list of the abstract interpreter."""
import ast

from .absint import Interp, fmt_origin, is_visible_root, NOCONST
from .astutil import FuncTree, dominates, postdominates, name_stores
from .common import norm_stmt

_trees = {}


def tree_of(fi):
    t = _trees.get(id(fi.node))
    if t is None:
        t = FuncTree(fi.node)
        _trees[id(fi.node)] = (t, fi.node)
        return t
    return t[0]


class Write:
    __slots__ = ("ev", "loc", "kind", "how")

    def __init__(self, ev, loc, kind, how):
        self.ev = ev
        self.loc = loc  # (root, path)
        self.kind = kind  # "store" | "mutate"
        self.how = how

    @property
    def attr(self):
        return self.loc[1][-1] if self.loc[1] else ""

    def locname(self):
        return fmt_origin(self.loc)


def writes(events, roots=("self",), include_params=False):
    out = []
    for ev in events:
        if ev.kind == "attr_store":
            base = ev.data["base"]
            for (root, path) in base.origins:
                if root in roots or (include_params and root.startswith("p:")):
                    out.append(Write(ev, (root, path + (ev.data["attr"],)), "store",
                                     ev.data.get("how", "=")))
        elif ev.kind == "mutate":
            tgt = ev.data["target"]
            how = str(ev.data.get("how", ""))
            for (root, path) in tgt.origins:
                if "[]" in path and not (how.startswith(".") and how.endswith("()")):
                    # element of an untyped container: only object-style
                    # mutations (method calls) are meaningful, array-cell
                    # writes on a possibly copied selection are not
                    continue
                if root in roots or (include_params and root.startswith("p:")):
                    out.append(Write(ev, (root, path), "mutate", ev.data.get("how", "")))
    return out


def stmt_in_frame(ev, j):
    """The statement of event `ev` as seen from function number j of its call
    path (0 = entity function ... len(stack) = the function containing the
    event itself)."""
    chain = list(ev.stack) + [(ev.fi, ev.node)]
    fi, node = chain[j]
    t = tree_of(fi)
    if isinstance(node, ast.stmt):
        return fi, node
    return fi, t.stmt_of(node)


def chain_len(ev):
    return len(ev.stack) + 1


def has_not_hasattr_guard(ev, attr):
    """Is the event guarded by `not hasattr(<x>, "<attr>")` (in any frame of
    its call chain)?"""
    for (test, pol) in ev.guards:
        if not isinstance(test, ast.AST):
            continue
        from .absint import guard_atoms
        for (e, p) in guard_atoms(test, pol) if isinstance(test, ast.expr) else []:
            if isinstance(e, ast.Call) and isinstance(e.func, ast.Name) and e.func.id == "hasattr" \
                    and len(e.args) == 2 and isinstance(e.args[1], ast.Constant) \
                    and e.args[1].value == attr and p is False:
                return True
    return False
